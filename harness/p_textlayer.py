"""String level of find_path (C14) and of the region syntax of view (C05): the REAL functions - `GFA.extract_path(str)`,
`gaftools.cli.find_path.run(...)` (Python entry point and command line), `gaftools.cli.view.get_unstable([region], index)`
(which calls `view.search`, where the two `int()` are) - run in-process on well-formed and malformed strings and compared, string
by string, with the Lean model of Model/TextLayer.lean (driver ops `findpath.run`, `region.parse`, `text.spaces`).

    c14_strings(ck, tmp, n)     >= n path strings (+ find_path runs with the path as the argument / with a path file)
    c05_regions(ck, n)          >= n region strings
    hook(ck, prop)              the one call p_graph.py / p_view.py make: adds Gaftools.Props.TextLayer to the modules built before
                                the audit (which reads Audit/C14_extra.lean / Audit/C05_extra.lean) and runs the comparison before
                                the verdict
    python p_textlayer.py [c14|c05|all] [n] [--seed s] [--mutant name|all]      standalone (needs the compiled driver)

Outcomes are values or one of "IndexError" / "ValueError" / "KeyError" / "OSError" / "crash:<type>"; a difference is reported with
ck.disagreement(...).  A mutant (`--mutant`) replaces one function of the loaded gaftools modules by a deliberately wrong copy
(made from its own source text) for one run and restores it afterwards: the run must then report disagreements."""
import inspect
import os
import random
import shutil
import sys
import tempfile
import textwrap

sys.path.insert(0, os.path.dirname(os.path.abspath(__file__)))
import core                                              # noqa: E402
import gen                                               # noqa: E402
from p_graph import tokenize_gfa, small_gfa              # noqa: E402

MODULE = "Gaftools.Props.TextLayer"
KNOWN = ("IndexError", "ValueError", "KeyError")


def outcome(f):
    try:
        return {"ok": f()}
    except BaseException as e:  # noqa
        name = type(e).__name__
        if name in KNOWN:
            return {"err": name}
        if isinstance(e, OSError):
            return {"err": "OSError"}
        return {"err": "crash:" + name}


def driver(cases):
    """core.Check.driver with the replies split at "\\n" only: the model echoes strings holding U+0085, U+001C, U+2028 ..., which
    `str.splitlines()` (used there) takes as line ends"""
    import json
    import subprocess
    inp = "\n".join(json.dumps(c, separators=(",", ":")) for c in cases) + "\n"
    p = subprocess.run([core.DRIVER], input=inp.encode(), stdout=subprocess.PIPE, stderr=subprocess.PIPE, timeout=1800)
    lines = [ln for ln in p.stdout.decode("utf-8").split("\n") if ln]
    if p.returncode != 0 or len(lines) != len(cases):
        raise core.HarnessError("driver failed rc=%s, %d replies for %d cases: %s" % (p.returncode, len(lines), len(cases), p.stderr[-500:]))
    out = [json.loads(ln) for ln in lines]
    for c, r in zip(cases, out):
        if "driver_error" in r:
            raise core.HarnessError("driver error %r on case %s" % (r["driver_error"], json.dumps(c)[:400]))
    return out


def klass(o):
    return "ok" if "ok" in o else o["err"]


# ------------------------------------------------------------------------------------------------ C14: path strings
ODD_IDS = ["n 1", "a-b", "h#1", "x.y:3", "s1 ", "é", "N", "0"]
BLANKS = [" ", "\t", "  ", "\n", "\r", "\x0b", "\x0c", "\x1c", "\x1f", "\x85", "\xa0", "\u2003", "\u3000", " \t "]
INLINE_BLANKS = [b for b in BLANKS if b not in ("\n", "\r")]


def exotic_gfa(rng):
    """a small GFA (p_graph.small_gfa: all link orientations, self links, dangling links, shuffled lines); in a third of the graphs
    some ids are replaced by ids with blanks, '-', '#', ':', a trailing blank, a non-ASCII letter"""
    text, ids = small_gfa(rng)
    if rng.random() < 0.35:
        ren = {}
        pool = rng.sample(ODD_IDS, len(ODD_IDS))
        for i in ids:
            if rng.random() < 0.5 and pool:
                ren[i] = pool.pop()
        if ren:
            out = []
            for ln in text.splitlines():
                f = ln.split("\t")
                if f[0] == "S":
                    f[1] = ren.get(f[1], f[1])
                elif f[0] == "L":
                    f[1], f[3] = ren.get(f[1], f[1]), ren.get(f[3], f[3])
                out.append("\t".join(f))
            text = "\n".join(out) + "\n"
            ids = [ren.get(i, i) for i in ids]
    return text, ids


def walk_steps(rng, ids, links):
    fl = {"+": "-", "-": "+"}
    adj = {}
    for (a, da, b, db) in links:
        adj.setdefault((a, da), []).append((b, db))
        adj.setdefault((b, fl[db]), []).append((a, fl[da]))
    cur = (rng.choice(ids), rng.choice("+-"))
    w = [cur]
    for _ in range(rng.randint(0, 5)):
        nx = adj.get(cur)
        if not nx:
            break
        cur = rng.choice(nx)
        w.append(cur)
    return w


def path_string(rng, ids, links):
    """(string, shape): well-formed strings of walks / arbitrary steps, and the malformed shapes"""
    steps = walk_steps(rng, ids, links) if rng.random() < 0.6 and links else [(rng.choice(ids), rng.choice("+-")) for _ in range(rng.randint(1, 5))]
    s = "".join((">" if o == "+" else "<") + n for n, o in steps)
    k = rng.random()
    if k < 0.40:
        return s, "well-formed"
    k = rng.randrange(16)
    if k == 0:
        return s[1:], "no-leading-orientation"
    if k == 1:
        i = rng.choice([j for j, c in enumerate(s) if c in "<>"])
        return s[:i] + rng.choice("<>") + s[i:], "doubled-orientation"      # ">>a", ">a<>b"
    if k == 2:
        return rng.choice(["<", ">", "", "<>", "><<", ">" + rng.choice(BLANKS), " ", "\n"]), "degenerate"
    if k == 3:
        i = rng.randrange(1, len(s) + 1)
        return s[:i] + rng.choice(BLANKS) + s[i:], "blank-inside"              # an id with a blank: another id
    if k == 4:
        return s + rng.choice(BLANKS + ["\n", "\r\n"]), "blank-after"
    if k == 5:
        return rng.choice(BLANKS) + s, "blank-before"
    if k in (6, 7, 8):
        w = list(steps)
        pos = {6: 0, 7: len(w) - 1, 8: rng.randrange(len(w))}[k]
        w[pos] = (rng.choice(["zz_not_a_node", "n", "nn0", ""]), w[pos][1])
        return "".join((">" if o == "+" else "<") + n for n, o in w), "unknown-node-%s" % {6: "first", 7: "last", 8: "anywhere"}[k]
    if k == 9:
        return s + rng.choice("<>"), "trailing-orientation"
    if k == 10:
        return rng.choice(["x", "n0", "+", "-", "?"]) + s, "text-before"
    if k == 11:
        return s.replace(">", "+").replace("<", "-"), "plus-minus"
    if k == 12:
        return "".join(rng.choice("<>" + "".join(ids) + " \t\n") for _ in range(rng.randint(1, 12))), "soup"
    if k == 13:
        return s + s, "twice"
    if k == 14:
        return s.replace(">", ">>", 1) if ">" in s else s.replace("<", "<<", 1), "doubled-orientation"
    return s + "\n" + s, "two-lines-in-one"


def dress(rng, s, blanks):
    """a line of a path file: blanks before / after"""
    if rng.random() < 0.35:
        s = rng.choice(blanks) + s
    if rng.random() < 0.35:
        s = s + rng.choice(blanks)
    return s


def file_content(rng, g, strs, clean):
    """content of a path file: one string per line with "\\n" / "\\r\\n" / "\\r", the last line with or without terminator, blanks
    around the strings; `clean`: only strings whose stripped form `extract_path` takes without raising, no blank lines (so that
    there is output to compare); otherwise anything, blank lines and line breaks inside the blanks included"""
    cand = [s for s in strs if "\n" not in s and "\r" not in s]
    if clean:
        cand = [s for s in cand if "ok" in outcome(lambda: g.extract_path(s.strip()))]
    lines = [dress(rng, rng.choice(cand), INLINE_BLANKS if clean else BLANKS) if cand else "x" for _ in range(rng.randint(0, 8))]
    if not clean and rng.random() < 0.5:
        lines.insert(rng.randrange(len(lines) + 1), rng.choice(["", " ", "\t"]))          # a blank line
    nl = rng.choice(["\n", "\n", "\n", "\r\n", "\r", None])
    out = ""
    for i, ln in enumerate(lines):
        t = nl if nl else rng.choice(["\n", "\r\n", "\r"])
        if i == len(lines) - 1 and rng.random() < 0.3:
            t = ""
        out += ln + t
    if not clean and rng.random() < 0.1:
        out += "\n"           # a trailing empty line
    return out


def real_run(tmp, gfa, arg, fasta):
    """find_path on the real code: the Python entry point or (core.tool's own share) the command line; the file it wrote"""
    from gaftools.cli import find_path
    out = os.path.join(tmp, "tl.out")
    if os.path.exists(out):
        os.remove(out)

    def call():
        if arg.startswith("-"):     # would be read as an option by the argument parser
            find_path.run(gfa_path=gfa, input_path=arg, output=out, fasta=fasta)
        else:
            core.tool("find_path", allow_stdout=False, gfa_path=gfa, input_path=arg, output=out, fasta=fasta)
        with open(out, newline="") as f:
            return f.read()
    r = outcome(call)
    if "err" in r and os.path.exists(out):
        r["wrote"] = True
    return r


def c14_strings(ck, tmp, n):
    from gaftools.gfa import GFA
    rng = random.Random("textlayer-c14-%d" % ck.seed)
    done = 0
    while done < n:
        text, ids = exotic_gfa(rng)
        gfa = os.path.join(tmp, "tl.gfa")
        gen.write_text(gfa, text)
        tok = tokenize_gfa(text)
        links = [(l["a"], "+" if l["da"] else "-", l["b"], "+" if l["db"] else "-") for l in tok["links"] if l["a"] in ids and l["b"] in ids]
        pairs = [path_string(rng, ids, links) for _ in range(24)]
        strs = [p[0] for p in pairs]
        g = GFA(gfa)
        impl = [outcome(lambda s=s: g.extract_path(s)) for s in strs]
        # runs: the path as the argument; a file of paths (clean / with anything); no such file; the empty argument
        runs = []
        for s in rng.sample(strs, 3):
            runs.append({"arg": s, "file": None, "fasta": rng.random() < 0.5, "kind": "arg"})
        for clean in (True, True, False):
            pf = os.path.join(tmp, "tl-paths-%d.txt" % len(runs))
            content = file_content(rng, g, strs, clean)
            with open(pf, "w", encoding="utf-8", newline="") as f:
                f.write(content)
            runs.append({"arg": pf, "file": content, "fasta": rng.random() < 0.5, "kind": "file-clean" if clean else "file-any"})
        if rng.random() < 0.1:
            runs.append({"arg": os.path.join(tmp, "no-such-file"), "file": None, "fasta": False, "kind": "no-file"})
        if rng.random() < 0.05:
            runs.append({"arg": "", "file": None, "fasta": False, "kind": "empty-arg"})
        real = [real_run(tmp, gfa, r["arg"], r["fasta"]) for r in runs]
        rep = driver([{"op": "findpath.run", "gfa": tok, "paths": strs,
                          "runs": [{"arg": r["arg"], "file": r["file"], "fasta": r["fasta"]} for r in runs]}])[0]
        import re
        for (s, shape), im, mo, toks in zip(pairs, impl, rep["paths"], rep["tokens"]):
            done += 1
            ck.case({"gfa": text, "path": s}, True)
            ck.count("textlayer:path:%s:%s" % (shape, klass(im)))
            ck.count("textlayer:extract_path:%s" % (klass(im) if "err" in im else ("sequence" if im["ok"] else "empty")))
            if im != mo:
                ck.disagreement("extract_path(%r): the tool gives %r, the model %r" % (s, im, mo), {"gfa": text, "path": s, "impl": im, "model": mo})
            want = [[t[0] == ">", t[1:]] for t in re.findall("[><][^><]+", s)]
            if want != toks:
                ck.disagreement("re.findall on %r gives %r, tokenizePath %r" % (s, want, toks), {"path": s, "re": want, "model": toks})
        for r, im, mo in zip(runs, real, rep["runs"]):
            ck.case({"gfa": text, "run": r}, True)
            exp = dict(mo)
            if "ok" in exp:
                exp["ok"] = "".join(x + "\n" for x in exp["ok"])
            ck.count("textlayer:run:%s:%s" % (r["kind"], klass(im)))
            if "ok" in im:
                ck.count("textlayer:run-records", len(mo.get("ok", [])) // (2 if r["fasta"] else 1))
            if im != exp:
                ck.disagreement("find_path.run(%r, fasta=%s): the tool %r, the model %r" % (r["arg"] if r["file"] is None else r["file"], r["fasta"], im, exp),
                                {"gfa": text, "run": r, "impl": im, "model": exp})
        for f in os.listdir(tmp):
            if f.startswith("tl-paths-"):
                os.remove(os.path.join(tmp, f))
    return done


# ------------------------------------------------------------------------------------------------ C05: region strings
CONTIGS = ["chr1", "chr-1", "h#1#ctg-2", "c 1", "", "chrX_2", "1", "chr1 "]
NUMS = ["0", "5", "17", "40", "99", "05", "+5", "+17", " 5", "5 ", "\t17", "17\n", "", "1_0", "1__0", "_1", "5_", "0x10", "1e1", "5.0", "x",
        "\x1c5", "5\x1f", "\xa05", "17\u2003", "\u30005", "1 0", "+", "+ 5", "++5", "5+", "000", "200", "1000000000000000000000000"]


def fake_index():
    """an index in the shape view.run loads: keys (id, contig, start, end) and "ref_contig"; every contig tiled by 12 nodes of
    10 bases (stored in shuffled order: get_unstable sorts them by start)"""
    idx = {"ref_contig": list(CONTIGS)}
    keys = []
    for ci, c in enumerate(CONTIGS):
        for i in range(12):
            keys.append(("s%d_%d" % (ci, i), c, 10 * i, 10 * i + 10))
    random.Random(7).shuffle(keys)
    for k in keys:
        idx[k] = [0]
    return idx


def expected_nodes(c, a, b):
    if c not in CONTIGS:
        return []
    ci = CONTIGS.index(c)
    return ["s%d_%d" % (ci, i) for i in range(12) if 10 * i <= b and a < 10 * i + 10]


def region_string(rng):
    c = rng.choice(CONTIGS)
    num = lambda: rng.choice(NUMS) if rng.random() < 0.45 else str(rng.randint(0, 130))   # noqa: E731
    k = rng.random()
    if k < 0.30:
        a = rng.randint(0, 120)
        return "%s:%d-%d" % (c, a, rng.randint(a, 125)), "well-formed"
    k = rng.randrange(15)
    if k == 14:
        sg = lambda: rng.choice(["++5", "5+", "+5+", "+-5", "+ 5", "+5", "+05", "+0", "+", "+_5", "+5_0", " +5", "+5 ", "\t+17\n"])   # noqa: E731
        return rng.choice(["%s:%s-%s" % (c, sg(), sg()), "%s:%s" % (c, sg()), "%s:7-%s" % (c, sg())]), "sign-forms"
    if k == 0:
        return "%s:%s-%s" % (c, num(), num()), "odd-numbers"
    if k == 1:
        return "%s:%s" % (c, num()), "no-dash"
    if k == 2:
        return "%s:%s-%s-%s" % (c, num(), num(), num()), "two-dashes"
    if k == 3:
        return rng.choice([c, "%s-%s" % (c, num()), "%s %s-%s" % (c, num(), num()), ""]), "no-colon"
    if k == 4:
        return "%s:%s-%s:%s" % (c, num(), num(), rng.choice(["", "x", "7-9", ":"])), "second-colon"
    if k == 5:
        return "%s:%s" % (c, rng.choice(["", "-", "--", "5-", "-5", "5--9", "-5-9", "5-9-", " - "])), "empty-number"
    if k == 6:
        return "%s:-%s-%s" % (c, num(), num()), "minus-sign"
    if k == 7:
        return "%s:+%s-+%s" % (c, rng.randint(0, 130), rng.randint(0, 130)), "plus-sign"
    if k == 8:
        return "%s: %s - %s " % (c, rng.randint(0, 130), rng.randint(0, 130)), "blanks"
    if k == 9:
        return "".join(rng.choice("c:-+ 0123_#\t") for _ in range(rng.randint(0, 9))), "soup"
    if k == 10:
        return "%s:%s-%s" % (c, rng.randint(0, 99), rng.choice(BLANKS) + str(rng.randint(0, 130)) + rng.choice(BLANKS)), "white-space-kinds"
    if k == 11:
        d = rng.choice([4299, 4300, 4301, 4302])
        z = rng.choice(["0", "1"]) * d
        return rng.choice(["%s:%s-5" % (c, z), "%s:5-%s" % (c, z), "%s:+%s" % (c, z), "%s:%s" % (c, "_".join(z))]), "many-digits"
    if k == 12:
        a, b = rng.randint(0, 130), rng.randint(0, 130)
        return "%s:%d-%d" % (c, a, b), "end-before-start"
    return "%s:%s_%s-%s" % (c, rng.randint(0, 9), rng.randint(0, 9), num()), "underscore"


def as_int(x):
    """the number search() made of x (it did not raise when this is called)"""
    try:
        return str(int(x))
    except ValueError:
        return "accepted-but-no-int:" + x


def real_region(view, index, region):
    """view.get_unstable([region], index) with the real view.search behind a recorder of its arguments: the contig and the two
    numbers as the tool itself split and converted them, and the nodes it selected"""
    seen = []
    real_search = view.search

    def spy(node, node_list):
        seen.append(list(node))
        return real_search(node, node_list)
    view.search = spy
    try:
        def call():
            nodes = view.get_unstable([region], index)
            c, s, e = seen[0]
            return {"region": [c, as_int(s), as_int(e)], "nodes": nodes}
        return outcome(call)
    finally:
        view.search = real_search


def c05_regions(ck, n):
    from gaftools.cli import view
    rng = random.Random("textlayer-c05-%d" % ck.seed)
    index = fake_index()
    # the two white-space sets, exhaustively over all code points
    sp = driver([{"op": "text.spaces"}])[0]
    strip_real = [c for c in range(0x110000) if not 0xD800 <= c <= 0xDFFF and chr(c).isspace()]
    int_real = []
    for c in strip_real:
        try:
            int_real.append(c) if int(chr(c) + "5" + chr(c)) == 5 else None
        except ValueError:
            pass
    ck.count("textlayer:white-space-sets-compared")
    if sp["strip"] != strip_real:
        ck.disagreement("str.isspace() and pyIsSpace differ", {"real": strip_real, "model": sp["strip"]})
    if sp["int"] != int_real:
        ck.disagreement("the white space int() skips and intSpace differ", {"real": int_real, "model": sp["int"]})
    done = 0
    while done < n:
        pairs = [region_string(rng) for _ in range(250)]
        pairs = [(s, sh) for s, sh in pairs if not any(ord(ch) > 127 and ch.isdecimal() for ch in s)]     # digits outside ASCII: not modelled
        impl = [real_region(view, index, s) for s, _ in pairs]
        rep = driver([{"op": "region.parse", "regions": [s for s, _ in pairs]}])[0]["results"]
        for (s, shape), im, mo in zip(pairs, impl, rep):
            done += 1
            ck.case({"region": s}, True)
            ck.count("textlayer:region:%s:%s" % (shape, klass(im)))
            exp = dict(mo)
            if "ok" in exp:
                c, a, b = exp["ok"]
                exp["ok"] = {"region": [c, a, b], "nodes": expected_nodes(c, int(a), int(b))}
                ck.count("textlayer:region-selects:%s" % ("nothing" if not exp["ok"]["nodes"] else "one" if len(exp["ok"]["nodes"]) == 1 else "several"))
            if im != exp:
                short = lambda o: repr(o)[:300]   # noqa: E731
                ck.disagreement("region %r: the tool %s, the model %s" % (s[:80], short(im), short(exp)), {"region": s, "impl": im, "model": exp})
    return done


# ------------------------------------------------------------------------------------------------ hook, mutants, standalone
def hook(ck, prop):
    """called by p_graph.main (C14) / p_view.main (C05) before the build: the proof module joins the modules that are grepped,
    built and audited, and the string-level comparison runs before the verdict is formed"""
    build, finish = ck.lean_build, ck.finish

    def lean_build(modules):
        return build(list(modules) + [MODULE])

    def finish_(*a, **k):
        quick = ck.tier == "quick"
        if prop == "C14":
            tmp = tempfile.mkdtemp(prefix="gtv-tl-")
            try:
                c14_strings(ck, tmp, 2400 if quick else 24000)
            finally:
                shutil.rmtree(tmp, ignore_errors=True)
        elif prop == "C05":
            c05_regions(ck, 2500 if quick else 25000)
        return finish(*a, **k)
    ck.lean_build, ck.finish = lean_build, finish_


def _rewrite(owner, name, old, new):
    """a copy of owner.name with `old` replaced by `new` in its source text"""
    fn = getattr(owner, name)
    src = textwrap.dedent(inspect.getsource(fn))
    assert old in src, (name, old)
    ns = {}
    exec(compile(src.replace(old, new), "<mutant %s>" % name, "exec"), fn.__globals__, ns)
    return ns[name]


def _mutants():
    from gaftools.gfa import GFA
    from gaftools.cli import find_path, view
    return {
        "strip-rstrip": ("c14", find_path, "run", ".strip()", ".rstrip()"),
        "first-char-any": ("c14", find_path, "run", 'input_path[0] in [">", "<"]', 'input_path[0] in [">"]'),
        "fasta-name": ("c14", find_path, "run", ">seq_{node}", ">seq_{node.strip('<')}"),
        "regex-star": ("c14", GFA, "extract_path", '"[><][^><]+"', '"[><][^><]*"'),
        "regex-no-blank": ("c14", GFA, "extract_path", '"[><][^><]+"', '"[><][^>< ]+"'),
        "first-char-skip": ("c14", GFA, "extract_path", 'if path[0] not in {"<", ">"}', 'if path[:1] not in {"<", ">"}'),
        "end-index": ("c05", view, "get_unstable", '.split("-")[-1]', '.split("-")[1]'),
        "start-rsplit": ("c05", view, "get_unstable", 'region.split(":")[1].split("-")[0]', 'region.rsplit(":")[-1].split("-")[0]'),
        "contig-partition": ("c05", view, "get_unstable", 'c = region.split(":")[0]', 'c = region.rsplit(":", 1)[0]'),
        "int-strip": ("c05", view, "search", "q_e = int(node[2])", "q_e = int(node[2].strip('+'))"),
    }


class _StandaloneCheck(core.Check):
    """the accounting of core.Check without the build / evidence machinery"""

    def __init__(self, seed):  # noqa: super().__init__ deliberately not called
        self.prop, self.tier, self.seed = "textlayer", "quick", seed
        self.rng = random.Random("textlayer-%d" % seed)
        self.hist, self.broken, self.violations, self.samples = {}, [], [], []
        self.evaluations, self.nontrivial, self.extra, self.canon = 0, set(), {}, []


def run_standalone(part, n, seed, mutant=None):
    ck = _StandaloneCheck(seed)
    core.CLI_RNG.seed("cli-textlayer-%d" % seed)
    saved = None
    tmp = tempfile.mkdtemp(prefix="gtv-tl-")
    try:
        if mutant:
            _, owner, name, old, new = _mutants()[mutant]
            saved = (owner, name, getattr(owner, name))
            setattr(owner, name, _rewrite(owner, name, old, new))
        if part in ("c14", "all"):
            c14_strings(ck, tmp, n)
        if part in ("c05", "all"):
            c05_regions(ck, n)
    finally:
        if saved:
            setattr(*saved)
        shutil.rmtree(tmp, ignore_errors=True)
    return ck


if __name__ == "__main__":
    sys.path.insert(0, core.REPO)
    os.environ.setdefault("GAFTOOLS_VERIF", "1")
    a = sys.argv[1:]
    part = a[0] if a and a[0] in ("c14", "c05", "all") else "all"
    nums = [x for x in a if x.isdigit() and (a.index(x) == 0 or a[a.index(x) - 1] != "--seed")]
    n = int(nums[0]) if nums else 2500
    seed = int(a[a.index("--seed") + 1]) if "--seed" in a else 1
    mut = a[a.index("--mutant") + 1] if "--mutant" in a else None
    if mut == "all":
        bad = 0
        for m, spec in _mutants().items():
            ck = run_standalone(spec[0], n, seed, m)
            print("mutant %-18s (%s) %6d compared, %5d disagreements  %s" % (m, spec[0], ck.evaluations, len(ck.broken), "caught" if ck.broken else "NOT CAUGHT"))
            bad += not ck.broken
        sys.exit(1 if bad else 0)
    ck = run_standalone(_mutants()[mut][0] if mut else part, n, seed, mut)
    for k in sorted(ck.hist):
        print("%7d  %s" % (ck.hist[k], k))
    print("%d compared, %d disagreements%s" % (ck.evaluations, len(ck.broken), " [mutant %s]" % mut if mut else ""))
    import json
    for b in ck.broken[:6]:
        print(json.dumps(b, indent=1, default=str)[:1500])
    sys.exit(1 if ck.broken else 0)
