#!/usr/bin/env python3
"""Tie A: translate a deliberately tiny subset of Python, taken from /repo's working tree, into Lean definitions.

Every run of a check regenerates lean/Gaftools/Gen/*.lean from the *current* source; the theorems in
Gaftools/Props/*.lean that mention `Gen.*` are then re-checked by `lake build` against what the code says now.

Subset: straight-line `if/elif/else` + `return`, comparisons, and/or/not, int/str literals, unary minus,
attribute access on parameters, `in` on a string literal/parameter attr, dict literals with tuple keys.
Anything else -> `Untranslatable` (reported as tie "B-only" in the evidence, never an alarm by itself).
"""
import ast
import os
import sys
import hashlib

REPO = os.environ.get("GAFTOOLS_REPO") or "/repo"
HERE = os.path.dirname(os.path.abspath(__file__))
GEN = os.path.join(HERE, "..", "lean", "Gaftools", "Gen")


class Untranslatable(Exception):
    pass


def find_func(mod, name, cls=None):
    body = mod.body
    if cls:
        for n in body:
            if isinstance(n, ast.ClassDef) and n.name == cls:
                body = n.body
                break
        else:
            raise Untranslatable("class %s not found" % cls)
    for n in body:
        if isinstance(n, ast.FunctionDef) and n.name == name:
            return n
    raise Untranslatable("function %s not found" % name)


class Tr:
    """expression / statement translator, parameterised by how names and attributes are rendered"""

    def __init__(self, attr, name=None, ret=None, lit_type="Int", none_fallthrough="none"):
        self.attr = attr          # (obj, attr) -> lean term
        self.name = name or (lambda n: (_ for _ in ()).throw(Untranslatable("name " + n)))
        self.ret = ret or (lambda e: "some " + e)
        self.lit_type = lit_type
        self.fall = none_fallthrough

    def expr(self, e):
        if isinstance(e, ast.Compare) and len(e.ops) > 1:
            parts = []
            left = e.left
            for op, right in zip(e.ops, e.comparators):
                parts.append(self.expr(ast.Compare(left=left, ops=[op], comparators=[right])))
                left = right
            return "(" + " ∧ ".join(parts) + ")"
        if isinstance(e, ast.Compare) and len(e.ops) == 1:
            l, r = self.expr(e.left), self.expr(e.comparators[0])
            t = type(e.ops[0])
            if t in (ast.In, ast.NotIn):
                s = "(strContains %s %s = true)" % (r, l)
                return s if t is ast.In else "(¬ %s)" % s
            op = {ast.Lt: "<", ast.Gt: ">", ast.Eq: "=", ast.LtE: "≤", ast.GtE: "≥", ast.NotEq: "≠"}[t]
            return "(%s %s %s)" % (l, op, r)
        if isinstance(e, ast.BoolOp):
            op = " ∧ " if isinstance(e.op, ast.And) else " ∨ "
            return "(" + op.join(self.expr(v) for v in e.values) + ")"
        if isinstance(e, ast.UnaryOp) and isinstance(e.op, ast.Not):
            return "(¬ %s)" % self.expr(e.operand)
        if isinstance(e, ast.UnaryOp) and isinstance(e.op, ast.USub) and isinstance(e.operand, ast.Constant):
            return "(-%d : %s)" % (e.operand.value, self.lit_type)
        if isinstance(e, ast.Attribute) and isinstance(e.value, ast.Name):
            return self.attr(e.value.id, e.attr)
        if isinstance(e, ast.Name):
            return self.name(e.id)
        if isinstance(e, ast.Constant):
            if isinstance(e.value, bool):
                return "True" if e.value else "False"
            if isinstance(e.value, int):
                return "(%d : %s)" % (e.value, self.lit_type)
            if isinstance(e.value, str):
                return '"%s"' % e.value.replace("\\", "\\\\").replace('"', '\\"')
        if isinstance(e, ast.BinOp) and type(e.op) in (ast.Add, ast.Sub):
            return "(%s %s %s)" % (self.expr(e.left), "+" if isinstance(e.op, ast.Add) else "-", self.expr(e.right))
        raise Untranslatable(ast.dump(e))

    @staticmethod
    def always_returns(b):
        if not b:
            return False
        l = b[-1]
        return isinstance(l, ast.Return) or (
            isinstance(l, ast.If) and bool(l.orelse) and Tr.always_returns(l.body) and Tr.always_returns(l.orelse)
        )

    def block(self, stmts, ind):
        pad = " " * ind
        if not stmts:
            return pad + self.fall
        s, rest = stmts[0], stmts[1:]
        if isinstance(s, ast.Expr) and isinstance(s.value, ast.Constant):
            return self.block(rest, ind)  # docstring
        if isinstance(s, ast.Return):
            return pad + self.ret_stmt(s)
        if isinstance(s, ast.Assign) and len(s.targets) == 1 and isinstance(s.targets[0], ast.Name):
            return "%slet %s := %s\n%s" % (pad, s.targets[0].id, self.expr(s.value), self.block(rest, ind))
        if (isinstance(s, ast.If) and len(s.body) == 1 and len(s.orelse) == 1 and isinstance(s.body[0], ast.Assign)
                and isinstance(s.orelse[0], ast.Assign) and len(s.body[0].targets) == 1 and len(s.orelse[0].targets) == 1
                and isinstance(s.body[0].targets[0], ast.Name) and isinstance(s.orelse[0].targets[0], ast.Name)
                and s.body[0].targets[0].id == s.orelse[0].targets[0].id):
            return "%slet %s := if %s then %s else %s\n%s" % (pad, s.body[0].targets[0].id, self.expr(s.test),
                                                              self.expr(s.body[0].value), self.expr(s.orelse[0].value), self.block(rest, ind))
        if isinstance(s, ast.If):
            then = self.block(s.body if self.always_returns(s.body) else s.body + rest, ind + 2)
            if s.orelse:
                els = self.block(s.orelse if self.always_returns(s.orelse) else s.orelse + rest, ind + 2)
            else:
                els = self.block(rest, ind + 2)
            return "%sif %s then\n%s\n%selse\n%s" % (pad, self.expr(s.test), then, pad, els)
        raise Untranslatable(ast.dump(s))

    def ret_stmt(self, s):
        return self.ret(self.expr(s.value))


def src_of(rel):
    p = os.path.join(REPO, rel)
    with open(p) as f:
        return p, f.read()


# ---------------------------------------------------------------------------------------------------------
def gen_cmp_gaf():
    path, src = src_of("gaftools/cli/sort.py")
    fn = find_func(ast.parse(src), "compare_gaf")
    args = [a.arg for a in fn.args.args]
    if len(args) != 2:
        raise Untranslatable("compare_gaf arity")
    FIELD = {"BO": "bo", "NO": "no", "start": "start", "offset": "offset"}

    def attr(o, a):
        if o in args and a in FIELD:
            return "%s.%s" % (o, FIELD[a])
        raise Untranslatable("attr %s.%s" % (o, a))

    body = Tr(attr).block(fn.body, 2)
    return """import Gaftools.Model.Sort
/-! generated by harness/translate.py from gaftools/cli/sort.py : compare_gaf — do not edit -/
namespace Gaftools.Gen
open Gaftools.Sort
def cmpGaf (%s %s : Aln) : Option Int :=
%s
end Gaftools.Gen
""" % (args[0], args[1], body)


def gen_merge_nodes():
    path, src = src_of("gaftools/conversion.py")
    fn = find_func(ast.parse(src), "merge_nodes")
    args = [a.arg for a in fn.args.args]
    if len(args) != 4:
        raise Untranslatable("merge_nodes arity")
    nodes, orients = args[:2], args[2:]
    FIELD = {"contig_id": "contig", "start": "s", "end": "e"}

    class T(Tr):
        def expr(self, e):
            # orientation characters: '>' = true, '<' = false
            if isinstance(e, ast.Constant) and e.value in (">", "<"):
                return "true" if e.value == ">" else "false"
            if isinstance(e, ast.Call) and isinstance(e.func, ast.Name) and e.func.id == "StableNode" and len(e.args) == 3 and not e.keywords:
                return "(⟨%s, %s, %s⟩ : SNode)" % tuple(self.expr(a) for a in e.args)
            if isinstance(e, ast.Name) and e.id in orients + ["node"]:
                return e.id
            return Tr.expr(self, e)

        def ret_stmt(self, st):
            v = st.value
            if isinstance(v, ast.Constant) and v.value is False:
                return "none"
            if isinstance(v, ast.List) and len(v.elts) == 2:
                return "some (%s, %s)" % (self.expr(v.elts[0]), self.expr(v.elts[1]))
            raise Untranslatable(ast.dump(st))

    def attr(o, a):
        if o in nodes + ["node"] and a in FIELD:
            return "%s.%s" % (o, FIELD[a])
        raise Untranslatable("attr %s.%s" % (o, a))

    body = T(attr).block(fn.body, 2)
    return """import Gaftools.Model.Conv
/-! generated by harness/translate.py from gaftools/conversion.py : merge_nodes — do not edit -/
namespace Gaftools.Gen
open Gaftools.Conv
def mergeNodes (%s %s : SNode) (%s %s : Bool) : Option (SNode × Bool) :=
%s
end Gaftools.Gen
""" % (args[0], args[1], args[2], args[3], body)


def _dict_literal(node):
    """{(k1, k2): (v1, v2), ...} with string/int constants -> list of ((k1,k2),(v1,v2))"""
    if not isinstance(node, ast.Dict):
        raise Untranslatable("not a dict literal")
    out = []
    for k, v in zip(node.keys, node.values):
        if not (isinstance(k, ast.Tuple) and isinstance(v, ast.Tuple) and len(k.elts) == 2 and len(v.elts) == 2):
            raise Untranslatable("dict entry shape")
        ks = [e.value for e in k.elts if isinstance(e, ast.Constant)]
        vs = [e.value for e in v.elts if isinstance(e, ast.Constant)]
        if len(ks) != 2 or len(vs) != 2:
            raise Untranslatable("dict entry constants")
        out.append((tuple(ks), tuple(vs)))
    return out


def gen_tables():
    """gfa.E_DIR and the `cases` table of GFA.path_exists as total functions on Booleans ('+'/'>' = true; side 1/'end' = true)"""
    path, src = src_of("gaftools/gfa.py")
    mod = ast.parse(src)
    edir = None
    for n in mod.body:
        if isinstance(n, ast.Assign) and len(n.targets) == 1 and isinstance(n.targets[0], ast.Name) and n.targets[0].id == "E_DIR":
            edir = _dict_literal(n.value)
    if edir is None:
        raise Untranslatable("E_DIR not found")
    fn = find_func(mod, "path_exists", cls="GFA")
    cases = None
    for n in ast.walk(fn):
        if isinstance(n, ast.Assign) and len(n.targets) == 1 and isinstance(n.targets[0], ast.Name) and n.targets[0].id == "cases":
            cases = _dict_literal(n.value)
    if cases is None:
        raise Untranslatable("cases table not found")
    b = {"+": "true", "-": "false", ">": "true", "<": "false", 1: "true", 0: "false", "end": "true", "start": "false"}

    def table(name, entries, doc):
        keys = {k for k, _ in entries}
        if len(keys) != 4 or len(entries) != 4:
            raise Untranslatable("%s is not a total 2x2 table" % name)
        arms = "\n".join("  | %s, %s => (%s, %s)" % (b[k[0]], b[k[1]], b[v[0]], b[v[1]]) for k, v in entries)
        return "/-- %s -/\ndef %s (a b : Bool) : Bool × Bool :=\n  match a, b with\n%s\n" % (doc, name, arms)
    try:
        body = table("eDir", edir, "gfa.E_DIR") + "\n" + table("pathCase", cases, "the `cases` table of GFA.path_exists")
    except KeyError as e:
        raise Untranslatable("unexpected table constant %s" % e)
    return """/-! generated by harness/translate.py from gaftools/gfa.py : E_DIR and path_exists.cases — do not edit -/
namespace Gaftools.Gen
%s
end Gaftools.Gen
""" % body


def gen_is_stable():
    path, src = src_of("gaftools/gaf.py")
    fn = find_func(ast.parse(src), "detect_path_format", cls="Alignment")

    class T(Tr):
        def expr(self, e):
            if isinstance(e, ast.Compare) and len(e.ops) == 1 and isinstance(e.ops[0], ast.In) and isinstance(e.left, ast.Constant) \
                    and isinstance(e.left.value, str) and len(e.left.value) == 1 and isinstance(e.comparators[0], ast.Attribute) \
                    and e.comparators[0].attr == "path":
                return "(path.contains '%s' = true)" % e.left.value
            if isinstance(e, ast.Constant) and isinstance(e.value, bool):
                return "true" if e.value else "false"
            return Tr.expr(self, e)

    body = T(lambda o, a: (_ for _ in ()).throw(Untranslatable("attr")), ret=lambda x: x, none_fallthrough="true").block(fn.body, 2)
    return """/-! generated by harness/translate.py from gaftools/gaf.py : Alignment.detect_path_format — do not edit -/
namespace Gaftools.Gen
def isStable (path : List Char) : Bool :=
%s
end Gaftools.Gen
""" % body


def gen_is_secondary():
    """the test guarding `total_secondary += 1` in stat.run_stat, as a function of (is_primary, mapping_quality)"""
    path, src = src_of("gaftools/cli/stat.py")
    fn = find_func(ast.parse(src), "run_stat")
    test = None
    for n in ast.walk(fn):
        if isinstance(n, ast.If):
            for st in n.body:
                if isinstance(st, ast.AugAssign) and isinstance(st.target, ast.Name) and st.target.id == "total_secondary":
                    test = n.test
    if test is None:
        raise Untranslatable("secondary test not found")
    FIELD = {"is_primary": "(isPrimary = true)", "mapping_quality": "(mapq : Int)"}

    def attr(o, a):
        if a in FIELD:
            return FIELD[a]
        raise Untranslatable("attr %s.%s" % (o, a))

    e = Tr(attr).expr(test)
    return """/-! generated by harness/translate.py from gaftools/cli/stat.py : the secondary test of run_stat — do not edit -/
namespace Gaftools.Gen
def isSecondary (isPrimary : Bool) (mapq : Nat) : Bool := decide %s
end Gaftools.Gen
""" % e


def _so_ln_expr(tr_fallback, seg_name):
    """recognise int(X.tags["SO"][1]) / int(X.tags["LN"][1]) (X = a name or intervals[mid]) and int(name)"""
    def rec(e):
        if isinstance(e, ast.Call) and isinstance(e.func, ast.Name) and e.func.id == "int" and len(e.args) == 1:
            a = e.args[0]
            # X.tags["SO"][1]
            if (isinstance(a, ast.Subscript) and isinstance(a.slice, ast.Constant) and a.slice.value == 1
                    and isinstance(a.value, ast.Subscript) and isinstance(a.value.slice, ast.Constant)
                    and a.value.slice.value in ("SO", "LN") and isinstance(a.value.value, ast.Attribute) and a.value.value.attr == "tags"):
                return "%s.so" % seg_name if a.value.slice.value == "SO" else "(%s.en - %s.so)" % (seg_name, seg_name)
            if isinstance(a, ast.Name):
                return {"query_start": "qs", "query_end": "qe"}.get(a.id) or (_ for _ in ()).throw(Untranslatable("int(%s)" % a.id))
        return None
    return rec


def gen_search_intervals():
    path, src = src_of("gaftools/utils.py")
    fn = find_func(ast.parse(src), "search_intervals")
    args = [a.arg for a in fn.args.args]
    if args != ["intervals", "query_start", "query_end", "start", "end"]:
        raise Untranslatable("search_intervals signature %s" % args)
    special = _so_ln_expr(None, "sg")
    NAMES = {"query_start": "qs", "query_end": "qe", "start": "start", "end": "end_", "mid": "mid"}

    class T(Tr):
        def expr(self, e):
            r = special(e)
            if r is not None:
                return r
            if isinstance(e, ast.Name) and e.id in NAMES:
                return NAMES[e.id]
            if isinstance(e, ast.BinOp) and isinstance(e.op, ast.FloorDiv):
                return "(%s / %s)" % (self.expr(e.left), self.expr(e.right))
            if isinstance(e, ast.Tuple) and len(e.elts) == 2:
                return "(%s, %s)" % (self.expr(e.elts[0]), self.expr(e.elts[1]))
            if isinstance(e, ast.Call) and isinstance(e.func, ast.Name) and e.func.id == "search_intervals" and len(e.args) == 5:
                a = e.args
                if not (isinstance(a[0], ast.Name) and a[0].id == "intervals" and isinstance(a[1], ast.Name) and a[1].id == "query_start"
                        and isinstance(a[2], ast.Name) and a[2].id == "query_end"):
                    raise Untranslatable("recursive call shape")
                return "searchIv intervals qs qe fuel %s %s" % (self.expr(a[3]), self.expr(a[4]))
            return Tr.expr(self, e)

        def ret_stmt(self, st):
            v = st.value
            if isinstance(v, ast.Call):
                return self.expr(v)
            return "some " + self.expr(v)

        def block(self, stmts, ind):
            # `mid = …` followed by code that indexes intervals[mid]: bind the segment once (IndexError = none)
            if stmts and isinstance(stmts[0], ast.Assign) and isinstance(stmts[0].targets[0], ast.Name) and stmts[0].targets[0].id == "mid":
                pad = " " * ind
                return ("%slet mid := %s\n%smatch intervals[mid.toNat]? with\n%s| none => none\n%s| some sg =>\n%s" % (
                    pad, self.expr(stmts[0].value), pad, pad, pad, Tr.block(self, stmts[1:], ind + 2)))
            return Tr.block(self, stmts, ind)

    t = T(lambda o, a: (_ for _ in ()).throw(Untranslatable("attr")), none_fallthrough="none")
    body = t.block(fn.body, 4)
    return """import Gaftools.Model.Conv
/-! generated by harness/translate.py from gaftools/utils.py : search_intervals — do not edit
    (recursion by fuel; `intervals[mid]` out of range = IndexError = none) -/
namespace Gaftools.Gen
open Gaftools.Conv
def searchIv (intervals : List Seg) (qs qe : Int) : Nat → Int → Int → Option (Int × Int)
  | 0, _, _ => none
  | fuel + 1, start, end_ =>
%s
end Gaftools.Gen
""" % body


def _cases_from_loop(fn, seg_name_py):
    """find the if/elif/elif chain assigning `cases = 1/2/3` and return its three tests"""
    for n in ast.walk(fn):
        if isinstance(n, ast.If) and any(isinstance(st, ast.Assign) and isinstance(st.targets[0], ast.Name) and st.targets[0].id == "cases"
                                          and isinstance(st.value, ast.Constant) and st.value.value == 1 for st in n.body):
            tests = [n.test]
            cur = n
            for want in (2, 3):
                if len(cur.orelse) == 1 and isinstance(cur.orelse[0], ast.If):
                    cur = cur.orelse[0]
                    if not any(isinstance(st, ast.Assign) and isinstance(st.value, ast.Constant) and st.value.value == want for st in cur.body):
                        raise Untranslatable("cases chain")
                    tests.append(cur.test)
                else:
                    raise Untranslatable("cases chain")
            if cur.orelse:
                raise Untranslatable("cases chain has a final else")
            return tests
    raise Untranslatable("cases chain not found")


def gen_overlap_cases():
    out = []
    for rel, fname, lean_name in (("gaftools/conversion.py", "to_unstable", "overlapCaseConv"), ("gaftools/cli/index.py", "convert_coord", "overlapCaseIndex")):
        path, src = src_of(rel)
        fn = find_func(ast.parse(src), fname)
        tests = _cases_from_loop(fn, None)
        special = _so_ln_expr(None, "sg")

        class T(Tr):
            def expr(self, e):
                r = special(e)
                if r is not None:
                    return r
                if isinstance(e, ast.Name) and e.id in ("s", "e"):
                    return {"s": "sg.so", "e": "sg.en"}[e.id]      # s = int(SO), e = int(SO) + int(LN) in to_unstable
                return Tr.expr(self, e)
        t = T(lambda o, a: (_ for _ in ()).throw(Untranslatable("attr")))
        e1, e2, e3 = (t.expr(x) for x in tests)
        out.append("/-- the three `cases` of %s (%s) -/\ndef %s (sg : Seg) (qs qe : Int) : Nat :=\n  if %s then 1\n  else if %s then 2\n  else if %s then 3\n  else 0\n" % (fname, rel, lean_name, e1, e2, e3))
    # guard: in to_unstable `s` and `e` must be defined as SO and SO+LN of the loop variable
    path, src = src_of("gaftools/conversion.py")
    if 's = int(i.tags["SO"][1])' not in src or 'e = int(i.tags["SO"][1]) + int(i.tags["LN"][1])' not in src:
        raise Untranslatable("definition of s / e in to_unstable changed")
    return """import Gaftools.Model.Conv
/-! generated by harness/translate.py : the overlap tests of conversion.to_unstable and index.convert_coord — do not edit -/
namespace Gaftools.Gen
open Gaftools.Conv
%s
end Gaftools.Gen
""" % "\n".join(out)


GENERATORS = {
    "SearchIv": gen_search_intervals,
    "OverlapCases": gen_overlap_cases,
    "IsSecondary": gen_is_secondary,
    "CmpGaf": gen_cmp_gaf,
    "MergeNodes": gen_merge_nodes,
    "Tables": gen_tables,
    "IsStable": gen_is_stable,
}


class TrMap(Tr):
    """expressions in which whole sub-expressions (matched by their `ast.unparse` text) stand for Lean variables"""

    def __init__(self, mapping, lit_type="Int"):
        super().__init__(lambda o, a: (_ for _ in ()).throw(Untranslatable("attr %s.%s" % (o, a))), lit_type=lit_type)
        self.mapping = mapping
        self.locals = {}

    def expr(self, e):
        u = ast.unparse(e)
        if u in self.mapping:
            return self.mapping[u]
        if isinstance(e, ast.Name) and e.id in self.locals:
            return self.locals[e.id]
        return super().expr(e)


def _only(nodes, what):
    nodes = list(nodes)
    if len(nodes) != 1:
        raise Untranslatable("%s: expected exactly one, found %d" % (what, len(nodes)))
    return nodes[0]


def gen_decisions():
    """small decision fragments (thresholds, comparisons, index choices) of sort, order_gfa, realign, view and stat"""
    out = []

    # ---- sort.process_alignment: what follows the loop over the path
    _, src = src_of("gaftools/cli/sort.py")
    fn = find_func(ast.parse(src), "process_alignment")
    loop_at = max(i for i, st in enumerate(fn.body) if isinstance(st, ast.For))
    tail = [st for st in fn.body[loop_at + 1:] if isinstance(st, ast.If)]
    m = {"orient_list.count('>')": "(nf : Int)", "orient_list.count('<')": "(nr : Int)",
         "int(line[6])": "plen", "int(line[7])": "ps", "int(line[8])": "pe"}
    inv_if = _only([st for st in tail if any(isinstance(a, ast.Assign) and ast.unparse(a.targets[0]) == "inv" for a in st.body)], "inv test")
    if ast.unparse(inv_if.body[0].value) != "1" or inv_if.orelse:
        raise Untranslatable("inv assignment")
    rev_if = _only([st for st in tail if any(isinstance(a, ast.Assign) and ast.unparse(a.targets[0]) == "start" for a in st.body)], "orientation test")

    def branch(stmts):
        t = TrMap(m)
        start = node = None
        for a in stmts:
            if not (isinstance(a, ast.Assign) and len(a.targets) == 1 and isinstance(a.targets[0], ast.Name)):
                raise Untranslatable(ast.dump(a))
            nm = a.targets[0].id
            if nm == "start":
                start = t.expr(a.value)
            elif nm == "n":
                if not (isinstance(a.value, ast.Subscript) and ast.unparse(a.value.value) == "path"):
                    raise Untranslatable("n = %s" % ast.unparse(a.value))
                node = int(ast.literal_eval(a.value.slice))
            elif nm in ("bo", "no"):
                if ast.unparse(a.value) != "int(nodes[n].tags['%s'][1])" % nm.upper():
                    raise Untranslatable("%s = %s" % (nm, ast.unparse(a.value)))
            else:
                t.locals[nm] = t.expr(a.value)
        if start is None or node is None:
            raise Untranslatable("branch without start / n")
        return start, node
    s_rev, n_rev = branch(rev_if.body)
    s_fwd, n_fwd = branch(rev_if.orelse)
    out.append("""/-- sort.process_alignment, after the loop: inversion flag, reverse-majority test, start coordinate and path index of the
    anchoring step in the two branches (`nf`/`nr` = scaffold steps walked forward / backward) -/
def sortInv (nf nr : Nat) : Bool := decide %s
def sortRev (nf nr : Nat) : Bool := decide %s
def sortStartRev (plen ps pe : Int) : Int := %s
def sortStartFwd (plen ps pe : Int) : Int := %s
def sortNodeRev : Int := %d
def sortNodeFwd : Int := %d""" % (TrMap(m).expr(inv_if.test), TrMap(m).expr(rev_if.test), s_rev, s_fwd, n_rev, n_fwd))

    # ---- order_gfa.decompose_and_order
    _, src = src_of("gaftools/cli/order_gfa.py")
    fn = find_func(ast.parse(src), "decompose_and_order")
    deg = {}
    for st in ast.walk(fn):
        if isinstance(st, ast.Assign) and isinstance(st.targets[0], ast.Name) and st.targets[0].id in ("degree_one", "degree_two"):
            lc = st.value
            if not (isinstance(lc, ast.ListComp) and len(lc.generators) == 1 and len(lc.generators[0].ifs) == 1):
                raise Untranslatable("degree list")
            deg[st.targets[0].id] = TrMap({"len(x.neighbors())": "(d : Int)"}).expr(lc.generators[0].ifs[0])
    asserts = [st.test for st in ast.walk(fn) if isinstance(st, ast.Assert) and "degree_" in ast.unparse(st.test)]
    a1 = _only([t for t in asserts if "degree_one" in ast.unparse(t)], "census one")
    a2 = _only([t for t in asserts if "degree_two" in ast.unparse(t)], "census two")
    mo = {"len(degree_one)": "(n1 : Int)", "len(degree_two)": "(n2 : Int)", "len(scaffold_graph)": "(total : Int)",
          "coordinates[0]": "a", "coordinates[-1]": "b", "coordinates[i]": "x", "coordinates[i + 1]": "y"}
    sn_if = _only([st for st in ast.walk(fn) if isinstance(st, ast.If) and "tags['SN']" in ast.unparse(st.test)], "SN test")
    sn_src = ast.unparse(sn_if.test)
    setexpr = _only([n for n in ast.walk(sn_if.test) if isinstance(n, ast.Call) and ast.unparse(n.func) == "len"], "len(set(..))")
    if ast.unparse(setexpr) != "len(set((new_graph[n].tags['SN'] for n in traversal_scaffold_only)))":
        raise Untranslatable("SN set: " + ast.unparse(setexpr))
    sn_test = TrMap({ast.unparse(setexpr): "(k : Int)"}).expr(sn_if.test)
    rev_if2 = _only([st for st in ast.walk(fn) if isinstance(st, ast.If) and ast.unparse(st.test).startswith("coordinates[0]")], "orientation test")
    if sorted(ast.unparse(x) for x in rev_if2.body) != ["coordinates.reverse()", "traversal.reverse()", "traversal_scaffold_only.reverse()"]:
        raise Untranslatable("orientation body")
    inc_for = _only([st for st in ast.walk(fn) if isinstance(st, ast.For) and ast.unparse(st.iter) == "range(len(coordinates) - 1)"], "increasing loop")
    inc_if = _only([st for st in inc_for.body if isinstance(st, ast.If)], "increasing test")
    no_s = no_b = None
    for st in ast.walk(fn):
        if isinstance(st, ast.Assign) and ast.unparse(st.targets[0]) == "node_order[node]":
            if ast.unparse(st.value.elts[0]) != "bo":
                raise Untranslatable("scaffold numbering")
            no_s = TrMap({}, lit_type="Nat").expr(st.value.elts[1])
        if isinstance(st, ast.Assign) and ast.unparse(st.targets[0]) == "node_order[n]":
            if ast.unparse(st.value.elts[0]) != "bo":
                raise Untranslatable("bubble numbering")
            no_b = TrMap({"i": "i"}, lit_type="Nat").expr(st.value.elts[1])
    if no_s is None or no_b is None:
        raise Untranslatable("numbering")
    out.append("""/-- order_gfa.decompose_and_order: degree tests, the two census assertions (True = passes), the SN test, the orientation
    test, the test that reports non-increasing offsets, and the NO numbers -/
def isDegOne (d : Nat) : Bool := decide %s
def isDegTwo (d : Nat) : Bool := decide %s
def censusOne (n1 : Nat) : Bool := decide %s
def censusTwo (n2 total : Nat) : Bool := decide %s
def mixedSN (k : Nat) : Bool := decide %s
def needsReverse (a b : Int) : Bool := decide %s
def notIncreasing (x y : Int) : Bool := decide %s
def scaffoldNo : Nat := %s
def bubbleNo (i : Nat) : Nat := %s""" % (deg["degree_one"], deg["degree_two"], TrMap(mo).expr(a1), TrMap(mo).expr(a2), sn_test,
                                          TrMap(mo).expr(rev_if2.test), TrMap(mo).expr(inc_if.test), no_s, no_b))

    # ---- realign.wfa_alignment: the pass-through guard
    _, src = src_of("gaftools/cli/realign.py")
    fn = find_func(ast.parse(src), "wfa_alignment")
    loop = _only([st for st in fn.body if isinstance(st, ast.For)], "batch loop")
    guard = loop.body[0]
    if not (isinstance(guard, ast.If) and guard.orelse and "WavefrontAligner" in ast.unparse(guard.orelse[0])
            and "WavefrontAligner" not in "".join(ast.unparse(x) for x in guard.body)):
        raise Untranslatable("the batch loop does not start with the pass-through guard")
    out.append("""/-- realign.wfa_alignment: alignments that are passed through unchanged (the first test of the batch loop), as a function
    of the read interval and of the lengths of the two sequences handed to the aligner -/
def tooLong (qs qe refLen queryLen : Int) : Bool := decide %s""" % TrMap({"gaf_line.query_end": "qe", "gaf_line.query_start": "qs", "len(ref)": "refLen", "len(query)": "queryLen"}).expr(guard.test))

    # ---- view.search: the region filter
    _, src = src_of("gaftools/cli/view.py")
    fn = find_func(ast.parse(src), "search")
    ret = _only([st for st in fn.body if isinstance(st, ast.Return)], "return of search")
    lc = ret.value
    if not (isinstance(lc, ast.ListComp) and ast.unparse(lc.elt) == "n" and len(lc.generators) == 1 and ast.unparse(lc.generators[0].iter) == "node_list"
            and len(lc.generators[0].ifs) == 1):
        raise Untranslatable("search is not a filter over node_list")
    t = TrMap({"n[2]": "so", "n[3]": "en", "int(node[1])": "a", "int(node[2])": "b"})
    for st in fn.body:
        if isinstance(st, ast.Assign) and isinstance(st.targets[0], ast.Name):
            t.locals[st.targets[0].id] = t.expr(st.value)
    out.append("""/-- view.search: an indexed node `[so, en)` of the contig is selected for the region `a-b` -/
def regionHit (so en a b : Int) : Bool := decide %s""" % t.expr(lc.generators[0].ifs[0]))

    # ---- stat.run_stat: thresholds of the CIGAR statistics
    _, src = src_of("gaftools/cli/stat.py")
    fn = find_func(ast.parse(src), "run_stat")
    large = {}
    for st in ast.walk(fn):
        if isinstance(st, ast.If) and len(st.body) == 1 and isinstance(st.body[0], ast.AugAssign) and ast.unparse(st.body[0].target).endswith("_large"):
            large[ast.unparse(st.body[0].target)] = TrMap({"int(all_cigars[cnt])": "n"}).expr(st.test)
    if sorted(large) != ["total_del_large", "total_ins_large", "total_match_large", "total_x_large"]:
        raise Untranslatable("large-event tests: %s" % sorted(large))
    perfect = _only([st for st in ast.walk(fn) if isinstance(st, ast.If) and len(st.body) == 1 and isinstance(st.body[0], ast.AugAssign)
                     and ast.unparse(st.body[0].target) == "total_perfect"], "perfect test")
    out.append("""/-- stat.run_stat --cigar: a run counts as large; an alignment counts as perfect (`k` = number of CIGAR tokens) -/
def largeDel (n : Int) : Bool := decide %s
def largeIns (n : Int) : Bool := decide %s
def largeSub (n : Int) : Bool := decide %s
def largeMatch (n : Int) : Bool := decide %s
def perfectTokens (k : Nat) : Bool := decide %s""" % (large["total_del_large"], large["total_ins_large"], large["total_x_large"], large["total_match_large"],
                                                    TrMap({"len(all_cigars)": "(k : Int)"}).expr(perfect.test)))
    return ("/-! generated by harness/translate.py from gaftools/cli/{sort,order_gfa,realign,view,stat}.py : decision fragments — do not edit -/\n"
            "namespace Gaftools.Gen\n" + "\n\n".join(out) + "\nend Gaftools.Gen\n")


GENERATORS["Decisions"] = gen_decisions


# ---------------------------------------------------------------------------------------------------------
# realign: the collector protocol — the four process predicates, both copies of the `except queue.Empty` handler, the
# sentinel test and the loop condition
def _proc_pred(fn):
    """`for p in processes: <returns or falls through>` [`else: ...`] + `return <b>`  ->  (lean body of the fold step, final value).
    The loop body may be any nest of `if`s over `p.is_alive()` / `p.exitcode` whose leaves are `return True|False` or fall
    through to the next process."""
    body = [st for st in fn.body if not (isinstance(st, ast.Expr) and isinstance(st.value, ast.Constant))]
    if len(body) not in (1, 2) or not isinstance(body[0], ast.For):
        raise Untranslatable("%s is not a `for` over the processes followed by a `return`" % fn.name)
    loop = body[0]
    if not (isinstance(loop.target, ast.Name) and ast.unparse(loop.iter) == fn.args.args[0].arg):
        raise Untranslatable("%s: loop shape" % fn.name)
    v = loop.target.id

    def cond(e):
        if isinstance(e, ast.BoolOp):
            return "(" + (" && " if isinstance(e.op, ast.And) else " || ").join(cond(x) for x in e.values) + ")"
        if isinstance(e, ast.UnaryOp) and isinstance(e.op, ast.Not):
            return "(!%s)" % cond(e.operand)
        u = ast.unparse(e)
        if u == "%s.is_alive()" % v:
            return "p.1"
        if isinstance(e, ast.Compare) and len(e.ops) == 1 and ast.unparse(e.left) == "%s.exitcode" % v:
            t, r = type(e.ops[0]), e.comparators[0]
            if isinstance(r, ast.Constant) and r.value is None and t in (ast.Is, ast.IsNot, ast.Eq, ast.NotEq):
                return "p.2.isNone" if t in (ast.Is, ast.Eq) else "p.2.isSome"
            if isinstance(r, ast.Constant) and isinstance(r.value, int) and not isinstance(r.value, bool) and t in (ast.Eq, ast.NotEq):
                return "(p.2 %s some (%d : Int))" % ("==" if t is ast.Eq else "!=", r.value)
            if isinstance(r, ast.Constant) and isinstance(r.value, int) and not isinstance(r.value, bool) and t in (ast.Lt, ast.Gt, ast.LtE, ast.GtE):
                # an ordering comparison with None raises TypeError: only meaningful for exited processes
                op = {ast.Lt: "<", ast.Gt: ">", ast.LtE: "≤", ast.GtE: "≥"}[t]
                return "(match p.2 with | some c => decide (c %s (%d : Int)) | none => false)" % (op, r.value)
        if isinstance(e, ast.Attribute) and u == "%s.exitcode" % v:      # truthiness of the exit code
            return "(p.2.isSome && (p.2 != some (0 : Int)))"
        raise Untranslatable("%s: condition %s" % (fn.name, u))

    def boolc(e):
        if isinstance(e, ast.Constant) and isinstance(e.value, bool):
            return "true" if e.value else "false"
        raise Untranslatable("%s: returns %s" % (fn.name, ast.unparse(e)))

    def tree(stmts, fall):
        if not stmts:
            return fall
        st, rest = stmts[0], stmts[1:]
        if isinstance(st, ast.Return):
            return boolc(st.value)
        if isinstance(st, ast.Pass) or (isinstance(st, ast.Expr) and isinstance(st.value, ast.Constant)):
            return tree(rest, fall)
        if isinstance(st, ast.Continue):
            return fall
        if isinstance(st, ast.If):
            return "(if %s then %s else %s)" % (cond(st.test), tree(st.body + rest, fall), tree(st.orelse + rest, fall))
        raise Untranslatable("%s: statement %s" % (fn.name, ast.unparse(st)[:60]))
    after = body[1:]
    if loop.orelse:                                   # for ... else: runs when the loop was not left by `return`
        final = tree(list(loop.orelse) + after, "false")
    else:
        final = tree(after, "false")
    if final is None:
        final = "false"           # falling off the end returns None, which every caller tests for truth
    return tree(loop.body, "acc"), final


def _handler_prog(stmts, names):
    """statements of an `except queue.Empty` handler -> a `Prog` term: every call of a process predicate is one poll, `and` / `or` /
    `not` are short-circuit evaluation (nested polls in source order), the leaves are exit1 / exit0 / cont / brk / fall"""
    if not stmts:
        return "(.leaf .fall)"
    st, rest = stmts[0], stmts[1:]
    if isinstance(st, ast.Continue):
        return "(.leaf .cont)"
    if isinstance(st, ast.Break):
        return "(.leaf .brk)"
    if isinstance(st, ast.Pass):
        return _handler_prog(rest, names)
    if isinstance(st, ast.Expr) and isinstance(st.value, ast.Call):
        u = ast.unparse(st.value.func)
        if u in ("sys.exit", "exit", "os._exit"):
            a = st.value.args
            zero = (not a) or (isinstance(a[0], ast.Constant) and a[0].value in (0, None))
            return "(.leaf .exit0)" if zero else "(.leaf .exit1)"
        if u.startswith("logger.") or u.startswith("logging.") or u == "stop_all" or u == "print":
            return _handler_prog(rest, names)
        raise Untranslatable("handler calls %s" % u)
    if isinstance(st, ast.Raise):
        return "(.leaf .exit1)"
    if isinstance(st, ast.If):
        def cond(e, yes, no):
            if isinstance(e, ast.UnaryOp) and isinstance(e.op, ast.Not):
                return cond(e.operand, no, yes)
            if isinstance(e, ast.BoolOp) and isinstance(e.op, ast.And):
                out = yes
                for x in reversed(e.values):
                    out = cond(x, out, no)
                return out
            if isinstance(e, ast.BoolOp) and isinstance(e.op, ast.Or):
                out = no
                for x in reversed(e.values):
                    out = cond(x, yes, out)
                return out
            if isinstance(e, ast.Call) and isinstance(e.func, ast.Name) and e.func.id in names and len(e.args) == 1 and ast.unparse(e.args[0]) == "processes":
                return "(.test %s %s %s)" % (names[e.func.id], yes, no)
            raise Untranslatable("handler tests %s" % ast.unparse(e))
        return cond(st.test, _handler_prog(st.body + rest, names), _handler_prog(st.orelse + rest, names))
    raise Untranslatable("handler statement %s" % ast.unparse(st)[:80])


def gen_collector():
    _, src = src_of("gaftools/cli/realign.py")
    mod = ast.parse(src)
    preds = {}
    for py, lean in (("all_are_alive", "allAreAlive"), ("one_is_alive", "oneIsAlive"), ("all_exited", "allExited"), ("one_failed", "oneFailed")):
        stepf, final = _proc_pred(find_func(mod, py))
        preds[lean] = "def %s (ps : List Proc) : Bool := ps.foldr (fun p acc => %s) %s" % (lean, stepf, final)
    fn = find_func(mod, "realign_gaf")
    loops = [n for n in ast.walk(fn) if isinstance(n, ast.While)]
    loops.sort(key=lambda n: n.lineno)
    if len(loops) != 2:
        raise Untranslatable("realign_gaf has %d collector loops, expected 2" % len(loops))
    names = {"one_failed": ".failed", "one_is_alive": ".alive", "all_exited": ".exited", "all_are_alive": ".allAlive"}
    defs = []
    for lp, tag in zip(loops, ("Main", "Left")):
        # while n_sentinels != len(processes):
        t = lp.test
        if not (isinstance(t, ast.Compare) and len(t.ops) == 1 and ast.unparse(t.left) == "n_sentinels" and ast.unparse(t.comparators[0]) == "len(processes)"):
            raise Untranslatable("loop condition %s" % ast.unparse(t))
        op = {ast.NotEq: "n != len", ast.Lt: "decide (n < len)", ast.LtE: "decide (n ≤ len)", ast.Gt: "decide (n > len)", ast.GtE: "decide (n ≥ len)", ast.Eq: "n == len"}[type(t.ops[0])]
        body = [st for st in lp.body if not (isinstance(st, ast.Expr) and isinstance(st.value, ast.Constant))]
        if len(body) != 2 or not isinstance(body[0], ast.Try) or not isinstance(body[1], ast.If):
            raise Untranslatable("collector loop is not `try: get / except Empty` + `if sentinel`")
        tr = body[0]
        if not (len(tr.body) == 1 and isinstance(tr.body[0], ast.Assign) and "align_queue.get" in ast.unparse(tr.body[0].value)
                and len(tr.handlers) == 1 and ast.unparse(tr.handlers[0].type) in ("queue.Empty", "Empty") and not tr.orelse and not tr.finalbody):
            raise Untranslatable("try statement of the collector loop")
        obj = tr.body[0].targets[0].id
        iff = body[1]
        # if out_string_obj is None: n_sentinels += 1  else: p_queue.put(out_string_obj)
        tst = ast.unparse(iff.test)
        if tst == "%s is None" % obj:
            pos = True
        elif tst == "%s is not None" % obj:
            pos = False
        else:
            raise Untranslatable("sentinel test %s" % tst)

        def arm(stmts):
            u = [ast.unparse(x) for x in stmts if not (isinstance(x, ast.Expr) and isinstance(x.value, ast.Constant))]
            if u == ["n_sentinels += 1"]:
                return ".count"
            if u == ["p_queue.put(%s)" % obj]:
                return ".keep"
            if u == ["n_sentinels += 1", "p_queue.put(%s)" % obj] or u == ["p_queue.put(%s)" % obj, "n_sentinels += 1"]:
                return ".both"
            if not u or u == ["pass"]:
                return ".drop"
            raise Untranslatable("arm of the sentinel test: %s" % u)
        a_then, a_else = arm(iff.body), arm(iff.orelse)
        if not pos:
            a_then, a_else = a_else, a_then
        label = {"Main": "in-loop", "Left": "leftover"}[tag]
        defs.append("""/-- the `except queue.Empty` handler of the %s collector loop of `realign_gaf` as a decision program: one poll per call of
    `one_failed` / `one_is_alive` / `all_exited` / `all_are_alive`, in source order -/
def handler%s : Prog :=
  %s

/-- what the %s loop does with a received object: `isNone` = it is the sentinel -/
def onObject%s (isNone : Bool) : Recv := if isNone then %s else %s

/-- the %s loop goes on while ... (`n` = sentinels counted, `len` = number of processes) -/
def loopOn%s (n len : Nat) : Bool := %s""" % (label, tag, _handler_prog(tr.handlers[0].body, names), label, tag, a_then, a_else, label, tag, op))
    return ("import Gaftools.Model.Realign\n/-! generated by harness/translate.py from gaftools/cli/realign.py : the collector protocol — do not edit -/\n"
            "namespace Gaftools.Gen\nopen Gaftools.Realign\n"
            "/-- a process as the parent sees it: `(is_alive(), exitcode)` -/\nabbrev Proc := Bool × Option Int\n"
            "inductive Recv where\n  | count | keep | both | drop\nderiving DecidableEq, Repr\n\n"
            + "\n".join(preds[k] for k in ("allAreAlive", "oneIsAlive", "allExited", "oneFailed")) + "\n\n" + "\n\n".join(defs) + "\nend Gaftools.Gen\n")


GENERATORS["Collector"] = gen_collector


# ---------------------------------------------------------------------------------------------------------
# conversion: the coordinate arithmetic at the end of to_unstable / to_stable, by symbolic execution of the assignments
class Sym:
    """straight-line assignments under if/else over integer expressions -> one Lean expression per variable"""

    def __init__(self, atoms, bool_atoms):
        self.atoms = atoms            # unparsed python expression -> lean Int term
        self.bool_atoms = bool_atoms  # unparsed python test -> lean Bool term

    def ex(self, e, env):
        u = ast.unparse(e)
        if u in self.atoms:
            return self.atoms[u]
        if isinstance(e, ast.Name):
            if e.id in env and env[e.id] is not None:
                return env[e.id]
            raise Untranslatable("variable %s read before it is assigned" % e.id)
        if isinstance(e, ast.Constant) and isinstance(e.value, bool):
            return "true" if e.value else "false"
        if isinstance(e, ast.Constant) and isinstance(e.value, int):
            return "(%d : Int)" % e.value
        if isinstance(e, ast.UnaryOp) and isinstance(e.op, ast.USub):
            return "(-%s)" % self.ex(e.operand, env)
        if isinstance(e, ast.BinOp) and type(e.op) in (ast.Add, ast.Sub):
            return "(%s %s %s)" % (self.ex(e.left, env), "+" if isinstance(e.op, ast.Add) else "-", self.ex(e.right, env))
        if isinstance(e, ast.Call) and isinstance(e.func, ast.Name) and e.func.id == "int" and len(e.args) == 1:
            return self.ex(e.args[0], env)
        raise Untranslatable("expression " + u)

    def test(self, e):
        u = ast.unparse(e)
        if u in self.bool_atoms:
            return self.bool_atoms[u]
        if isinstance(e, ast.UnaryOp) and isinstance(e.op, ast.Not):
            return "(!%s)" % self.test(e.operand)
        if isinstance(e, ast.BoolOp):
            return "(" + (" && " if isinstance(e.op, ast.And) else " || ").join(self.test(x) for x in e.values) + ")"
        raise Untranslatable("test " + u)

    def run(self, stmts, env, assign_hook=None):
        env = dict(env)
        for st in stmts:
            if isinstance(st, ast.Expr) and isinstance(st.value, ast.Constant):
                continue
            if isinstance(st, ast.Pass):
                continue
            if isinstance(st, ast.Assign) and len(st.targets) == 1:
                tgt = ast.unparse(st.targets[0])
                if assign_hook:
                    v = assign_hook(tgt, st.value, env)
                    if v is not None:
                        env[tgt] = v
                        continue
                env[tgt] = self.ex(st.value, env)
                continue
            if isinstance(st, ast.If):
                c = self.test(st.test)
                a = self.run(st.body, env, assign_hook)
                b = self.run(st.orelse, env, assign_hook)
                for k in set(a) | set(b):
                    va, vb = a.get(k), b.get(k)
                    if va == vb:
                        env[k] = va
                    elif va is None or vb is None:
                        env[k] = None          # assigned on one path only: reading it later is refused
                    else:
                        env[k] = "(if %s then %s else %s)" % (c, va, vb)
                continue
            raise Untranslatable("statement " + ast.unparse(st)[:70])
        return env


def _format_columns(fn, cols):
    """the expressions printed in the given (0-based) tab-separated columns of the twelve-column format string of `fn`"""
    for st in ast.walk(fn):
        if (isinstance(st, (ast.Assign, ast.AugAssign)) and isinstance(st.value, ast.BinOp) and isinstance(st.value.op, ast.Mod)
                and isinstance(st.value.left, ast.Constant) and isinstance(st.value.left.value, str) and st.value.left.value.count("\t") == 11
                and isinstance(st.value.right, ast.Tuple)):
            fields = st.value.left.value.split("\t")
            args = st.value.right.elts
            out, k = {}, 0
            for i, f in enumerate(fields):
                n = f.count("%")
                if i in cols:
                    if n != 1:
                        raise Untranslatable("column %d is not one placeholder" % (i + 1))
                    out[i] = args[k]
                k += n
            if k != len(args):
                raise Untranslatable("format arguments do not match the placeholders")
            return st, out
    raise Untranslatable("twelve-column format statement not found in %s" % fn.name)


def gen_coords():
    _, src = src_of("gaftools/conversion.py")
    mod = ast.parse(src)
    # ---- to_unstable: after the loop over the path items
    fn = find_func(mod, "to_unstable")
    fmt_st, cols = _format_columns(fn, {6, 7, 8})
    top = fn.body
    fmt_i = top.index(fmt_st)
    loop_i = max(i for i, st in enumerate(top[:fmt_i]) if isinstance(st, ast.For))
    tail = top[loop_i + 1:fmt_i]
    sym = Sym({"gaf_line.path_length": "plen", "gaf_line.path_start": "ps", "gaf_line.path_end": "pe"},
              {"gaf_line.strand == '-'": "minus", "gaf_line.strand == '+'": "(!minus)", "split_contig": "split"})
    env = sym.run(tail, {"new_total": "newTotal", "new_start": "newStart"})
    u = [sym.ex(cols[i], env) for i in (6, 7, 8)]
    a = """/-- conversion.to_unstable: path length, path start and path end written in columns 7-9, from the strand, whether the last
    path item was an interval (`split_contig`), the input columns and what the loop over the items accumulated -/
def unstableCoords (minus split : Bool) (plen ps pe newTotal newStart : Int) : Int × Int × Int :=
  (%s,
   %s,
   %s)""" % tuple(u)
    # ---- to_stable: the single-reference-interval collapse
    fn = find_func(mod, "to_stable")
    fmt_st, cols = _format_columns(fn, {4, 6, 7, 8})
    top = fn.body
    fmt_i = top.index(fmt_st)
    loop_i = max(i for i, st in enumerate(top[:fmt_i]) if isinstance(st, ast.For))
    tail = top[loop_i + 1:fmt_i]
    if len(tail) != 1 or not isinstance(tail[0], ast.If):
        raise Untranslatable("to_stable: expected one if/else between the merge loop and the format statement")
    collapse_test = ast.unparse(tail[0].test)
    if collapse_test != "len(out_node) == 1 and out_node[0][0].contig_id in ref_contig":
        raise Untranslatable("to_stable: collapse test is %s" % collapse_test)
    sym = Sym({"gaf_line.path_length": "plen", "gaf_line.path_start": "ps", "gaf_line.path_end": "pe", "out_node[0][0].start": "nodeStart",
               "contig_len[stable_coord]": "total", "contig_len[out_node[0][0].contig_id]": "total"},
              {collapse_test: "collapse", "out_node[0][1] == '<'": "rev", "out_node[0][1] == '>'": "(!rev)"})

    def hook(tgt, val, env):
        if tgt == "gaf_line.strand":
            if isinstance(val, ast.Constant) and val.value in ("+", "-"):
                return "true" if val.value == "+" else "false"
            raise Untranslatable("strand assigned %s" % ast.unparse(val))
        if tgt in ("stable_coord",) or (tgt == "stable_coord" and isinstance(val, ast.BinOp)):
            return "0"        # the path text is not part of this fragment
        return None
    pre = {"reverse_flag": "false", "gaf_line.strand": "strandPlus", "stable_coord": "0"}
    # `stable_coord += ...` in the else branch is an AugAssign: drop it (path text)
    class Drop(ast.NodeTransformer):
        def visit_AugAssign(self, node):
            return ast.Pass() if ast.unparse(node.target) == "stable_coord" else node
    tail = [Drop().visit(ast.parse(ast.unparse(tail[0])).body[0])]
    env = sym.run(tail, pre, hook)
    if env.get("reverse_flag") is None or env.get("gaf_line.strand") is None:
        raise Untranslatable("to_stable: reverse_flag / strand not determined")
    strand_col = ast.unparse(cols[4])
    if strand_col != "gaf_line.strand":
        raise Untranslatable("to_stable: column 5 prints %s" % strand_col)
    v = [env["gaf_line.strand"], env["reverse_flag"]] + [sym.ex(cols[i], env) for i in (6, 7, 8)]
    b = """/-- conversion.to_stable: strand column ('+' = true), whether the CIGAR is reversed, and columns 7-9, from whether the merged
    path is a single interval on a reference contig (`collapse`), its orientation (`rev` = '<'), its start, the contig length
    and the input columns -/
def stableCoords (collapse rev strandPlus : Bool) (nodeStart total plen ps pe : Int) : Bool × Bool × Int × Int × Int :=
  (%s,
   %s,
   %s,
   %s,
   %s)""" % tuple(v)
    return ("/-! generated by harness/translate.py from gaftools/conversion.py : coordinate arithmetic — do not edit -/\n"
            "namespace Gaftools.Gen\n" + a + "\n\n" + b + "\nend Gaftools.Gen\n")


GENERATORS["Coords"] = gen_coords


# ---------------------------------------------------------------------------------------------------------
# gfa.GFA.add_edge / remove_edge: which adjacency set of which endpoint receives (loses) which entry
def _edge_entries(stmts, names, dirs, methods):
    """`if <dir> == 0: self[<node>].<m_start>(<other>, <otherdir>, overlap) else: self[<node>].<m_end>(...)` statements ->
    Lean `Entry` terms (owner is the second node?, side, neighbour is the second node?, stored side)"""
    out = []
    for st in stmts:
        if not isinstance(st, ast.If):
            continue
        t = st.test
        if not (isinstance(t, ast.Compare) and len(t.ops) == 1 and isinstance(t.ops[0], (ast.Eq, ast.NotEq)) and ast.unparse(t.left) in dirs
                and isinstance(t.comparators[0], ast.Constant) and t.comparators[0].value in (0, 1)):
            continue
        d = dirs[ast.unparse(t.left)]
        # Lean condition for "the test holds": side value false = 0
        holds = ("(!%s)" % d) if (t.comparators[0].value == 0) == isinstance(t.ops[0], ast.Eq) else d

        def call(body):
            if len(body) != 1 or not (isinstance(body[0], ast.Expr) and isinstance(body[0].value, ast.Call)):
                raise Untranslatable("edge dispatch: branch is not one call")
            c = body[0].value
            if not (isinstance(c.func, ast.Attribute) and c.func.attr in methods and len(c.args) == 3):
                raise Untranslatable("edge dispatch: call %s" % ast.unparse(c)[:60])
            recv = ast.unparse(c.func.value)
            m = re.fullmatch(r"self(?:\.nodes)?\[(\w+)\]", recv)
            if not m or m.group(1) not in names:
                raise Untranslatable("edge dispatch: receiver %s" % recv)
            a0, a1, a2 = (ast.unparse(a) for a in c.args)
            if a0 not in names or a1 not in dirs or a2 != "overlap":
                raise Untranslatable("edge dispatch: arguments %s" % ast.unparse(c)[:60])
            return names[m.group(1)], methods[c.func.attr], names[a0], dirs[a1]
        if not st.orelse:
            raise Untranslatable("edge dispatch: if without else")
        o1, s1, n1, ns1 = call(st.body)
        o2, s2, n2, ns2 = call(st.orelse)
        if o1 != o2 or n1 != n2 or ns1 != ns2:
            raise Untranslatable("edge dispatch: the two branches address different nodes")
        side = s1 if s1 == s2 else "(if %s then %s else %s)" % (holds, s1, s2)
        out.append("⟨%s, %s, %s, %s⟩" % (o1, side, n1, ns1))
    return out


import re  # noqa: E402


def gen_edges():
    _, src = src_of("gaftools/gfa.py")
    mod = ast.parse(src)
    fn = find_func(mod, "add_edge", cls="GFA")
    body = [st for st in fn.body if not isinstance(st, ast.Assert) and not (isinstance(st, ast.Expr) and isinstance(st.value, ast.Constant))]
    if not body or ast.unparse(body[0]).replace("(", "").replace(")", "") != "node1_dir, node2_dir = E_DIR[node1_dir, node2_dir]":
        raise Untranslatable("add_edge does not start with the E_DIR lookup: %s" % (ast.unparse(body[0]) if body else ""))
    names = {"node1": "false", "node2": "true"}
    dirs = {"node1_dir": "d1", "node2_dir": "d2"}
    key = None
    for st in body[1:]:
        if isinstance(st, ast.If) and ast.unparse(st.test) == "tags" and len(st.body) == 1 and isinstance(st.body[0], ast.Assign):
            tgt = st.body[0].targets[0]
            if isinstance(tgt, ast.Subscript) and ast.unparse(tgt.value) == "self.edge_tags" and isinstance(tgt.slice, ast.Tuple) and len(tgt.slice.elts) == 4:
                k = [ast.unparse(e) for e in tgt.slice.elts]
                if k[0] in names and k[2] in names and k[1] in dirs and k[3] in dirs and ast.unparse(st.body[0].value) == "tags":
                    key = "(%s, %s, %s, %s)" % (names[k[0]], dirs[k[1]], names[k[2]], dirs[k[3]])
    if key is None:
        raise Untranslatable("add_edge: edge_tags assignment not found")
    add = _edge_entries(body[1:], names, dirs, {"add_from_start": "false", "add_from_end": "true"})
    if len(add) != 2:
        raise Untranslatable("add_edge: %d adjacency updates" % len(add))
    fn = find_func(mod, "remove_edge", cls="GFA")
    body = [st for st in fn.body if not (isinstance(st, ast.Expr) and isinstance(st.value, ast.Constant))]
    if not body or ast.unparse(body[0]).replace("(", "").replace(")", "") != "n1, side1, n2, side2, overlap = edge":
        raise Untranslatable("remove_edge does not start by unpacking the edge")
    rem = _edge_entries(body[1:], {"n1": "false", "n2": "true"}, {"side1": "d1", "side2": "d2"}, {"remove_from_start": "false", "remove_from_end": "true"})
    if len(rem) != 2:
        raise Untranslatable("remove_edge: %d adjacency updates" % len(rem))
    return ("/-! generated by harness/translate.py from gaftools/gfa.py : add_edge / remove_edge — do not edit -/\n"
            "namespace Gaftools.Gen\n"
            "/-- one adjacency update: the endpoint whose set changes (`true` = the second node), the side of that endpoint\n"
            "    (`true` = end), the neighbour stored (`true` = the second node) and the side stored with it -/\n"
            "structure Entry where\n  owner2 : Bool\n  side : Bool\n  nbr2 : Bool\n  nbrSide : Bool\nderiving DecidableEq, Repr\n\n"
            "/-- `add_edge` after the `E_DIR` lookup gave `(d1, d2)`: the two adjacency entries it adds, in program order -/\n"
            "def addEdgeEntries (d1 d2 : Bool) : List Entry := [%s]\n\n"
            "/-- the key under which `add_edge` files the link's tags: (second node first?, side, second node?, side) -/\n"
            "def addEdgeTagKey (d1 d2 : Bool) : Bool × Bool × Bool × Bool := %s\n\n"
            "/-- `remove_edge((n1, side1, n2, side2, overlap))`: the two adjacency entries it removes, in program order -/\n"
            "def removeEdgeEntries (d1 d2 : Bool) : List Entry := [%s]\nend Gaftools.Gen\n" % (", ".join(add), key, ", ".join(rem)))


GENERATORS["Edges"] = gen_edges


# ---------------------------------------------------------------------------------------------------------
# sort.process_alignment: the body of the loop over the path's nodes
def gen_sort_loop():
    _, src = src_of("gaftools/cli/sort.py")
    fn = find_func(ast.parse(src), "process_alignment")
    loop = _only([st for st in fn.body if isinstance(st, ast.For)], "path loop of process_alignment")
    body = list(loop.body)
    # for n in path: if n in [">", "<"]: orient = n; continue
    if not (isinstance(body[0], ast.If) and ast.unparse(body[0].test) in ("n in ['>', '<']", "n in ('>', '<')") and isinstance(body[0].body[-1], ast.Continue)):
        raise Untranslatable("path loop does not start with the orientation-token test")
    body = body[1:]
    tagvars = {}
    while body and isinstance(body[0], ast.Assign) and isinstance(body[0].targets[0], ast.Name) and "nodes[n].tags" in ast.unparse(body[0].value):
        u = ast.unparse(body[0].value)
        m = re.fullmatch(r"(int\()?nodes\[n\]\.tags\['(\w+)'\]\[1\]\)?", u)
        if not m:
            raise Untranslatable("tag read %s" % u)
        tagvars[body[0].targets[0].id] = m.group(2)
        body = body[1:]
    want = {"SN": "snTag", "BO": "bo", "NO": "no", "SR": "sr"}
    if sorted(tagvars.values()) != sorted(want):
        raise Untranslatable("tags read in the loop: %s" % sorted(tagvars.values()))
    lean = {v: want[t] for v, t in tagvars.items()}
    sn_var = next(v for v, t in tagvars.items() if t == "SN")

    def test(e):
        if isinstance(e, ast.BoolOp):
            return "(" + (" && " if isinstance(e.op, ast.And) else " || ").join(test(x) for x in e.values) + ")"
        if isinstance(e, ast.UnaryOp) and isinstance(e.op, ast.Not):
            return "(!%s)" % test(e.operand)
        if isinstance(e, ast.Compare) and len(e.ops) == 1:
            l, r, t = e.left, e.comparators[0], type(e.ops[0])
            if ast.unparse(l) == "sn" and isinstance(r, ast.Constant) and r.value is None and t in (ast.Is, ast.IsNot, ast.Eq, ast.NotEq):
                return "snIsNone" if t in (ast.Is, ast.Eq) else "(!snIsNone)"
            if isinstance(l, ast.Name) and l.id in lean and lean[l.id] != "snTag":
                if isinstance(r, ast.Constant) and isinstance(r.value, int):
                    rv = "(%d : Int)" % r.value
                elif isinstance(r, ast.UnaryOp) and isinstance(r.op, ast.USub) and isinstance(r.operand, ast.Constant):
                    rv = "(-%d : Int)" % r.operand.value
                else:
                    raise Untranslatable("comparison " + ast.unparse(e))
                op = {ast.Eq: "==", ast.NotEq: "!="}.get(t)
                if op:
                    return "(%s %s %s)" % (lean[l.id], op, rv)
                op = {ast.Lt: "<", ast.Gt: ">", ast.LtE: "≤", ast.GtE: "≥"}[t]
                return "decide (%s %s %s)" % (lean[l.id], op, rv)
        raise Untranslatable("loop test " + ast.unparse(e))
    # the sn bookkeeping: one if / elif chain assigning sn or asserting
    if not body or not isinstance(body[0], ast.If):
        raise Untranslatable("sn bookkeeping not found")

    def sn_tree(st):
        def leaf(stmts):
            u = [ast.unparse(x) for x in stmts]
            if u == ["sn = %s" % sn_var]:
                return ".set"
            if u == ["assert sn == %s" % sn_var]:
                return ".check"
            if not u or u == ["pass"]:
                return ".keep"
            raise Untranslatable("sn bookkeeping branch: %s" % u)
        els = ".keep"
        if st.orelse:
            els = sn_tree(st.orelse[0]) if (len(st.orelse) == 1 and isinstance(st.orelse[0], ast.If)) else leaf(st.orelse)
        return "(if %s then %s else %s)" % (test(st.test), leaf(st.body), els)
    sn_dec = sn_tree(body[0])
    body = body[1:]

    def keeps(stmts):
        if not stmts:
            return "false"
        st, rest = stmts[0], stmts[1:]
        if isinstance(st, ast.Expr) and isinstance(st.value, ast.Call):
            u = ast.unparse(st.value.func)
            if u.startswith("logger.") or u.startswith("logging."):
                return keeps(rest)
            if u == "orient_list.append" and ast.unparse(st.value.args[0]) == "orient":
                return "true"
            raise Untranslatable("loop call " + u)
        if isinstance(st, ast.Continue):
            return "false"
        if isinstance(st, ast.If):
            return "(if %s then %s else %s)" % (test(st.test), keeps(st.body + rest), keeps(st.orelse + rest))
        raise Untranslatable("loop statement " + ast.unparse(st)[:60])
    return ("/-! generated by harness/translate.py from gaftools/cli/sort.py : the body of the path loop of process_alignment — do not edit -/\n"
            "namespace Gaftools.Gen\n"
            "inductive SnUpd where\n  | set | check | keep\nderiving DecidableEq, Repr\n\n"
            "/-- what the loop does to `sn` for a node with rank `sr`: take the node's SN, assert equality with it, or nothing -/\n"
            "def snDecision (snIsNone : Bool) (sr : Int) : SnUpd := %s\n\n"
            "/-- whether the node's orientation is appended to `orient_list` (it is a tagged scaffold node) -/\n"
            "def keepsOrient (bo no : Int) : Bool := %s\nend Gaftools.Gen\n" % (sn_dec, keeps(body)))


GENERATORS["SortLoop"] = gen_sort_loop


# ---------------------------------------------------------------------------------------------------------
# gaf.parse_gaf_line / Alignment.__str__ / phase.add_phase_info : the record text layer (C16, C17, C20)

def _regex_head(rx):
    """`^( items )(.*)$` with items = literal characters or classes of ranges / single characters -> Lean predicates"""
    if not (rx.startswith("^(") and rx.endswith(")(.*)$")):
        raise Untranslatable("tag regex shape: %r" % rx)
    body, i, preds = rx[2:-6], 0, []
    while i < len(body):
        c = body[i]
        if c == "[":
            j = body.index("]", i)
            cls, k, alts = body[i + 1:j], 0, []
            if cls.startswith("^") or "\\" in cls:
                raise Untranslatable("tag regex class %r" % cls)
            while k < len(cls):
                if k + 2 < len(cls) and cls[k + 1] == "-":
                    alts.append("(c.val ≥ %d && c.val ≤ %d)" % (ord(cls[k]), ord(cls[k + 2])))
                    k += 3
                else:
                    alts.append("c == '%s'" % cls[k])
                    k += 1
            preds.append("fun c => " + " || ".join(alts))
            i = j + 1
        elif c.isalnum() or c in ":_-":
            preds.append("fun c => c == '%s'" % c)
            i += 1
        else:
            raise Untranslatable("tag regex item %r" % c)
    return preds


def _lean_str(v):
    return '"%s".toList' % v.replace("\\", "\\\\").replace('"', '\\"').replace("\t", "\\t").replace("\n", "\\n")


def gen_gaf_record():
    _, src = src_of("gaftools/gaf.py")
    mod = ast.parse(src)
    fn = find_func(mod, "parse_gaf_line", cls="GAF")
    body = [st for st in fn.body if not (isinstance(st, ast.Expr) and isinstance(st.value, ast.Constant))]
    # ---- how the line becomes fields
    first = body[0]
    if not (isinstance(first, ast.If) and ast.unparse(first.test) == "not self.gz_flag" and len(first.body) == 1 and len(first.orelse) == 1):
        raise Untranslatable("parse_gaf_line does not start with the gz_flag split")

    def split_form(st, recv):
        u = ast.unparse(st)
        forms = {"fields = %s.rstrip().split('\\t')" % recv: "true", "fields = %s.split('\\t')" % recv: "false"}
        if u not in forms:
            raise Untranslatable("field split: %s" % u)
        return forms[u]
    rs_plain = split_form(first.body[0], "line")
    rs_bgzf = split_form(first.orelse[0], "line.decode('utf-8')")
    # ---- columns
    cols, init, tag_for, ret = [], {}, None, None
    for st in body[1:]:
        u = ast.unparse(st)
        if isinstance(st, ast.Assign) and len(st.targets) == 1 and isinstance(st.targets[0], ast.Name):
            name, v = st.targets[0].id, ast.unparse(st.value)
            m = re.fullmatch(r"fields\[(\d+)\]\.split\(' '\)\[0\]", v)
            if m:
                cols.append((name, int(m.group(1)), "cut")); continue
            m = re.fullmatch(r"int\(fields\[(\d+)\]\)", v)
            if m:
                cols.append((name, int(m.group(1)), "int")); continue
            m = re.fullmatch(r"fields\[(\d+)\]", v)
            if m:
                cols.append((name, int(m.group(1)), "str")); continue
            if isinstance(st.value, ast.Constant) or v == "{}":
                init[name] = v; continue
            raise Untranslatable("parse_gaf_line assignment: %s" % u)
        if isinstance(st, ast.If):
            m = re.fullmatch(r"fields\[(\d+)\]\.isdigit\(\)", ast.unparse(st.test))
            if (m and len(st.body) == 1 and isinstance(st.body[0], ast.Assign) and len(st.orelse) == 1 and isinstance(st.orelse[0], ast.Return)
                    and st.orelse[0].value is None and ast.unparse(st.body[0].value) == "int(fields[%s])" % m.group(1)):
                cols.append((st.body[0].targets[0].id, int(m.group(1)), "guard")); continue
            raise Untranslatable("parse_gaf_line test: %s" % ast.unparse(st.test))
        if isinstance(st, ast.For):
            if tag_for is not None:
                raise Untranslatable("two loops in parse_gaf_line")
            tag_for = st; continue
        if isinstance(st, ast.Return):
            ret = st; continue
        raise Untranslatable("parse_gaf_line statement: %s" % u[:60])
    if init != {"is_primary": "True", "cigar": "''", "tags": "{}"}:
        raise Untranslatable("initial values: %s" % init)
    if tag_for is None or ret is None or ast.unparse(tag_for.iter) != "fields[12:]" or ast.unparse(tag_for.target) != "k":
        raise Untranslatable("tag loop / return not found")
    call = ret.value
    if not (isinstance(call, ast.Call) and ast.unparse(call.func) == "Alignment" and all(isinstance(a, ast.Name) for a in call.args)
            and [(k.arg, ast.unparse(k.value)) for k in call.keywords] == [("tags", "tags")]):
        raise Untranslatable("return value of parse_gaf_line")
    ctor = [a.id for a in call.args]
    # the constructor's parameter order must be the attribute it stores
    init_fn = find_func(mod, "__init__", cls="Alignment")
    params = [a.arg for a in init_fn.args.args][1:]
    stores = {ast.unparse(st.targets[0]): ast.unparse(st.value) for st in init_fn.body if isinstance(st, ast.Assign)}
    for pname in params[:len(ctor)]:
        if stores.get("self." + pname) != pname:
            raise Untranslatable("Alignment.__init__ does not store %s" % pname)
    attr_of = dict(zip(ctor, params))        # local variable of parse_gaf_line -> attribute of the record
    # ---- the tag loop
    lb = tag_for.body
    if not (len(lb) == 2 and isinstance(lb[0], ast.Assign) and ast.unparse(lb[0].targets[0]) == "match" and isinstance(lb[0].value, ast.Call)
            and ast.unparse(lb[0].value.func) == "re.match" and len(lb[0].value.args) == 2 and isinstance(lb[0].value.args[0], ast.Constant)
            and ast.unparse(lb[0].value.args[1]) == "k" and isinstance(lb[1], ast.If) and ast.unparse(lb[1].test) == "match" and not lb[1].orelse):
        raise Untranslatable("tag loop shape")
    preds = _regex_head(lb[0].value.args[0].value)
    inner = lb[1].body
    if ast.unparse(inner[0]) not in ("(pattern, val) = match.groups()", "pattern, val = match.groups()"):
        raise Untranslatable("tag loop: %s" % ast.unparse(inner[0]))

    def cond(e):
        if isinstance(e, ast.BoolOp):
            return "(" + (" && " if isinstance(e.op, ast.And) else " || ").join(cond(x) for x in e.values) + ")"
        if isinstance(e, ast.UnaryOp) and isinstance(e.op, ast.Not):
            return "(!%s)" % cond(e.operand)
        if isinstance(e, ast.Compare) and len(e.ops) == 1 and isinstance(e.left, ast.Name) and e.left.id in ("pattern", "val"):
            r, t = e.comparators[0], type(e.ops[0])
            if isinstance(r, ast.Constant) and isinstance(r.value, str) and t in (ast.Eq, ast.NotEq):
                c = "(%s == %s)" % (e.left.id, _lean_str(r.value))
                return c if t is ast.Eq else "(!%s)" % c
            if isinstance(r, ast.Name) and r.id == "tags" and e.left.id == "pattern" and t in (ast.In, ast.NotIn):
                return "dictHas st.tags pattern" if t is ast.In else "(!dictHas st.tags pattern)"
            if isinstance(r, (ast.Tuple, ast.List)) and all(isinstance(x, ast.Constant) and isinstance(x.value, str) for x in r.elts) and t in (ast.In, ast.NotIn):
                c = "(" + " || ".join("%s == %s" % (e.left.id, _lean_str(x.value)) for x in r.elts) + ")"
                return c if t is ast.In else "(!%s)" % c
        raise Untranslatable("tag loop test: %s" % ast.unparse(e))

    def ex(stmts, ind):
        pad = " " * ind
        if not stmts:
            return pad + "st"
        st, rest = stmts[0], stmts[1:]
        if isinstance(st, ast.Expr) and isinstance(st.value, ast.Constant):
            return ex(rest, ind)
        if isinstance(st, ast.Continue):
            return pad + "st"
        if isinstance(st, ast.Assign) and len(st.targets) == 1:
            t, v = ast.unparse(st.targets[0]), st.value
            if t == "cigar" and isinstance(v, ast.Name) and v.id == "val":
                upd = "{ st with cigar := val }"
            elif t == "is_primary" and isinstance(v, ast.Constant) and isinstance(v.value, bool):
                upd = "{ st with isPrimary := %s }" % ("true" if v.value else "false")
            elif t == "tags[pattern]" and isinstance(v, ast.Name) and v.id == "val":
                upd = "{ st with tags := dictSet st.tags pattern val }"
            else:
                raise Untranslatable("tag loop assignment: %s" % ast.unparse(st))
            return "%slet st : TagSt := %s\n%s" % (pad, upd, ex(rest, ind))
        if isinstance(st, ast.If):
            return "%sif %s then\n%s\n%selse\n%s" % (pad, cond(st.test), ex(st.body + rest, ind + 2), pad, ex(st.orelse + rest, ind + 2))
        raise Untranslatable("tag loop statement: %s" % ast.unparse(st)[:60])
    tag_body = ex(inner[1:], 2)
    # ---- Alignment.__str__
    sfn = find_func(mod, "__str__", cls="Alignment")
    fmt = None
    cg_rule = None
    tag_fmt = None
    for st in sfn.body:
        if isinstance(st, ast.Assign) and ast.unparse(st.targets[0]) == "line" and isinstance(st.value, ast.BinOp) and isinstance(st.value.op, ast.Mod):
            if not (isinstance(st.value.left, ast.Constant) and isinstance(st.value.right, ast.Tuple)):
                raise Untranslatable("__str__ format")
            fmt = (st.value.left.value, [ast.unparse(a) for a in st.value.right.elts])
        elif isinstance(st, ast.If):
            if [ast.unparse(x) for x in st.body] != ["self.tags['cg:Z:'] = self.cigar"] or st.orelse:
                raise Untranslatable("__str__ cg rule body")
            m = {"self.cigar": "cigarNonEmpty", "'cg:Z:' in self.tags": "hasCg"}

            def cgc(e):
                if isinstance(e, ast.BoolOp):
                    return "(" + (" && " if isinstance(e.op, ast.And) else " || ").join(cgc(x) for x in e.values) + ")"
                if ast.unparse(e) in m:
                    return m[ast.unparse(e)]
                raise Untranslatable("__str__ cg test: %s" % ast.unparse(e))
            cg_rule = cgc(st.test)
        elif isinstance(st, ast.For):
            if ast.unparse(st.iter) not in ("self.tags.keys()", "self.tags") or ast.unparse(st.target) != "k" or len(st.body) != 1:
                raise Untranslatable("__str__ tag loop")
            b = st.body[0]
            if not (isinstance(b, ast.AugAssign) and ast.unparse(b.target) == "line" and isinstance(b.value, ast.BinOp) and isinstance(b.value.left, ast.Constant)
                    and ast.unparse(b.value.right) == "(k, self.tags[k])"):
                raise Untranslatable("__str__ tag loop body")
            tag_fmt = b.value.left.value
        elif isinstance(st, ast.Return):
            if ast.unparse(st.value) != "line":
                raise Untranslatable("__str__ return")
        else:
            raise Untranslatable("__str__ statement: %s" % ast.unparse(st)[:60])
    if fmt is None or cg_rule is None or tag_fmt is None:
        raise Untranslatable("__str__ parts missing")
    for a in fmt[1]:
        if not a.startswith("self."):
            raise Untranslatable("__str__ prints %s" % a)
    # ---- phase.add_phase_info: what is written per record
    _, psrc = src_of("gaftools/cli/phase.py")
    pfn = find_func(ast.parse(psrc), "add_phase_info")
    loop = _only([st for st in pfn.body if isinstance(st, ast.For) and "read_file()" in ast.unparse(st.iter)], "record loop of add_phase_info")
    writes = []       # in order: ("fmt", format, args) | ("if", cond, [writes], [writes]) | ("tags", format)
    pvars = {}

    def pwrite(call):
        a = call.args[0]
        if isinstance(a, ast.Constant) and isinstance(a.value, str):
            return ("fmt", a.value, [])
        if isinstance(a, ast.BinOp) and isinstance(a.op, ast.Mod) and isinstance(a.left, ast.Constant):
            args = a.right.elts if isinstance(a.right, ast.Tuple) else [a.right]
            return ("fmt", a.left.value, [ast.unparse(x) for x in args])
        raise Untranslatable("phase write: %s" % ast.unparse(call)[:80])

    def pcond(e):
        if isinstance(e, ast.BoolOp):
            return "(" + (" && " if isinstance(e.op, ast.And) else " || ").join(pcond(x) for x in e.values) + ")"
        u = ast.unparse(e)
        table = {"in_tsv": "inTsv", "phase[gaf_line.query_name].haplotype != 'none'": "(!hapIsNone)",
                 "gaf_line.query_name in phase": "inTsv", "gaf_line.query_name not in phase": "(!inTsv)"}
        if u in table:
            return table[u]
        raise Untranslatable("phase test: %s" % u)

    def pblock(stmts):
        out = []
        for st in stmts:
            u = ast.unparse(st)
            if isinstance(st, ast.If) and u.startswith("if line_count != 0"):
                continue        # the newline between records
            if isinstance(st, ast.AugAssign) and ast.unparse(st.target) in ("line_count", "missing_in_tsv", "phased"):
                continue
            if isinstance(st, ast.Assign) and ast.unparse(st.targets[0]) == "in_tsv":
                pvars["in_tsv"] = pvars.get("in_tsv", []) + [ast.unparse(st.value)]
                continue
            if isinstance(st, ast.Expr) and isinstance(st.value, ast.Call) and ast.unparse(st.value.func) == "gaf_out.write":
                out.append(pwrite(st.value)); continue
            if isinstance(st, ast.If):
                if ast.unparse(st.test) == "gaf_line.query_name not in phase" and not st.orelse:
                    inner_w = pblock(st.body)
                    if inner_w:
                        raise Untranslatable("phase: writes under the membership test")
                    continue
                out.append(("if", pcond(st.test), pblock(st.body), pblock(st.orelse))); continue
            if isinstance(st, ast.For) and ast.unparse(st.iter) in ("gaf_line.tags.keys()", "gaf_line.tags") and len(st.body) == 1:
                w = pwrite(st.body[0].value)
                if w[2] != ["k", "gaf_line.tags[k]"]:
                    raise Untranslatable("phase tag loop args")
                out.append(("tags", w[1])); continue
            raise Untranslatable("phase loop statement: %s" % u[:60])
        return out
    writes = pblock(loop.body)
    if pvars.get("in_tsv") != ["True", "False"]:
        raise Untranslatable("phase: in_tsv bookkeeping %s" % pvars)
    if not (len(writes) == 3 and writes[0][0] == "fmt" and writes[1][0] == "if" and writes[2][0] == "tags"
            and len(writes[1][2]) == 1 and len(writes[1][3]) == 1 and writes[1][2][0][0] == "fmt" and writes[1][3][0][0] == "fmt"):
        raise Untranslatable("phase: write plan shape")
    for a in writes[0][2]:
        if not a.startswith("gaf_line."):
            raise Untranslatable("phase prints %s" % a)
    ph_args = {"phase[gaf_line.query_name].chr_name": "chr", "phase[gaf_line.query_name].phase_set": "pset", "phase[gaf_line.query_name].haplotype": "hap"}
    for a in writes[1][2][0][2]:
        if a not in ph_args:
            raise Untranslatable("phase prints %s" % a)
    if writes[1][3][0][2]:
        raise Untranslatable("phase: unphased branch has arguments")

    def slist(xs):
        return "[" + ", ".join('"%s"' % x for x in xs) + "]"

    def sfmt(f):
        return '"%s"' % f.replace("\\", "\\\\").replace('"', '\\"').replace("\t", "\\t").replace("\n", "\\n")
    return ("import Gaftools.Model.Gaf\n"
            "/-! generated by harness/translate.py from gaftools/gaf.py (parse_gaf_line, Alignment.__str__) and gaftools/cli/phase.py (the writes of\n"
            "    add_phase_info) — do not edit -/\n"
            "namespace Gaftools.Gen\nopen Gaftools.Gaf\n\n"
            "/-- whether the text line / the decoded BGZF line is right-stripped before it is split on tabs -/\n"
            "def rstripPlain : Bool := %s\ndef rstripBgzf : Bool := %s\n\n"
            "/-- (attribute of the record, column, how it is read): `cut` = up to the first blank, `guard` = `isdigit()` or the record is\n"
            "    dropped, `int` = `int()`, `str` = verbatim -/\n"
            "def columns : List (String × Nat × String) := [%s]\n\n"
            "/-- group 1 of the tag regular expression, one predicate per character; group 2 is `(.*)` up to the end -/\n"
            "def tagHead : List (Char → Bool) := [\n  %s]\n\n"
            "/-- the body of `for k in fields[12:]` once the regular expression has matched -/\n"
            "def tagBody (st : TagSt) (pattern val : Str) : TagSt :=\n%s\n\n"
            "/-- Alignment.__str__: the format of the mandatory columns, the attributes printed, when `cg:Z:` is (re)written, the format of a tag -/\n"
            "def strFormat : String := %s\ndef strArgs : List String := %s\n"
            "def strSetsCg (cigarNonEmpty hasCg : Bool) : Bool := %s\ndef strTagFormat : String := %s\n\n"
            "/-- phase.add_phase_info, per record: mandatory columns, the two phase fields (phased / not), the record's own fields -/\n"
            "def phaseFormat : String := %s\ndef phaseArgs : List String := %s\n"
            "def phaseIsPhased (inTsv hapIsNone : Bool) : Bool := %s\n"
            "def phasedFormat : String := %s\ndef phasedArgs : List String := %s\ndef unphasedText : String := %s\ndef phaseTagFormat : String := %s\n"
            "end Gaftools.Gen\n" % (
                rs_plain, rs_bgzf,
                ", ".join('("%s", %d, "%s")' % (attr_of.get(n, n), i, k) for n, i, k in cols),
                ",\n  ".join(preds), tag_body,
                sfmt(fmt[0]), slist(a[5:] for a in fmt[1]), cg_rule, sfmt(tag_fmt),
                sfmt(writes[0][1]), slist(a[9:] for a in writes[0][2]), writes[1][1],
                sfmt(writes[1][2][0][1]), slist(ph_args[a] for a in writes[1][2][0][2]), sfmt(writes[1][3][0][1]), sfmt(writes[2][1])))


GENERATORS["GafRecord"] = gen_gaf_record


# ---------------------------------------------------------------------------------------------------------
# sort.sort: the write loop (what is appended to a record, the .gsi bookkeeping) (C09, C10)

def gen_sort_write():
    _, src = src_of("gaftools/cli/sort.py")
    mod = ast.parse(src)
    fn = find_func(mod, "sort")
    loop = _only([st for st in ast.walk(fn) if isinstance(st, ast.For) and ast.unparse(st.iter) == "gaf_alignments"], "write loop of sort")
    if ast.unparse(loop.target) != "alignment":
        raise Untranslatable("write loop variable")
    fmt = None
    strips = {}
    assign = None
    tell_at = write_at = None
    off_var = None
    for i, st in enumerate(loop.body):
        u = ast.unparse(st)
        if u in ("off = alignment.offset", "reader.seek(off)", "reader.seek(alignment.offset)", "line = reader.readline()"):
            continue
        if isinstance(st, ast.If) and u.startswith("if isinstance(line, bytes)"):
            # bytes / str / else raise
            b1 = [ast.unparse(x) for x in st.body]
            strips["bytes"] = {"line = line.decode('utf-8').rstrip()": "true", "line = line.decode('utf-8')": "false"}.get(b1[0] if len(b1) == 1 else "")
            nxt = st.orelse[0] if len(st.orelse) == 1 and isinstance(st.orelse[0], ast.If) else None
            if nxt is None or ast.unparse(nxt.test) != "isinstance(line, str)":
                raise Untranslatable("write loop: str branch")
            b2 = [ast.unparse(x) for x in nxt.body]
            strips["str"] = {"line = line.rstrip()": "true", "pass": "false"}.get(b2[0] if len(b2) == 1 else "")
            if strips["bytes"] is None or strips["str"] is None:
                raise Untranslatable("write loop: strip branches %s %s" % (b1, b2))
            continue
        if isinstance(st, ast.AugAssign) and ast.unparse(st.target) == "line" and isinstance(st.value, ast.BinOp) and isinstance(st.value.op, ast.Mod):
            if not (isinstance(st.value.left, ast.Constant) and isinstance(st.value.right, ast.Tuple)):
                raise Untranslatable("suffix format")
            args = [ast.unparse(a) for a in st.value.right.elts]
            if any(not a.startswith("alignment.") for a in args):
                raise Untranslatable("suffix arguments %s" % args)
            fmt = (st.value.left.value, [a[len("alignment."):] for a in args])
            continue
        if isinstance(st, ast.If) and ast.unparse(st.test) == "index_file is not None":
            tell_at = i
            b = st.body
            if not (len(b) == 2 and isinstance(b[0], ast.Assign) and ast.unparse(b[0].value) == "writer.tell()" and isinstance(b[1], ast.If)):
                raise Untranslatable("index bookkeeping shape")
            off_var = ast.unparse(b[0].targets[0])
            t = ast.unparse(b[1].test)
            if t not in ("index_dict[alignment.sn][0] is None", "index_dict[alignment.sn][0] is not None"):
                raise Untranslatable("index test: %s" % t)

            def sets(stmts):
                f = l = False
                for x in stmts:
                    ux = ast.unparse(x)
                    if ux == "index_dict[alignment.sn][0] = %s" % off_var:
                        f = True
                    elif ux == "index_dict[alignment.sn][1] = %s" % off_var:
                        l = True
                    else:
                        raise Untranslatable("index assignment: %s" % ux)
                return "(%s, %s)" % ("true" if f else "false", "true" if l else "false")
            yes, no = sets(b[1].body), sets(b[1].orelse)
            if t.endswith("is not None"):
                yes, no = no, yes
            assign = "if firstIsNone then %s else %s" % (yes, no)
            continue
        if u == "write_to_file(line, writer)":
            write_at = i
            continue
        raise Untranslatable("write loop statement: %s" % u[:70])
    if fmt is None or assign is None or write_at is None or not strips:
        raise Untranslatable("write loop parts missing")
    popped = None
    for st in ast.walk(fn):
        if isinstance(st, ast.Expr) and isinstance(st.value, ast.Call) and ast.unparse(st.value.func) == "index_dict.pop":
            a = st.value.args
            if not (a and isinstance(a[0], ast.Constant) and isinstance(a[0].value, str)):
                raise Untranslatable("index_dict.pop argument")
            if popped is not None:
                raise Untranslatable("two pops")
            popped = a[0].value
    if popped is None:
        raise Untranslatable("index_dict.pop not found")
    # the initial value of an entry
    rfn = find_func(mod, "run_sort")
    init = [ast.unparse(st.value) for st in rfn.body if isinstance(st, ast.Assign) and ast.unparse(st.targets[0]) == "index_dict"]
    if init != ["defaultdict(lambda: [None, None])"]:
        raise Untranslatable("index_dict initialisation: %s" % init)

    def sfmt(f):
        return '"%s"' % f.replace("\\", "\\\\").replace('"', '\\"').replace("\t", "\\t").replace("\n", "\\n")
    return ("/-! generated by harness/translate.py from gaftools/cli/sort.py : the write loop of sort() — do not edit -/\n"
            "namespace Gaftools.Gen\n"
            "/-- what is appended to the right-stripped raw record, and the attributes printed -/\n"
            "def sortSuffixFormat : String := %s\ndef sortSuffixArgs : List String := [%s]\n"
            "/-- the raw record is right-stripped in the bytes (BGZF) and in the text branch -/\n"
            "def sortStripsBytes : Bool := %s\ndef sortStripsStr : Bool := %s\n"
            "/-- `.gsi` bookkeeping for the record's contig: (assign first, assign last), from whether `first` is still `None`\n"
            "    (a fresh entry of the defaultdict is `[None, None]`) -/\n"
            "def gsiAssign (firstIsNone : Bool) : Bool × Bool := %s\n"
            "/-- the offset is taken (`writer.tell()`) before the record is written -/\n"
            "def gsiTellBeforeWrite : Bool := %s\n"
            "/-- the key removed before the index is pickled -/\n"
            "def gsiPopped : String := %s\nend Gaftools.Gen\n" % (
                sfmt(fmt[0]), ", ".join('"%s"' % a for a in fmt[1]), strips["bytes"], strips["str"], assign,
                "true" if tell_at < write_at else "false", sfmt(popped)))


GENERATORS["SortWrite"] = gen_sort_write


# ---------------------------------------------------------------------------------------------------------
# GFA.biccs: the body of the `while stack:` loop, statement by statement (C15, C06, C18)

def gen_biccs():
    _, src = src_of("gaftools/gfa.py")
    fn = find_func(ast.parse(src), "biccs", cls="GFA")
    inner = {n.name: n for n in fn.body if isinstance(n, ast.FunctionDef)}
    # -- the two helper functions must be what the translation assumes
    es = inner.get("edge_stack_to_set")
    if es is None or [ast.unparse(x) for x in es.body if not (isinstance(x, ast.Expr) and isinstance(x.value, ast.Constant))] != [
            "out_set = set()", "for es in edge_stack:\n    for n in es:\n        out_set.add(n)", "return out_set"]:
        raise Untranslatable("edge_stack_to_set is not 'the set of all endpoints'")
    nc = inner.get("next_child")
    if nc is None:
        raise Untranslatable("next_child not found")
    ncb = [x for x in nc.body if not (isinstance(x, ast.Expr) and isinstance(x.value, ast.Constant))]
    arg = nc.args.args[0].arg

    def nc_expr(e):
        u = ast.unparse(e)
        table = {"not %s[3]" % arg: "f.nbrs.isEmpty", "%s[2] >= len(%s[3])" % (arg, arg): "decide (f.ptr ≥ f.nbrs.length)",
                 "%s[2] > len(%s[3])" % (arg, arg): "decide (f.ptr > f.nbrs.length)", "%s[2] == len(%s[3])" % (arg, arg): "(f.ptr == f.nbrs.length)"}
        if u in table:
            return table[u]
        raise Untranslatable("next_child test: %s" % u)

    def nc_block(stmts, bumped):
        if not stmts:
            return "(none, f)"
        st, rest = stmts[0], stmts[1:]
        if isinstance(st, ast.Return):
            if st.value is None or (isinstance(st.value, ast.Constant) and st.value.value is None):
                return "(none, %s)" % ("{ f with ptr := f.ptr + %d }" % bumped if bumped else "f")
            u = ast.unparse(st.value)
            m = re.fullmatch(r"%s\[3\]\[%s\[2\]( - (\d+))?\]" % (arg, arg), u)
            if not m:
                raise Untranslatable("next_child returns %s" % u)
            back = int(m.group(2) or 0)
            return "(some (f.nbrs.getD (f.ptr + %d - %d) \"\"), { f with ptr := f.ptr + %d })" % (bumped, back, bumped)
        if isinstance(st, ast.AugAssign) and ast.unparse(st.target) == "%s[2]" % arg and isinstance(st.op, ast.Add) and isinstance(st.value, ast.Constant):
            return nc_block(rest, bumped + st.value.value)
        if isinstance(st, ast.If):
            if bumped:
                raise Untranslatable("next_child: test after the increment")
            return "(if %s then %s else %s)" % (nc_expr(st.test), nc_block(st.body + rest, 0), nc_block(st.orelse + rest, 0))
        raise Untranslatable("next_child statement: %s" % ast.unparse(st)[:60])
    next_child = nc_block(ncb, 0)
    # -- the outer loop: initial state, while body, the root rule
    outer = _only([st for st in fn.body if isinstance(st, ast.For) and ast.unparse(st.iter) == "set_of_nodes"], "loop over the start nodes")
    root = ast.unparse(outer.target)
    init, loop, after = {}, None, []
    for st in outer.body:
        u = ast.unparse(st)
        if isinstance(st, ast.If) and u == "if %s in visited:\n    continue" % root:
            continue
        if isinstance(st, ast.While):
            if ast.unparse(st.test) != "stack" or loop is not None:
                raise Untranslatable("while loop of biccs")
            loop = st
            continue
        if loop is None:
            if isinstance(st, ast.Assign) and len(st.targets) == 1:
                init[ast.unparse(st.targets[0])] = ast.unparse(st.value)
                continue
            if u == "visited.add(%s)" % root:
                init["visited.add"] = root
                continue
            raise Untranslatable("before the while loop: %s" % u[:60])
        after.append(st)
    want = {"discovery": "{%s: 0}" % root, "low": "{%s: 0}" % root, "root_children": "0", "artic_points": "set()", "components": "[]",
            "visited.add": root, "edge_stack": "[]", "edge_stack_loc": "dict()", "neighbors": "self[%s].neighbors()" % root,
            "stack": "[[%s, %s, 0, neighbors]]" % (root, root)}
    if init != want:
        raise Untranslatable("initial state of a search: %s" % {k: v for k, v in init.items() if want.get(k) != v})
    if [ast.unparse(x) for x in after] != ["if root_children > 1:\n    artic_points.add(%s)" % root]:
        # translate the root rule's threshold
        m = re.fullmatch(r"if root_children (>|>=) (\d+):\n    artic_points.add\(%s\)" % root, "\n".join(ast.unparse(x) for x in after))
        if not m:
            raise Untranslatable("after the while loop: %s" % [ast.unparse(x)[:50] for x in after])
        root_rule = "decide (rc %s %s)" % ({">": ">", ">=": "≥"}[m.group(1)], m.group(2))
    else:
        root_rule = "decide (rc > 1)"
    body = loop.body
    if [ast.unparse(x) for x in body[:3]] != ["parent = stack[-1][0]", "child = stack[-1][1]", "nn = next_child(stack[-1])"]:
        raise Untranslatable("head of the while body: %s" % [ast.unparse(x) for x in body[:3]])
    if not (len(body) == 4 and isinstance(body[3], ast.If) and ast.unparse(body[3].test) == "nn" and len(body[3].orelse) == 1
            and isinstance(body[3].orelse[0], ast.If) and ast.unparse(body[3].orelse[0].test) == "nn is None" and not body[3].orelse[0].orelse):
        raise Untranslatable("while body is not `if nn: … elif nn is None: …`")
    names = {"parent": "parent", "child": "child", "nn": "nn", "cut_point": "cut_point", "comp": "comp"}

    def val(e):
        u = ast.unparse(e)
        if isinstance(e, ast.Name) and e.id in names:
            return names[e.id]
        if isinstance(e, ast.Constant) and isinstance(e.value, int) and not isinstance(e.value, bool):
            return str(e.value)
        if isinstance(e, ast.Tuple) and len(e.elts) == 2:
            return "(%s, %s)" % (val(e.elts[0]), val(e.elts[1]))
        if isinstance(e, ast.Subscript) and isinstance(e.value, ast.Name) and e.value.id in ("low", "discovery", "edge_stack_loc"):
            fld = {"low": "low", "discovery": "disc", "edge_stack_loc": "loc"}[e.value.id]
            return "((lookup %s s.%s).getD 0)" % (val(e.slice), fld)
        if u == "len(edge_stack)":
            return "s.estack.length"
        if u == "len(discovery)":
            return "s.disc.length"
        if u == "len(stack)":
            return "s.stack.length"
        if isinstance(e, ast.BinOp) and type(e.op) in (ast.Add, ast.Sub):
            return "(%s %s %s)" % (val(e.left), "+" if isinstance(e.op, ast.Add) else "-", val(e.right))
        if isinstance(e, ast.Call) and ast.unparse(e.func) == "min" and len(e.args) == 2:
            return "(min %s %s)" % (val(e.args[0]), val(e.args[1]))
        if isinstance(e, ast.Call) and ast.unparse(e.func) == "edge_stack_to_set" and len(e.args) == 1:
            a = e.args[0]
            if isinstance(a, ast.Subscript) and ast.unparse(a.value) == "edge_stack" and isinstance(a.slice, ast.Slice) and a.slice.upper is None and a.slice.step is None and a.slice.lower is not None:
                return "(nodesOf (s.estack.drop %s))" % val(a.slice.lower)
        if isinstance(e, ast.List) and len(e.elts) == 4 and ast.unparse(e.elts[3]) == "self[%s].neighbors()" % ast.unparse(e.elts[1]):
            return "(⟨%s, %s, %s, nb %s⟩ : Frame)" % (val(e.elts[0]), val(e.elts[1]), val(e.elts[2]), val(e.elts[1]))
        raise Untranslatable("biccs value: %s" % u)

    def cond(e):
        u = ast.unparse(e)
        if isinstance(e, ast.BoolOp):
            return "(" + (" && " if isinstance(e.op, ast.And) else " || ").join(cond(x) for x in e.values) + ")"
        if isinstance(e, ast.UnaryOp) and isinstance(e.op, ast.Not):
            return "(!%s)" % cond(e.operand)
        if u == "stack":
            return "(!s.stack.isEmpty)"
        if isinstance(e, ast.Compare) and len(e.ops) == 1:
            l, r, t = e.left, e.comparators[0], type(e.ops[0])
            if t in (ast.In, ast.NotIn) and ast.unparse(r) == "visited":
                c = "s.visited.contains %s" % val(l)
                return "(%s)" % c if t is ast.In else "(!%s)" % c
            if t in (ast.Eq, ast.NotEq) and isinstance(l, ast.Name) and isinstance(r, ast.Name):
                c = "(%s == %s)" % (val(l), val(r))
                return c if t is ast.Eq else "(!%s)" % c
            op = {ast.Lt: "<", ast.Gt: ">", ast.LtE: "≤", ast.GtE: "≥", ast.Eq: "=", ast.NotEq: "≠"}.get(t)
            if op:
                return "decide (%s %s %s)" % (val(l), op, val(r))
        raise Untranslatable("biccs test: %s" % u)

    def ex(stmts, ind):
        pad = " " * ind
        if not stmts:
            return pad + "s"
        st, rest = stmts[0], stmts[1:]
        u = ast.unparse(st)
        if isinstance(st, ast.Expr) and isinstance(st.value, ast.Constant):
            return ex(rest, ind)
        if isinstance(st, ast.Continue):
            return pad + "s"

        def upd(text):
            return "%slet s : BSt := { s with %s }\n%s" % (pad, text, ex(rest, ind))
        if isinstance(st, ast.If):
            return "%sif %s then\n%s\n%selse\n%s" % (pad, cond(st.test), ex(st.body + rest, ind + 2), pad, ex(st.orelse + rest, ind + 2))
        if isinstance(st, ast.Assign) and len(st.targets) == 1:
            t = st.targets[0]
            if isinstance(t, ast.Name) and t.id in ("cut_point", "comp"):
                return "%slet %s := %s\n%s" % (pad, t.id, val(st.value), ex(rest, ind))
            if isinstance(t, ast.Subscript) and isinstance(t.value, ast.Name) and t.value.id in ("low", "discovery", "edge_stack_loc"):
                fld = {"low": "low", "discovery": "disc", "edge_stack_loc": "loc"}[t.value.id]
                return upd("%s := setKV %s %s s.%s" % (fld, val(t.slice), val(st.value), fld))
        if isinstance(st, ast.AugAssign) and u == "root_children += 1":
            return upd("rootChildren := s.rootChildren + 1")
        if isinstance(st, ast.Delete) and len(st.targets) == 1:
            t = st.targets[0]
            if (isinstance(t, ast.Subscript) and ast.unparse(t.value) == "edge_stack" and isinstance(t.slice, ast.Slice) and t.slice.upper is None
                    and t.slice.step is None and t.slice.lower is not None):
                return upd("estack := s.estack.take %s" % val(t.slice.lower))
        if isinstance(st, ast.Expr) and isinstance(st.value, ast.Call) and len(st.value.args) <= 1 and not st.value.keywords:
            f = ast.unparse(st.value.func)
            a = st.value.args[0] if st.value.args else None
            if f == "edge_stack.append":
                return upd("estack := s.estack ++ [%s]" % val(a))
            if f == "visited.add":
                return upd("visited := %s :: s.visited" % val(a))
            if f == "stack.append":
                return upd("stack := %s :: s.stack" % val(a))
            if f == "stack.pop" and a is None:
                return upd("stack := s.stack.tail")
            if f == "artic_points.add":
                return upd("aps := insertSet %s s.aps" % val(a))
            if f == "components.append":
                return upd("comps := s.comps ++ [%s]" % val(a))
        raise Untranslatable("biccs statement: %s" % u[:70])
    then_b = ex(body[3].body, 6)
    none_b = ex(body[3].orelse[0].body, 6)
    return ("import Gaftools.Model.Algo\n"
            "/-! generated by harness/translate.py from gaftools/gfa.py : GFA.biccs, one iteration of `while stack:` translated statement by\n"
            "    statement (the Python list `stack` with its END first; dictionaries as association lists whose newest entry shadows) — do not edit -/\n"
            "namespace Gaftools.Gen\nopen Gaftools.Algo\n\n"
            "/-- `next_child(stack_item)`: the neighbour to look at (or `None`) and the stack item after the call -/\n"
            "def nextChild (f : Frame) : Option V × Frame :=\n  %s\n\n"
            "/-- the body of `while stack:`; `nb n` = `self[n].neighbors()`. A neighbour id that is the empty string is falsy in Python:\n"
            "    neither branch runs (third case) -/\n"
            "def bstep (nb : V → List V) (s : BSt) : BSt :=\n"
            "  match s.stack with\n  | [] => s\n  | top :: _ =>\n"
            "    let parent := top.parent\n    let child := top.child\n"
            "    let nnO := (nextChild top).1\n"
            "    let s : BSt := { s with stack := (nextChild top).2 :: s.stack.tail }\n"
            "    if nnO.isSome && nnO != some \"\" then\n      let nn := nnO.getD \"\"\n%s\n"
            "    else if nnO.isNone then\n%s\n    else s\n\n"
            "/-- after the loop: the start node is an articulation point when it has that many tree children -/\n"
            "def rootIsAp (rc : Nat) : Bool := %s\n"
            "end Gaftools.Gen\n" % (next_child, then_b, none_b, root_rule))


GENERATORS["Biccs"] = gen_biccs


# ---------------------------------------------------------------------------------------------------------
# view.run (selection), view.get_unstable, view.search: a small typed translation of statements into the exception monad
# (C04, C05).  Every loop becomes a step function (`<fn>_loop<k>`) folded with `List.foldlM`; an `if` that falls through on
# both sides is a joined `let … ← (if … then do … else do …)`, an `if` with a branch that ends in raise / return / continue
# takes the rest of the block into its branches; `try: v = d[k] except KeyError: …` is a match on the lookup.

VIEWSEL_PRELUDE = r'''set_option linter.unusedVariables false
namespace Gaftools.Gen.ViewSel
open Gaftools.View Gaftools.TextLayer

/-! ### the Python values and built-ins the translation refers to (fixed text) -/

/-- the exceptions the fragment can end in -/
inductive VErr where
  | indexError | valueError | keyError | typeError | assertionError
  | commandLineError (msg : String)
deriving DecidableEq, Repr

abbrev M := Except VErr

/-- a component of a key of the pickled index -/
inductive PyAtom where
  | str (s : String)
  | int (i : Int)
deriving DecidableEq, Repr

/-- a key of the pickled index: `(id, SN, SO, SO+LN)` or the string "ref_contig" -/
inductive IKey where
  | node (k : Key)
  | ref
deriving DecidableEq, Repr

/-- `x[j]` for a constant `0 ≤ j ≤ 3` (the translator accepts no other subscript): a tuple component, or a character of "ref_contig" -/
def IKey.get : IKey → Nat → PyAtom
  | .node k, 0 => .str k.1
  | .node k, 1 => .str k.2.1
  | .node k, 2 => .int k.2.2.1
  | .node k, _ => .int k.2.2.2
  | .ref, 0 => .str "r"
  | .ref, 1 => .str "e"
  | .ref, 2 => .str "f"
  | .ref, _ => .str "_"

/-- `x == "<literal>"` (a tuple never equals a string) -/
def IKey.eqStr (x : IKey) (s : String) : Bool :=
  match x with
  | .ref => s == "ref_contig"
  | .node _ => false

/-- `a < b`, `a <= b`: a `TypeError` between `str` and `int` -/
def PyAtom.lt : PyAtom → PyAtom → M Bool
  | .str a, .str b => pure (decide (a < b))
  | .int a, .int b => pure (decide (a < b))
  | _, _ => throw .typeError
def PyAtom.le : PyAtom → PyAtom → M Bool
  | .str a, .str b => pure (decide (a ≤ b))
  | .int a, .int b => pure (decide (a ≤ b))
  | _, _ => throw .typeError

/-- the `<` that `sorted` / `list.sort` apply to the keys (tuples: the first unequal component decides) -/
class PyOrd (κ : Type) where
  lt : κ → κ → M Bool
instance : PyOrd PyAtom := ⟨PyAtom.lt⟩
instance : PyOrd Nat := ⟨fun a b => pure (decide (a < b))⟩
instance : PyOrd (PyAtom × PyAtom) :=
  ⟨fun a b => if a.1 == b.1 then (if a.2 == b.2 then pure false else PyAtom.lt a.2 b.2) else PyAtom.lt a.1 b.1⟩

/-- stable sort by insertion: an element goes before the first one whose key is greater.  When every comparison is defined this
    is the one stable sorted arrangement (what `sorted` returns); when one is not, `sorted` raises `TypeError` as well (possibly
    after other comparisons than these) -/
def pyInsert {α κ : Type} [PyOrd κ] (kx : κ) (x : α) : List (κ × α) → M (List (κ × α))
  | [] => pure [(kx, x)]
  | (ky, y) :: ys => do
    let b ← PyOrd.lt kx ky
    if b then pure ((kx, x) :: (ky, y) :: ys)
    else do
      let r ← pyInsert kx x ys
      pure ((ky, y) :: r)
def pySortedBy {α κ : Type} [PyOrd κ] (key : α → κ) (l : List α) : M (List α) := do
  let s ← l.foldlM (fun acc x => pyInsert (key x) x acc) []
  pure (s.map (·.2))

/-- a `dict` in insertion order -/
abbrev Dict (κ ν : Type) := List (κ × ν)
def dictGet? {κ ν : Type} [BEq κ] (d : Dict κ ν) (k : κ) : Option ν := (d.find? (·.1 == k)).map (·.2)
def dictGet {κ ν : Type} [BEq κ] (d : Dict κ ν) (k : κ) : M ν :=
  match dictGet? d k with
  | some v => pure v
  | none => throw .keyError
def dictHas {κ ν : Type} [BEq κ] (d : Dict κ ν) (k : κ) : Bool := d.any (·.1 == k)
def dictSet {κ ν : Type} [BEq κ] (d : Dict κ ν) (k : κ) (v : ν) : Dict κ ν :=
  if d.any (·.1 == k) then d.map (fun e => if e.1 == k then (e.1, v) else e) else d ++ [(k, v)]
def dictKeys {κ ν : Type} (d : Dict κ ν) : List κ := d.map (·.1)

/-- a `set` as a duplicate-free list (its iteration order is never observed: the only reader is `sorted`) -/
def setOf {α : Type} [BEq α] (l : List α) : List α := l.eraseDups
def setUnion {α : Type} [BEq α] (a b : List α) : List α := (a ++ b).eraseDups

def pyIdx {α : Type} (l : List α) (i : Nat) : M α :=
  match l[i]? with
  | some v => pure v
  | none => throw .indexError
def pyLast {α : Type} (l : List α) : M α :=
  match l.getLast? with
  | some v => pure v
  | none => throw .indexError
/-- `s.split(sep)` for a one-character separator, `int(s)` -/
def pySplit (s : String) (sep : Char) : List String := (splitOn sep s.toList).map String.ofList
def pyIntOf (s : String) : M Int :=
  match pyInt s.toList with
  | some v => pure v
  | none => throw .valueError
def pyAssert (b : Bool) : M Unit := if b then pure () else throw .assertionError
/-- `a and b` -/
def pyAnd (a b : M Bool) : M Bool := do
  let x ← a
  if x then b else pure false
/-- `[x for x in l if p(x)]` -/
def pyFilterM {α : Type} (p : α → M Bool) : List α → M (List α)
  | [] => pure []
  | x :: xs => do
    let b ← p x
    let r ← pyFilterM p xs
    pure (if b then x :: r else r)
/-- truth value of an optional string (`None` and "" are false) -/
def truthyStr : Option String → Bool
  | none => false
  | some s => s != ""
'''

_VS_KEYWORDS = {"end", "from", "at", "open", "in", "fun", "do", "then", "else", "if", "let", "have", "show", "match", "with",
                "by", "where", "def", "theorem", "namespace", "section", "variable", "instance", "structure", "class", "import",
                "prefix", "postfix", "infix", "notation", "macro", "syntax", "deriving", "mutual", "private", "protected", "return",
                "for", "unless", "try", "catch", "finally", "mut", "Type", "Prop", "Sort", "local", "abbrev", "example", "axiom"}
_VS_RESERVED = {"st", "pure", "some", "none", "throw", "decide", "M", "selecting"} | set(re.findall(r"^(?:def|abbrev|class|inductive) ([\w.?]+)", VIEWSEL_PRELUDE, re.M))

S_, INT_, NAT_, BOOL_, ATOM_, IK_, REC_, OUT_ = "String", "Int", "Nat", "Bool", "PyAtom", "IKey", "Rec", "Out"


def _vs_L(t):
    return ("List", t)


def _vs_D(k, v):
    return ("Dict", k, v)


def _vs_ty(t):
    """type -> Lean text (parenthesised when applied)"""
    if isinstance(t, str):
        return t
    if t[0] == "List":
        return "(List %s)" % _vs_ty(t[1])
    if t[0] == "Dict":
        return "(Dict %s %s)" % (_vs_ty(t[1]), _vs_ty(t[2]))
    if t[0] == "Opt":
        return "(Option %s)" % _vs_ty(t[1])
    if t[0] == "Tuple":
        return "(" + " × ".join(_vs_ty(x) for x in t[1]) + ")"
    if t[0] == "Fn":
        return "(%s → %s)" % (_vs_ty(t[1]), _vs_ty(t[2]))
    if t[0] == "MFn":
        return "(%s → M %s)" % (_vs_ty(t[1]), _vs_ty(t[2]))
    raise Untranslatable("type %r" % (t,))


def _vs_mentions(t, name):
    if isinstance(t, str):
        return t == name
    return any(_vs_mentions(x, name) for x in t[1:] if not isinstance(x, list)) or any(
        _vs_mentions(y, name) for x in t[1:] if isinstance(x, list) for y in x)


def _vs_unify(declared, got, what):
    """`got` may contain None (the element type of an empty container); returns the resolved type"""
    if got is None:
        return declared
    if declared is None:
        return got
    if isinstance(declared, str) or isinstance(got, str) or declared[0] == "Tuple" or got[0] == "Tuple":
        if declared != got:
            raise Untranslatable("%s: type %r where %r is expected" % (what, got, declared))
        return declared
    if declared[0] != got[0] or len(declared) != len(got):
        raise Untranslatable("%s: type %r where %r is expected" % (what, got, declared))
    return (declared[0],) + tuple(_vs_unify(a, b, what) for a, b in zip(declared[1:], got[1:]))


def _vs_name(n):
    if re.fullmatch(r"t\d+|jn\d*", n) or n in _VS_RESERVED:
        raise Untranslatable("identifier %s clashes with a name of the translation" % n)
    return n + "_" if n in _VS_KEYWORDS else n


def _vs_str(v):
    if any(ord(ch) < 32 or ord(ch) > 126 for ch in v):
        raise Untranslatable("string literal %r" % v)
    return '"%s"' % v.replace("\\", "\\\\").replace('"', '\\"')


class _VsEnv:
    """variables in scope (python name -> type), in order of definition; records which outer names a block reads"""

    def __init__(self, items=None, used=None):
        self.items = dict(items or {})
        self.used = used if used is not None else set()

    def child(self):
        return _VsEnv(self.items, self.used)

    def get(self, n):
        if n not in self.items:
            raise Untranslatable("name %s is not a variable of the fragment" % n)
        self.used.add(n)
        return self.items[n]

    def has(self, n):
        return n in self.items

    def set(self, n, t):
        self.items[n] = t


class _VsFn:
    """translation of one Python function (or fragment) into Lean definitions"""

    def __init__(self, unit, pyname, leanname, ret, empties, externals):
        self.unit = unit              # the _VsUnit (known functions, output definitions)
        self.pyname, self.lean = pyname, leanname
        self.ret = ret
        self.empties = empties        # declared types of the variables that start as an empty container
        self.externals = externals    # lean name -> type of the external functions (run only)
        self.tmp = 0
        self.loops = 0
        self.joins = 0
        self.aliased = set()          # names whose list / dict may be reachable through another name or container: the translation
                                      # copies values, so an in-place change of such an object is outside the subset
        self.handle = None            # the name bound to GAF(gaf_path)

    def fresh(self):
        self.tmp += 1
        return "t%d" % self.tmp

    # ---------------------------------------------------------------- expressions: (binds, term, type)
    def coerce_bool(self, term, ty):
        if ty == BOOL_:
            return term
        if not isinstance(ty, str) and ty[0] == "List":
            return "(!%s.isEmpty)" % term
        if ty == ("Opt", S_):
            return "(truthyStr %s)" % term
        raise Untranslatable("truth value of a %r" % (ty,))

    def as_atom(self, term, ty):
        if ty == ATOM_:
            return term
        if ty == S_:
            return "(PyAtom.str %s)" % term
        if ty == INT_:
            return "(PyAtom.int %s)" % term
        raise Untranslatable("a %r where a tuple component is expected" % (ty,))

    def ex(self, e, env):
        if isinstance(e, ast.Name):
            return [], _vs_name(e.id), env.get(e.id)
        if isinstance(e, ast.Constant):
            if isinstance(e.value, str):
                return [], _vs_str(e.value), S_
            if isinstance(e.value, bool) or e.value is None:
                raise Untranslatable("constant %r" % (e.value,))
            if isinstance(e.value, int) and e.value >= 0:
                return [], str(e.value), "IntLit"
            raise Untranslatable("constant %r" % (e.value,))
        if isinstance(e, ast.List):
            if not e.elts:
                return [], "[]", ("List", None)
            parts = [self.ex(x, env) for x in e.elts]
            ty = parts[0][2]
            for p in parts[1:]:
                ty = _vs_unify(ty, p[2], "list element")
            return sum((p[0] for p in parts), []), "[" + ", ".join(p[1] for p in parts) + "]", ("List", ty)
        if isinstance(e, ast.Dict) and not e.keys:
            return [], "[]", ("Dict", None, None)
        if isinstance(e, ast.Tuple):
            parts = [self.ex(x, env) for x in e.elts]
            return sum((p[0] for p in parts), []), "(" + ", ".join(p[1] for p in parts) + ")", ("Tuple", [p[2] for p in parts])
        if isinstance(e, ast.Subscript):
            b, base, bt = self.ex(e.value, env)
            if bt == IK_:
                if not (isinstance(e.slice, ast.Constant) and isinstance(e.slice.value, int) and not isinstance(e.slice.value, bool)
                        and 0 <= e.slice.value <= 3):
                    raise Untranslatable("subscript of an index key: %s" % ast.unparse(e))
                return b, "(%s.get %d)" % (base, e.slice.value), ATOM_
            if not isinstance(bt, str) and bt[0] == "List":
                t = self.fresh()
                if isinstance(e.slice, ast.Constant) and isinstance(e.slice.value, int) and e.slice.value >= 0:
                    return b + [(t, "pyIdx %s %d" % (base, e.slice.value))], t, bt[1]
                if ast.unparse(e.slice) == "-1":
                    return b + [(t, "pyLast %s" % base)], t, bt[1]
                raise Untranslatable("list subscript %s" % ast.unparse(e))
            if not isinstance(bt, str) and bt[0] == "Dict":
                kb, k, kt = self.ex(e.slice, env)
                k = self.key_as(k, kt, bt[1])
                t = self.fresh()
                return b + kb + [(t, "dictGet %s %s" % (base, k))], t, bt[2]
            raise Untranslatable("subscript of a %r" % (bt,))
        if isinstance(e, ast.UnaryOp) and isinstance(e.op, ast.Not):
            b, t, ty = self.ex(e.operand, env)
            return b, "(!%s)" % self.coerce_bool(t, ty), BOOL_
        if isinstance(e, ast.BoolOp):
            parts = [self.ex(x, env) for x in e.values]
            terms = [self.coerce_bool(p[1], p[2]) for p in parts]
            if all(not p[0] for p in parts[1:]):
                # later operands are pure and total: evaluating them eagerly is unobservable
                op = " && " if isinstance(e.op, ast.And) else " || "
                return parts[0][0], "(" + op.join(terms) + ")", BOOL_
            if isinstance(e.op, ast.And):
                m = self.mterm(parts[-1][0], terms[-1])
                for p, t in zip(reversed(parts[:-1]), reversed(terms[:-1])):
                    m = "pyAnd %s (%s)" % (self.mterm(p[0], t, paren=True), m)
                t = self.fresh()
                return [(t, m)], t, BOOL_
            raise Untranslatable("`or` over operands that may raise: %s" % ast.unparse(e))
        if isinstance(e, ast.Compare) and len(e.ops) == 1:
            return self.compare(e, env)
        if isinstance(e, ast.Call):
            return self.call(e, env)
        if isinstance(e, (ast.ListComp, ast.GeneratorExp)):
            return self.comprehension(e, env)
        raise Untranslatable("expression %s" % ast.unparse(e)[:80])

    def mterm(self, binds, term, paren=False):
        """a term of type `M _` that evaluates the bound sub-expressions in order and yields `term`"""
        if not binds:
            s = "pure %s" % term
        elif len(binds) == 1 and binds[0][0] == term:
            s = binds[0][1]
        else:
            s = "do " + "; ".join("let %s ← %s" % b for b in binds) + "; pure %s" % term
        return "(%s)" % s if paren else s

    def key_as(self, term, ty, want):
        if ty == want:
            return term
        if want == ATOM_:
            return self.as_atom(term, ty)
        raise Untranslatable("a %r used as a key of type %r" % (ty, want))

    def compare(self, e, env):
        op, l, r = e.ops[0], e.left, e.comparators[0]
        lb, lt_, lty = self.ex(l, env)
        rb, rt, rty = self.ex(r, env)
        binds = lb + rb
        neg = isinstance(op, (ast.NotEq, ast.NotIn))

        def out(term):
            return binds, "(!%s)" % term if neg else term, BOOL_
        if isinstance(op, (ast.In, ast.NotIn)):
            if not isinstance(rty, str) and rty[0] == "Dict":
                return out("(dictHas %s %s)" % (rt, self.key_as(lt_, lty, rty[1])))
            raise Untranslatable("membership in a %r" % (rty,))
        if isinstance(op, (ast.Eq, ast.NotEq)):
            if lty == IK_ and isinstance(r, ast.Constant) and isinstance(r.value, str):
                return out("(%s.eqStr %s)" % (lt_, rt))
            if rty == IK_ and isinstance(l, ast.Constant) and isinstance(l.value, str):
                return out("(%s.eqStr %s)" % (rt, lt_))
            if lty == ("Opt", S_) and rty == S_:
                return out("(%s == some %s)" % (lt_, rt))
            if ATOM_ in (lty, rty) and lty in (ATOM_, S_, INT_) and rty in (ATOM_, S_, INT_):
                return out("(%s == %s)" % (self.as_atom(lt_, lty), self.as_atom(rt, rty)))
            if lty == NAT_ and rty == "IntLit" or lty == "IntLit" and rty == NAT_:
                return out("(%s == %s)" % (lt_, rt))
            if lty in (S_, INT_, NAT_) and lty == rty:
                return out("(%s == %s)" % (lt_, rt))
            if not isinstance(lty, str) and lty[0] == "List" and not isinstance(rty, str) and rty[0] == "List" and lty[1] in (ATOM_, S_, NAT_, INT_):
                _vs_unify(lty, rty, "compared lists")
                return out("(%s == %s)" % (lt_, rt))
            raise Untranslatable("comparison %s (%r, %r)" % (ast.unparse(e), lty, rty))
        sym = {ast.Lt: ("lt", "<"), ast.LtE: ("le", "≤"), ast.Gt: ("lt", "<"), ast.GtE: ("le", "≤")}.get(type(op))
        if sym is None:
            raise Untranslatable("comparison %s" % ast.unparse(e))
        if isinstance(op, (ast.Gt, ast.GtE)):        # a > b is evaluated as b < a once both operands are known
            lt_, lty, rt, rty = rt, rty, lt_, lty
        if lty in (NAT_, "IntLit") and rty in (NAT_, "IntLit"):
            return binds, "(decide (%s %s %s))" % (lt_, sym[1], rt), BOOL_
        if lty == INT_ and rty == INT_:
            return binds, "(decide (%s %s %s))" % (lt_, sym[1], rt), BOOL_
        if ATOM_ in (lty, rty):
            t = self.fresh()
            return binds + [(t, "PyAtom.%s %s %s" % (sym[0], self.as_atom(lt_, lty), self.as_atom(rt, rty)))], t, BOOL_
        raise Untranslatable("comparison %s (%r, %r)" % (ast.unparse(e), lty, rty))

    def lam(self, node, elem_ty, env, what):
        """`lambda v: body` over elements of type elem_ty, body pure -> (lean lambda, body type)"""
        if not (isinstance(node, ast.Lambda) and len(node.args.args) == 1 and not node.args.defaults and not node.args.kwonlyargs
                and node.args.vararg is None and node.args.kwarg is None):
            raise Untranslatable("%s: not a one-argument lambda" % what)
        v = node.args.args[0].arg
        inner = env.child()
        inner.set(v, elem_ty)
        b, t, ty = self.ex(node.body, inner)
        if b:
            raise Untranslatable("%s: the key may raise" % what)
        return "(fun %s => %s)" % (_vs_name(v), t), ty

    def sort_key(self, kw, elem_ty, env, what):
        if kw is None:
            if elem_ty not in (NAT_, ATOM_):
                raise Untranslatable("%s: elements of type %r" % (what, elem_ty))
            return "(fun v => v)"
        f, kt = self.lam(kw, elem_ty, env, what)
        if kt not in (NAT_, ATOM_, ("Tuple", [ATOM_, ATOM_])):
            raise Untranslatable("%s: sort key of type %r" % (what, kt))
        return f

    def call(self, e, env):
        f = e.func
        u = ast.unparse(f)
        kws = {k.arg: k.value for k in e.keywords}
        if None in kws:
            raise Untranslatable("call %s" % ast.unparse(e)[:60])
        if isinstance(f, ast.Name) and f.id in ("int", "len", "list", "set", "sorted"):
            if f.id == "set" and not e.args and not kws:
                return [], "[]", ("List", None)
            if f.id == "sorted" and len(e.args) == 1 and set(kws) <= {"key"}:
                b, t, ty = self.ex(e.args[0], env)
                if isinstance(ty, str) or ty[0] != "List":
                    raise Untranslatable("sorted of a %r" % (ty,))
                k = self.sort_key(kws.get("key"), ty[1], env, "sorted")
                r = self.fresh()
                return b + [(r, "pySortedBy %s %s" % (k, t))], r, ty
            if len(e.args) != 1 or kws:
                raise Untranslatable("call %s" % ast.unparse(e)[:60])
            b, t, ty = self.ex(e.args[0], env)
            if f.id == "int":
                if ty != S_:
                    raise Untranslatable("int of a %r" % (ty,))
                r = self.fresh()
                return b + [(r, "pyIntOf %s" % t)], r, INT_
            if isinstance(ty, str) or ty[0] != "List":
                raise Untranslatable("%s of a %r" % (f.id, ty))
            if f.id == "len":
                return b, "%s.length" % t, NAT_
            if f.id == "list":
                return b, t, ty
            if f.id == "set":
                return b, "(setOf %s)" % t, ty
        if isinstance(f, ast.Attribute) and f.attr == "keys" and not e.args and not kws:
            b, t, ty = self.ex(f.value, env)
            if isinstance(ty, str) or ty[0] != "Dict":
                raise Untranslatable("keys of a %r" % (ty,))
            return b, "(dictKeys %s)" % t, ("List", ty[1])
        if isinstance(f, ast.Attribute) and f.attr == "split" and len(e.args) == 1 and not kws:
            b, t, ty = self.ex(f.value, env)
            a = e.args[0]
            if ty != S_ or not (isinstance(a, ast.Constant) and isinstance(a.value, str) and len(a.value) == 1 and 32 < ord(a.value) < 127
                                and a.value not in "'\\"):
                raise Untranslatable("split: %s" % ast.unparse(e)[:60])
            return b, "(pySplit %s '%s')" % (t, a.value), ("List", S_)
        if isinstance(f, ast.Name) and f.id in self.unit.sigs and not kws:
            params, ret = self.unit.sigs[f.id]
            if len(params) != len(e.args):
                raise Untranslatable("call of %s with %d arguments" % (f.id, len(e.args)))
            binds, terms = [], []
            for a, (pn, pt) in zip(e.args, params):
                b, t, ty = self.ex(a, env)
                _vs_unify(pt, ty, "argument %s of %s" % (pn, f.id))
                binds += b
                terms.append(t)
            r = self.fresh()
            return binds + [(r, "%s %s" % (self.unit.lean_names[f.id], " ".join(terms)))], r, ret
        # --- the record layer of run(): read a record at an offset, convert it
        if self.externals:
            if self.handle and u == "%s.read_line" % self.handle and len(e.args) == 1 and not kws:
                b, t, ty = self.ex(e.args[0], env)
                if ty != NAT_:
                    raise Untranslatable("read_line of a %r" % (ty,))
                env.get("readLine")
                r = self.fresh()
                return b + [(r, "readLine %s" % t)], r, REC_
            conv = {"to_stable": ("toStable", ["gfa_nodes", "ref_contig", "contig_len"]), "to_unstable": ("toUnstable", ["reference"])}
            if isinstance(f, ast.Name) and f.id in conv and not kws and e.args:
                lean, extra = conv[f.id]
                if [ast.unparse(a) for a in e.args[1:]] != extra:
                    raise Untranslatable("arguments of %s: %s" % (f.id, ast.unparse(e)[:80]))
                b, t, ty = self.ex(e.args[0], env)
                if ty != REC_:
                    raise Untranslatable("%s of a %r" % (f.id, ty))
                env.get(lean)
                r = self.fresh()
                return b + [(r, "%s %s" % (lean, t))], r, OUT_
        raise Untranslatable("call %s" % ast.unparse(e)[:60])

    def comprehension(self, e, env):
        if len(e.generators) != 1 or e.generators[0].is_async or not isinstance(e.generators[0].target, ast.Name) or len(e.generators[0].ifs) > 1:
            raise Untranslatable("comprehension %s" % ast.unparse(e)[:60])
        g = e.generators[0]
        b, it, ity = self.ex(g.iter, env)
        if isinstance(ity, str) or ity[0] != "List":
            raise Untranslatable("comprehension over a %r" % (ity,))
        v = g.target.id
        inner = env.child()
        inner.set(v, ity[1])
        lv = _vs_name(v)
        term, ty = it, ity
        if g.ifs:
            cb, ct, cty = self.ex(g.ifs[0], inner)
            ct = self.coerce_bool(ct, cty)
            if cb:
                r = self.fresh()
                b = b + [(r, "pyFilterM (fun %s => %s) %s" % (lv, self.mterm(cb, ct), term))]
                term = r
            else:
                term = "(%s.filter (fun %s => %s))" % (term, lv, ct)
        if not (isinstance(e.elt, ast.Name) and e.elt.id == v):
            eb, et, ety = self.ex(e.elt, inner)
            if eb:
                raise Untranslatable("comprehension element may raise: %s" % ast.unparse(e.elt))
            term, ty = "(%s.map (fun %s => %s))" % (term, lv, et), ("List", ety)
        return b, term, ty

    # ---------------------------------------------------------------- statements
    @staticmethod
    def is_log(st):
        """statements without an effect on the values: logging"""
        if isinstance(st, ast.Expr) and isinstance(st.value, ast.Constant):
            return True
        if isinstance(st, ast.Pass):
            return True
        if isinstance(st, ast.Expr) and isinstance(st.value, ast.Call):
            u = ast.unparse(st.value.func)
            return u.startswith("logger.") or u.startswith("logging.")
        if isinstance(st, ast.If):
            return _VsFn.harmless(st.test) and all(_VsFn.is_log(x) for x in st.body + st.orelse)
        if isinstance(st, ast.For):
            return isinstance(st.target, ast.Name) and isinstance(st.iter, ast.Name) and not st.orelse and all(_VsFn.is_log(x) for x in st.body)
        return False

    @staticmethod
    def harmless(e):
        """a test that cannot raise and has no effect: names, constants, `len(name)`, comparisons, and / or / not"""
        if isinstance(e, (ast.Name, ast.Constant)):
            return True
        if isinstance(e, ast.Call):
            return isinstance(e.func, ast.Name) and e.func.id == "len" and len(e.args) == 1 and isinstance(e.args[0], ast.Name) and not e.keywords
        if isinstance(e, ast.Compare):
            return all(isinstance(o, (ast.Eq, ast.NotEq, ast.Lt, ast.LtE, ast.Gt, ast.GtE)) for o in e.ops) and all(
                _VsFn.harmless(x) and not isinstance(x, ast.Name) for x in [e.left] + e.comparators)
        if isinstance(e, ast.BoolOp):
            return all(_VsFn.harmless(x) for x in e.values)
        if isinstance(e, ast.UnaryOp) and isinstance(e.op, ast.Not):
            return _VsFn.harmless(e.operand)
        return False

    @staticmethod
    def terminates(stmts):
        stmts = [s for s in stmts if not _VsFn.is_log(s)]
        if not stmts:
            return False
        l = stmts[-1]
        if isinstance(l, (ast.Return, ast.Raise, ast.Continue)):
            return True
        return isinstance(l, ast.If) and bool(l.orelse) and _VsFn.terminates(l.body) and _VsFn.terminates(l.orelse)

    def assigned(self, stmts, into_loops=True):
        """python names (re)bound by the statements, in first-occurrence order"""
        out = []

        def add(n):
            if n not in out:
                out.append(n)
        for st in stmts:
            if self.is_log(st):
                continue
            if isinstance(st, ast.Assign) and len(st.targets) == 1:
                t = st.targets[0]
                if isinstance(t, ast.Name):
                    add(t.id)
                elif isinstance(t, ast.Subscript) and isinstance(t.value, ast.Name):
                    add(t.value.id)
                else:
                    raise Untranslatable("assignment target %s" % ast.unparse(t))
            elif isinstance(st, ast.AugAssign) and isinstance(st.target, ast.Name):
                add(st.target.id)
            elif isinstance(st, ast.Expr) and isinstance(st.value, ast.Call):
                f = st.value.func
                if isinstance(f, ast.Attribute) and f.attr in ("sort", "extend", "append") and isinstance(f.value, ast.Name):
                    add(f.value.id)
                elif isinstance(f, ast.Name) and f.id == "print":
                    add("out")
            elif isinstance(st, ast.If):
                for n in self.assigned(st.body, into_loops) + self.assigned(st.orelse, into_loops):
                    add(n)
            elif isinstance(st, ast.For):
                if into_loops:
                    for n in self.assigned(st.body):
                        add(n)
            elif isinstance(st, ast.Try):
                for n in self.assigned(st.body, into_loops) + sum((self.assigned(h.body, into_loops) for h in st.handlers), []):
                    add(n)
        return out

    def inplace(self, n):
        if n in self.aliased:
            raise Untranslatable("in-place change of %s, which may be shared" % n)

    def emit_binds(self, binds, pad):
        return ["%slet %s ← %s" % (pad, t, m) for t, m in binds]

    def tuple_of(self, names):
        names = [_vs_name(n) for n in names]
        return names[0] if len(names) == 1 else "(" + ", ".join(names) + ")"

    def unpack(self, src, names, pad):
        if len(names) == 1:
            return []
        out = []
        for i, n in enumerate(names):
            proj = ".2" * i + (".1" if i < len(names) - 1 else "")
            out.append("%slet %s := %s%s" % (pad, _vs_name(n), src, proj))
        return out

    def bind_var(self, env, name, ty, what):
        if env.has(name):
            env.set(name, _vs_unify(env.items[name], ty, what))
        else:
            if ty is None or (not isinstance(ty, str) and None in ty[1:]):
                raise Untranslatable("%s: the type of the empty container is not declared" % what)
            env.set(name, ty)

    def blk(self, stmts, env, ind, tail):
        """lines of a `do` block for the statements; `tail(env, pad)` gives the lines that end a block which falls through"""
        pad = " " * ind
        stmts = list(stmts)
        while stmts and self.is_log(stmts[0]):
            stmts = stmts[1:]
        if not stmts:
            return tail(env, pad)
        st, rest = stmts[0], stmts[1:]
        u = ast.unparse(st)
        if isinstance(st, ast.Continue):
            return tail(env, pad)
        if isinstance(st, ast.Return):
            if self.ret is None or st.value is None:
                raise Untranslatable("return in a fragment")
            b, t, ty = self.ex(st.value, env)
            _vs_unify(self.ret, ty, "returned value")
            return self.emit_binds(b, pad) + ["%spure %s" % (pad, t)]
        if isinstance(st, ast.Raise):
            c = st.exc
            if (isinstance(c, ast.Call) and ast.unparse(c.func) == "CommandLineError" and len(c.args) == 1 and not c.keywords
                    and isinstance(c.args[0], ast.Constant) and isinstance(c.args[0].value, str)):
                return ["%sthrow (.commandLineError %s)" % (pad, _vs_str(c.args[0].value))]
            raise Untranslatable("raise: %s" % u[:60])
        if isinstance(st, ast.Assert):
            if st.msg is not None:
                raise Untranslatable("assert with a message")
            b, t, ty = self.ex(st.test, env)
            return self.emit_binds(b, pad) + ["%spyAssert %s" % (pad, self.coerce_bool(t, ty))] + self.blk(rest, env, ind, tail)
        if isinstance(st, ast.Assign) and len(st.targets) == 1:
            tg = st.targets[0]
            if isinstance(tg, ast.Name):
                # the handle of the input file
                if self.externals and isinstance(st.value, ast.Call) and ast.unparse(st.value) == "GAF(gaf_path)":
                    self.handle = tg.id
                    return self.blk(rest, env, ind, tail)
                b, t, ty = self.ex(st.value, env)
                name = tg.id
                self.aliased.discard(name)
                if isinstance(st.value, (ast.Name, ast.Subscript, ast.Attribute)):
                    self.aliased.add(name)
                    if isinstance(st.value, ast.Name):
                        self.aliased.add(st.value.id)
                lines = self.emit_binds(b, pad)
                if not isinstance(ty, str) and None in ty[1:]:
                    declared = env.items.get(name) or self.empties.get(name)
                    if declared is None:
                        raise Untranslatable("%s starts as an empty container of undeclared type" % name)
                    ty = _vs_unify(declared, ty, "initial value of " + name)
                    self.bind_var(env, name, ty, "assignment to " + name)
                    lines.append("%slet %s : %s := %s" % (pad, _vs_name(name), _vs_ty(ty), t))
                else:
                    if ty == "IntLit":
                        raise Untranslatable("integer constant assigned to %s" % name)
                    self.bind_var(env, name, ty, "assignment to " + name)
                    lines.append("%slet %s := %s" % (pad, _vs_name(name), t))
                return lines + self.blk(rest, env, ind, tail)
            if isinstance(tg, ast.Subscript) and isinstance(tg.value, ast.Name):
                d = tg.value.id
                dty = env.get(d)
                if isinstance(dty, str) or dty[0] != "Dict":
                    raise Untranslatable("item assignment to a %r" % (dty,))
                kb, k, kt = self.ex(tg.slice, env)
                vb, v, vt = self.ex(st.value, env)
                _vs_unify(dty[2], vt, "value stored in " + d)
                self.inplace(d)
                for n in ast.walk(st.value):
                    if isinstance(n, ast.Name):
                        self.aliased.add(n.id)
                return (self.emit_binds(kb + vb, pad) + ["%slet %s := dictSet %s %s %s" % (pad, _vs_name(d), _vs_name(d), self.key_as(k, kt, dty[1]), v)]
                        + self.blk(rest, env, ind, tail))
            raise Untranslatable("assignment %s" % u[:60])
        if isinstance(st, ast.AugAssign) and isinstance(st.target, ast.Name) and isinstance(st.op, ast.BitOr):
            n = st.target.id
            self.inplace(n)
            nty = env.get(n)
            b, t, ty = self.ex(st.value, env)
            if isinstance(nty, str) or nty[0] != "List" or not (isinstance(st.value, ast.Call) and ast.unparse(st.value.func) == "set"):
                raise Untranslatable("|= : %s" % u[:60])
            _vs_unify(nty, ty, "|= on " + n)
            return self.emit_binds(b, pad) + ["%slet %s := setUnion %s %s" % (pad, _vs_name(n), _vs_name(n), t)] + self.blk(rest, env, ind, tail)
        if isinstance(st, ast.Expr) and isinstance(st.value, ast.Call):
            c = st.value
            f = c.func
            kws = {k.arg: k.value for k in c.keywords}
            if self.externals and self.handle and ast.unparse(c) == "%s.close()" % self.handle:
                return self.blk(rest, env, ind, tail)
            if isinstance(f, ast.Attribute) and isinstance(f.value, ast.Name) and f.attr == "sort" and not c.args and set(kws) <= {"key"}:
                n = f.value.id
                self.inplace(n)
                nty = env.get(n)
                if isinstance(nty, str) or nty[0] != "List":
                    raise Untranslatable("sort of a %r" % (nty,))
                k = self.sort_key(kws.get("key"), nty[1], env, "sort")
                t = self.fresh()
                return (["%slet %s ← pySortedBy %s %s" % (pad, t, k, _vs_name(n)), "%slet %s := %s" % (pad, _vs_name(n), t)]
                        + self.blk(rest, env, ind, tail))
            if isinstance(f, ast.Attribute) and isinstance(f.value, ast.Name) and f.attr == "extend" and len(c.args) == 1 and not kws:
                n = f.value.id
                self.inplace(n)
                nty = env.get(n)
                b, t, ty = self.ex(c.args[0], env)
                _vs_unify(nty, ty, "extend of " + n)
                return self.emit_binds(b, pad) + ["%slet %s := %s ++ %s" % (pad, _vs_name(n), _vs_name(n), t)] + self.blk(rest, env, ind, tail)
            if self.externals and isinstance(f, ast.Name) and f.id == "print" and len(c.args) == 1 and list(kws) == ["file"] and ast.unparse(kws["file"]) == "writer":
                b, t, ty = self.ex(c.args[0], env)
                if ty == REC_:
                    env.get("strOf")
                    t = "(strOf %s)" % t
                elif ty != OUT_:
                    raise Untranslatable("print of a %r" % (ty,))
                env.get("out")
                return self.emit_binds(b, pad) + ["%slet out := out ++ [%s]" % (pad, t)] + self.blk(rest, env, ind, tail)
            raise Untranslatable("statement %s" % u[:60])
        if isinstance(st, ast.For):
            return self.for_loop(st, rest, env, ind, tail)
        if isinstance(st, ast.If):
            return self.if_stmt(st, rest, env, ind, tail)
        if isinstance(st, ast.Try):
            return self.try_stmt(st, rest, env, ind, tail)
        raise Untranslatable("statement %s" % u[:60])

    def join(self, branches, rest, env, ind, tail, head):
        """branches: list of (header line, statements, pre) that all fall through; `pre` = None or (name, type, lean term): a variable
        bound at the start of the branch.  The variables the branches rebind are joined."""
        pad = " " * ind
        per = [([pre[0]] if pre else []) + [n for n in self.assigned(body) if not (pre and n == pre[0])] for _, body, pre in branches]
        top = [([pre[0]] if pre else []) + self.assigned(body, into_loops=False) for _, body, pre in branches]
        names = []
        for a in per:
            for n in a:
                if n not in names and (env.has(n) or all(n in x for x in top)):
                    names.append(n)
        if not names:
            raise Untranslatable("a branch statement without an effect")
        if len(names) == 1:
            tmp = _vs_name(names[0])
        else:
            self.joins += 1
            tmp = "jn%d" % self.joins
        lines = ["%slet %s ← (%s" % (pad, tmp, head)]
        envs = []
        for hdr, body, pre in branches:
            benv = env.child()

            def btail(e, p, names=names):
                for n in names:
                    e.get(n)
                return ["%spure %s" % (p, self.tuple_of(names))]
            lines.append("%s  %s" % (pad, hdr))
            if pre:
                self.aliased.add(pre[0])
                self.bind_var(benv, pre[0], pre[1], "assignment to " + pre[0])
                lines.append("%s    let %s := %s" % (pad, _vs_name(pre[0]), pre[2]))
            lines += self.blk(body, benv, ind + 4, btail)
            envs.append(benv)
        lines[-1] += ")"
        for n in names:
            ty = None
            for be in envs:
                if not be.has(n):
                    raise Untranslatable("%s is not defined on every path" % n)
                ty = _vs_unify(ty, be.items[n], "joined variable " + n) if ty is not None else be.items[n]
            self.bind_var(env, n, ty, "joined variable " + n)
        lines += self.unpack(tmp, names, pad)
        return lines + self.blk(rest, env, ind, tail)

    def if_stmt(self, st, rest, env, ind, tail):
        pad = " " * ind
        b, t, ty = self.ex(st.test, env)
        cond = self.coerce_bool(t, ty)
        lines = self.emit_binds(b, pad)
        if self.terminates(st.body) or self.terminates(st.orelse):
            e1, e2 = env.child(), env.child()
            then = self.blk(st.body if self.terminates(st.body) else st.body + rest, e1, ind + 2, tail)
            els = self.blk(st.orelse if self.terminates(st.orelse) else st.orelse + rest, e2, ind + 2, tail)
            return lines + ["%sif %s then" % (pad, cond)] + then + ["%selse" % pad] + els
        return lines + self.join([("then do", st.body, None), ("else do", st.orelse, None)], rest, env, ind, tail, "if %s" % cond)

    def try_stmt(self, st, rest, env, ind, tail):
        ok = (len(st.body) == 1 and isinstance(st.body[0], ast.Assign) and len(st.body[0].targets) == 1 and isinstance(st.body[0].targets[0], ast.Name)
              and isinstance(st.body[0].value, ast.Subscript) and isinstance(st.body[0].value.value, ast.Name)
              and len(st.handlers) == 1 and st.handlers[0].name is None and st.handlers[0].type is not None
              and ast.unparse(st.handlers[0].type) == "KeyError" and not st.orelse and not st.finalbody)
        if not ok:
            raise Untranslatable("try statement is not `v = d[k]` guarded by `except KeyError`")
        sub = st.body[0].value
        dty = env.get(sub.value.id)
        if isinstance(dty, str) or dty[0] != "Dict":
            raise Untranslatable("try: lookup in a %r" % (dty,))
        kb, k, kt = self.ex(sub.slice, env)
        if kb:
            raise Untranslatable("try: the key may raise")
        if self.terminates(st.handlers[0].body):
            raise Untranslatable("try: handler does not fall through")
        t = self.fresh()
        return self.join([("| some %s => do" % t, [], (st.body[0].targets[0].id, dty[2], t)), ("| none => do", st.handlers[0].body, None)], rest, env, ind, tail,
                         "match dictGet? %s %s with" % (_vs_name(sub.value.id), self.key_as(k, kt, dty[1])))

    def for_loop(self, st, rest, env, ind, tail):
        pad = " " * ind
        if st.orelse or not isinstance(st.target, ast.Name):
            raise Untranslatable("for statement: %s" % ast.unparse(st)[:60])
        for n in ast.walk(st):
            if isinstance(n, (ast.Break, ast.Return)):
                raise Untranslatable("break / return inside a loop")
        b, it, ity = self.ex(st.iter, env)
        if isinstance(ity, str) or ity[0] != "List":
            raise Untranslatable("loop over a %r" % (ity,))
        state = [n for n in self.assigned(st.body) if env.has(n)]
        if not state:
            raise Untranslatable("loop without an effect on the variables of the fragment")
        self.loops += 1
        lname = "%s_loop%d" % (self.lean, self.loops)
        v = st.target.id
        if env.has(v):
            raise Untranslatable("loop variable %s shadows a variable" % v)
        inner = _VsEnv(env.items, set())
        inner.set(v, ity[1])
        saved_tmp, self.tmp = self.tmp, 0

        def ltail(e, p):
            for n in state:
                e.get(n)
            return ["%spure %s" % (p, self.tuple_of(state))]
        body = self.blk(st.body, inner, 2, ltail)
        self.tmp = saved_tmp
        free = [n for n in env.items if n in inner.used and n not in state]
        for n in free:
            env.used.add(n)
        for n in state:
            env.used.add(n)
        st_ty = env.items[state[0]] if len(state) == 1 else ("Tuple", [env.items[n] for n in state])
        sig_types = [env.items[n] for n in free] + [st_ty, ity[1]]
        tparams = "".join(" {%s : Type}" % tp for tp in (REC_, OUT_) if any(_vs_mentions(t, tp) for t in sig_types))
        params = "".join(" (%s : %s)" % (_vs_name(n), _vs_ty(env.items[n])) for n in free)
        head = ["def %s%s%s (st : %s) (%s : %s) : M %s := do" % (lname, tparams, params, _vs_ty(st_ty), _vs_name(v), _vs_ty(ity[1]), _vs_ty(st_ty))]
        if len(state) == 1:
            head.append("  let %s := st" % self.tuple_of(state))
        else:
            head += self.unpack("st", state, "  ")
        self.unit.defs.append("/-- the body of `for %s in %s` in `%s` -/\n" % (v, ast.unparse(st.iter), self.pyname) + "\n".join(head + body))
        args = "".join(" " + _vs_name(n) for n in free)
        lines = self.emit_binds(b, pad)
        if len(state) == 1:
            s = self.tuple_of(state)
            lines.append("%slet %s ← %s.foldlM (%s%s) %s" % (pad, s, it, lname, args, s))
        else:
            lines.append("%slet st ← %s.foldlM (%s%s) %s" % (pad, it, lname, args, self.tuple_of(state)))
            lines += self.unpack("st", state, pad)
        return lines + self.blk(rest, env, ind, tail)


class _VsUnit:
    def __init__(self):
        self.sigs = {}         # python function name -> ([(param, type)], return type)
        self.lean_names = {}
        self.defs = []


def gen_view_sel():
    _, src = src_of("gaftools/cli/view.py")
    mod = ast.parse(src)
    unit = _VsUnit()
    KEYS = _vs_D(IK_, _vs_L(NAT_))       # the pickled index: node key | "ref_contig" -> offsets (the contig names under "ref_contig" are never read)

    def plain_function(pyname, ptypes, ret, empties, doc):
        fn = find_func(mod, pyname)
        a = fn.args
        if a.vararg or a.kwarg or a.kwonlyargs or a.defaults or a.posonlyargs or len(a.args) != len(ptypes):
            raise Untranslatable("signature of %s" % pyname)
        params = [(x.arg, t) for x, t in zip(a.args, ptypes)]
        tr = _VsFn(unit, pyname, _vs_name(pyname), ret, empties, {})
        env = _VsEnv()
        for n, t in params:
            env.set(n, t)
            tr.aliased.add(n)

        def tail(e, p):
            raise Untranslatable("%s can fall off its end" % pyname)
        body = tr.blk(fn.body, env, 2, tail)
        unit.defs.append("/-- %s -/\ndef %s%s : M %s := do\n%s" % (doc, _vs_name(pyname), "".join(" (%s : %s)" % (_vs_name(n), _vs_ty(t)) for n, t in params),
                                                                  _vs_ty(ret), "\n".join(body)))
        unit.sigs[pyname] = (params, ret)
        unit.lean_names[pyname] = _vs_name(pyname)

    # search(node, node_list): node = [contig, start, end] as strings, node_list = keys of the index
    plain_function("search", [_vs_L(S_), _vs_L(IK_)], _vs_L(IK_), {}, "`view.search`")
    # get_unstable(regions, index)
    plain_function("get_unstable", [_vs_L(S_), KEYS], _vs_L(ATOM_), {"node_dict": _vs_D(S_, _vs_L(IK_)), "result": _vs_L(ATOM_)}, "`view.get_unstable`")

    # ---- run: the branch that selects by nodes / regions, from the statement after the index is unpickled
    fn = find_func(mod, "run")
    pnames = [x.arg for x in fn.args.args]
    for need in ("nodes", "regions", "format", "gaf_path"):
        if need not in pnames:
            raise Untranslatable("run has no parameter %s" % need)
    sel = None
    for st in fn.body:
        if isinstance(st, ast.If):
            for i, x in enumerate(st.body):
                if (isinstance(x, ast.With) and len(x.body) == 1 and isinstance(x.body[0], ast.Assign) and len(x.body[0].targets) == 1
                        and isinstance(x.body[0].targets[0], ast.Name) and ast.unparse(x.body[0].value).startswith("pickle.load(")):
                    if sel is not None:
                        raise Untranslatable("two places unpickle an index")
                    sel = (st, i, x.body[0].targets[0].id)
    if sel is None:
        raise Untranslatable("the branch of run that unpickles the index was not found")
    sel_if, at, ind_var = sel
    for x in sel_if.body[:at]:
        # what precedes is the choice of the index path (modelled in Cli.viewHead); it must not touch the selection's inputs
        for n in ast.walk(x):
            if isinstance(n, ast.Name) and isinstance(n.ctx, ast.Store) and n.id in ("nodes", "regions", "format"):
                raise Untranslatable("nodes / regions / format rebound before the index is read")
    tr = _VsFn(unit, "run", "run", None, {"ind_dict": _vs_D(ATOM_, IK_), "offsets": _vs_L(NAT_)},
               {"readLine": ("MFn", NAT_, REC_), "toStable": ("MFn", REC_, OUT_), "toUnstable": ("MFn", REC_, OUT_), "strOf": ("Fn", REC_, OUT_)})
    env = _VsEnv()
    for n, t in tr.externals.items():
        env.set(n, t)
    env.set("format", ("Opt", S_))
    env.set(ind_var, KEYS)
    env.set("nodes", _vs_L(ATOM_))
    env.set("regions", _vs_L(S_))
    env.set("out", _vs_L(OUT_))
    tr.aliased |= {ind_var, "nodes", "regions"}
    # the guard of the branch
    genv = _VsEnv({"nodes": _vs_L(ATOM_), "regions": _vs_L(S_)})
    gb, gt, gty = tr.ex(sel_if.test, genv)
    if gb:
        raise Untranslatable("the guard of the selecting branch may raise")
    tr.tmp = 0

    def rtail(e, p):
        return ["%spure out" % p]
    body = tr.blk(sel_if.body[at + 1:], env, 2, rtail)
    unit.defs.append("/-- `view.run` is in the branch that selects by nodes / regions -/\ndef selecting (nodes : %s) (regions : %s) : Bool := %s"
                     % (_vs_ty(_vs_L(ATOM_)), _vs_ty(_vs_L(S_)), tr.coerce_bool(gt, gty)))
    unit.defs.append("/-- `view.run`, the selecting branch from the statement after the index is unpickled (`%s`) to its end; the result is\n"
                     "    what has been printed to `writer` (`readLine` = `GAF.read_line`, `toStable` / `toUnstable` = the conversions with the tables\n"
                     "    built in the head of `run`, `strOf` = `str` of a record) -/\n"
                     "def run {Rec Out : Type} (readLine : Nat → M Rec) (toStable toUnstable : Rec → M Out) (strOf : Rec → Out)\n"
                     "    (format : Option String) (%s : %s) (nodes : %s) (regions : %s) : M (List Out) := do\n"
                     "  let out : List Out := []\n%s" % (ind_var, _vs_name(ind_var), _vs_ty(KEYS), _vs_ty(_vs_L(ATOM_)), _vs_ty(_vs_L(S_)), "\n".join(body)))
    return ("import Gaftools.Model.View\nimport Gaftools.Model.TextLayer\n"
            "/-! generated by harness/translate.py from gaftools/cli/view.py : `search`, `get_unstable` and the selecting branch of `run`, translated\n"
            "    statement by statement into the exception monad — do not edit -/\n"
            + VIEWSEL_PRELUDE + "\n/-! ### translated from the source -/\n\n" + "\n\n".join(unit.defs) + "\n\nend Gaftools.Gen.ViewSel\n")


GENERATORS["ViewSel"] = gen_view_sel


# ---------------------------------------------------------------------------------------------------------
# index.convert_coord and the record loop of index.run, statement by statement (C03, C04, C05)

_IX_PRELUDE = r"""/-! ## the Python primitives the translation refers to -/

/-- `re.split(p, s)` for a pattern that is an alternation of single characters, every one of them in a capturing group: `sep c` =
    the character is one of them; the separator itself becomes an element of the result (the `None`s of the groups that did not
    take part are not represented: the translator insists on `filter(None, …)` around a pattern with groups).  A pattern without
    groups is `List.splitOnP`. -/
def reSplitAux (sep keep : Char → Bool) : Str → Str → List Str
  | [], cur => [cur.reverse]
  | c :: cs, cur =>
    if sep c then cur.reverse :: ((if keep c then [[c]] else []) ++ reSplitAux sep keep cs [])
    else reSplitAux sep keep cs (c :: cur)
def reSplit (sep keep : Char → Bool) (s : Str) : List Str := reSplitAux sep keep s []

/-- `filter(None, l)` on strings: the empty ones go -/
def filterNone (l : List Str) : List Str := l.filter (fun t => !t.isEmpty)

/-- `l[a:b]` with Python's treatment of negative and out-of-range bounds -/
def pySlice {α : Type} (l : List α) (a b : Int) : List α :=
  let n : Int := l.length
  let a' : Int := if a < 0 then max (a + n) 0 else min a n
  let b' : Int := if b < 0 then max (b + n) 0 else min b n
  (l.drop a'.toNat).take (b' - a').toNat

/-- `x, y = l` (anything but two elements: ValueError) -/
def unpack2 {α : Type} : List α → Option (α × α)
  | [x, y] => some (x, y)
  | _ => none

/-- the dictionary `out_dict` (insertion ordered): membership, `d[k].append(v)` for a present key, `d[k] = v` -/
abbrev Idx := List (Key × List Nat)
def dHas (d : Idx) (k : Key) : Bool := d.any (·.1 == k)
def dAppend (d : Idx) (k : Key) (v : Nat) : Idx := d.map (fun e => if e.1 == k then (e.1, e.2 ++ [v]) else e)
def dSet (d : Idx) (k : Key) (v : List Nat) : Idx :=
  if dHas d k then d.map (fun e => if e.1 == k then (e.1, v) else e) else d ++ [(k, v)]

/-- the GAF being read: `tell()` = `pos` (a record is identified by its ordinal), `readline()` takes the head of `rest`
    (`none` = the empty string at the end of the file) and advances `pos` -/
structure GafFile where
  pos : Nat
  rest : List Str

/-- `while True:` with a body that says whether to go on (`false` = `break`); `none` = an exception (or out of fuel) -/
def whileTrue {σ : Type} (body : σ → Option (Bool × σ)) : Nat → σ → Option σ
  | 0, _ => none
  | fuel + 1, s =>
    match body s with
    | none => none
    | some (false, s') => some s'
    | some (true, s') => whileTrue body fuel s'
"""

_IX_RESERVED = {
    "end", "from", "fun", "at", "open", "in", "let", "do", "then", "else", "if", "match", "with", "where", "have", "show", "by", "local",
    "section", "namespace", "instance", "class", "structure", "def", "theorem", "example", "variable", "universe", "import", "export",
    "mutual", "private", "protected", "partial", "unsafe", "noncomputable", "deriving", "extends", "for", "return", "mut", "break",
    "continue", "try", "catch", "finally", "throw", "unless", "using", "calc", "nomatch", "nofun", "true", "false", "some", "none", "id",
    "rstrip", "splitOnChar", "splitTab", "toInt", "toNat", "pySlice", "unpack2", "filterNone", "reSplit", "reSplitAux", "dHas", "dAppend",
    "dSet", "whileTrue", "window", "searchIv", "convertCoord", "max", "min", "not", "and", "or", "s", "k", "fuel", "onKeyError", "c", "kv",
    "String", "List", "Option", "Nat", "Int", "Bool", "Unit", "Prod", "Char", "Gaftools", "Str", "Idx", "Key", "Seg", "NodeInfo", "GafFile",
    "RunSt", "run", "run_while", "run_ref_contig",
}       # a Python variable of one of these names gets a `_` appended: as a Lean local it would shadow something the translation uses

_IX_SHOW = {"Ref": "String → List Seg", "Nodes": "String → Option NodeInfo"}


def _ix_ty(t):
    return _IX_SHOW.get(t, t)


def _ix_chars(v):
    def ch(c):
        if c == "'":
            return "'\\''"
        if c == "\\":
            return "'\\\\'"
        if c == "\t":
            return "'\\t'"
        if c == "\n":
            return "'\\n'"
        if not (32 <= ord(c) < 127):
            raise Untranslatable("non-ASCII / control character in a string constant")
        return "'%s'" % c
    return "[" + ", ".join(ch(c) for c in v) + "]"


class _IxFn:
    """one Python function (or region of one) -> Lean definitions; loop bodies become auxiliary definitions"""

    def __init__(self, owner, fname):
        self.owner = owner            # shared: list of emitted definitions, known translated functions
        self.fname = fname
        self.nloop = 0
        self.ntmp = 0

    @staticmethod
    def lean_name(n):
        if (not re.fullmatch(r"[A-Za-z_][A-Za-z0-9_]*", n) or re.fullmatch(r"v\d+", n) or n.endswith("_int") or n.endswith("_")
                or re.fullmatch(r"\w+_for\d+", n)):
            raise Untranslatable("variable name %s" % n)
        return n + "_" if n in _IX_RESERVED else n


class _IxCtx:
    """state of the translation of one definition body"""

    def __init__(self, fn, env, rtype, cache=None):
        self.fn = fn
        self.env = list(env)          # [(py, lean, type)]; the first `outer_n` entries belong to the enclosing definition
        self.outer_n = len(self.env)
        self.rtype = rtype            # Lean type of the definition's result
        self.binds = []               # pending [(var, text, kind)] of the statement being translated
        self.cache = dict(cache or {})  # unparsed pure fallible expression -> (lean var, type, names it depends on)
        self.used = set()             # Lean names of the enclosing definition this body reads (shared by the forks)
        self.flags = {"fallible": False, "fuel": False}   # shared by the forks
        self.extras = []              # out_dict["…"] = name after the loop

    def fork(self):
        c = _IxCtx(self.fn, self.env, self.rtype, self.cache)
        c.outer_n = self.outer_n
        c.used = self.used
        c.flags = self.flags
        c.extras = list(self.extras)
        return c

    @property
    def fallible(self):
        return self.flags["fallible"]

    def mark_used(self, lean):
        idx = max(i for i, (_, l, _) in enumerate(self.env) if l == lean)
        if idx < self.outer_n:
            self.used.add(lean)

    def lookup(self, n):
        for py, lean, ty in reversed(self.env):
            if py == n:
                self.mark_used(lean)
                return lean, ty
        raise Untranslatable("unknown variable %s" % n)

    def has(self, n):
        return any(py == n for py, _, _ in self.env)

    def define(self, n, ty):
        lean = _IxFn.lean_name(n)
        self.env.append((n, lean, ty))
        for k in [k for k, v in self.cache.items() if n in v[2]]:
            del self.cache[k]
        return lean

    def tmp(self):
        self.fn.ntmp += 1
        return "v%d" % self.fn.ntmp

    def bind(self, text, ty, kind, key=None, deps=(), name=None):
        if key is not None and key in self.cache:
            v, t, _ = self.cache[key]
            self.mark_used(v)
            return v, t
        v = name or self.tmp()
        self.binds.append((v, text, kind))
        self.flags["fallible"] = True
        if key is not None:
            self.cache[key] = (v, ty, set(deps))
            self.env.append(("", v, ty))          # a derived Lean-only variable (it can be passed on to a loop body)
        return v, ty

    # ---- expressions ------------------------------------------------------------------------------------
    def tag_read(self, e):
        """X.tags["SO"|"LN"|"SN"][1] -> (lean of X, type of X, tag) or None"""
        if (isinstance(e, ast.Subscript) and isinstance(e.slice, ast.Constant) and e.slice.value == 1 and isinstance(e.value, ast.Subscript)
                and isinstance(e.value.slice, ast.Constant) and isinstance(e.value.slice.value, str)
                and isinstance(e.value.value, ast.Attribute) and e.value.value.attr == "tags"):
            x, tx = self.ex(e.value.value.value)
            if tx not in ("Seg", "NodeInfo"):
                raise Untranslatable("tags of a %s" % tx)
            return x, tx, e.value.slice.value
        return None

    def ex(self, e):
        """-> (lean text, type); fallible parts are appended to self.binds in evaluation order"""
        if isinstance(e, ast.Name):
            return self.lookup(e.id)
        if isinstance(e, ast.Constant):
            if isinstance(e.value, bool):
                return ("true" if e.value else "false"), "Bool"
            if isinstance(e.value, int):
                return "(%d : Int)" % e.value, "Int"
            if isinstance(e.value, str):
                return _ix_chars(e.value), "Str"
            raise Untranslatable("constant %r" % (e.value,))
        if isinstance(e, ast.UnaryOp) and isinstance(e.op, ast.USub) and isinstance(e.operand, ast.Constant) and isinstance(e.operand.value, int):
            return "(-%d : Int)" % e.operand.value, "Int"
        if isinstance(e, ast.UnaryOp) and isinstance(e.op, ast.Not):
            x, t = self.ex(e.operand)
            if t == "Bool":
                return "(!%s)" % x, "Bool"
            if t == "Prop":
                return "(¬ %s)" % x, "Prop"
            if t == "Option Str":
                return "%s.isNone" % x, "Bool"
            raise Untranslatable("not of a %s" % t)
        if isinstance(e, ast.BoolOp):
            parts = [self.ex(v) for v in e.values]
            for _, t in parts:
                if t not in ("Bool", "Prop"):
                    raise Untranslatable("truth value of a %s" % t)
            if all(t == "Bool" for _, t in parts):
                return "(" + (" && " if isinstance(e.op, ast.And) else " || ").join(x for x, _ in parts) + ")", "Bool"
            ps = [x if t == "Prop" else "(%s = true)" % x for x, t in parts]
            return "(" + (" ∧ " if isinstance(e.op, ast.And) else " ∨ ").join(ps) + ")", "Prop"
        if isinstance(e, ast.Compare):
            if len(e.ops) > 1:
                vals = [e.left] + list(e.comparators)
                parts = [self.ex(ast.Compare(left=vals[i], ops=[e.ops[i]], comparators=[vals[i + 1]])) for i in range(len(e.ops))]
                if all(t == "Prop" for _, t in parts):
                    return "(" + " ∧ ".join(x for x, _ in parts) + ")", "Prop"
                raise Untranslatable("comparison chain " + ast.unparse(e))
            op, l, r = e.ops[0], e.left, e.comparators[0]
            if isinstance(op, (ast.In, ast.NotIn)):
                if isinstance(l, ast.Constant) and isinstance(l.value, str) and len(l.value) == 1:
                    x, t = self.ex(r)
                    if t == "Str":
                        c = "(%s.contains %s)" % (x, _ix_chars(l.value)[1:-1])
                        return (c if isinstance(op, ast.In) else "(!%s)" % c), "Bool"
                raise Untranslatable("membership test " + ast.unparse(e))
            (x, tx), (y, ty) = self.ex(l), self.ex(r)
            if tx != ty:
                raise Untranslatable("comparison of a %s with a %s" % (tx, ty))
            if tx in ("Str", "String") and isinstance(op, (ast.Eq, ast.NotEq)):
                return "(%s %s %s)" % (x, "==" if isinstance(op, ast.Eq) else "!=", y), "Bool"
            if tx in ("Int", "Nat"):
                sym = {ast.Lt: "<", ast.Gt: ">", ast.Eq: "=", ast.LtE: "≤", ast.GtE: "≥", ast.NotEq: "≠"}.get(type(op))
                if sym:
                    return "(%s %s %s)" % (x, sym, y), "Prop"
            raise Untranslatable("comparison " + ast.unparse(e))
        if isinstance(e, ast.BinOp) and isinstance(e.op, (ast.Add, ast.Sub)):
            (x, tx), (y, ty) = self.ex(e.left), self.ex(e.right)
            if tx == ty == "Int":
                return "(%s %s %s)" % (x, "+" if isinstance(e.op, ast.Add) else "-", y), "Int"
            raise Untranslatable("arithmetic on %s, %s" % (tx, ty))
        if isinstance(e, ast.Tuple):
            parts = [self.ex(v) for v in e.elts]
            tys = [t for _, t in parts]
            ty = "Key" if tys == ["String", "String", "Int", "Int"] else "(" + " × ".join(tys) + ")"
            return "(" + ", ".join(x for x, _ in parts) + ")", ty
        if isinstance(e, ast.List) and len(e.elts) == 1:
            x, t = self.ex(e.elts[0])
            return "[%s]" % x, "List " + t
        if isinstance(e, ast.Attribute):
            if e.attr == "id":
                x, t = self.ex(e.value)
                if t in ("Seg", "NodeInfo"):
                    return "%s.id" % x, "String"
            raise Untranslatable("attribute " + ast.unparse(e))
        if isinstance(e, ast.Subscript):
            tr = self.tag_read(e)
            if tr is not None:
                x, tx, tag = tr
                if tag == "SN" and tx == "NodeInfo":
                    return "%s.sn" % x, "String"
                raise Untranslatable("tag value used as text: " + ast.unparse(e))
            x, t = self.ex(e.value)
            if isinstance(e.slice, ast.Slice):
                if e.slice.step is not None or not t.startswith("List "):
                    raise Untranslatable("slice " + ast.unparse(e))
                lo, hi = e.slice.lower, e.slice.upper
                if hi is None and isinstance(lo, ast.Constant) and isinstance(lo.value, int) and lo.value >= 0:
                    return "(%s.drop %d)" % (x, lo.value), t
                if lo is not None and hi is not None:
                    (a, ta), (b, tb) = self.ex(lo), self.ex(hi)
                    if ta == tb == "Int":
                        return "(pySlice %s %s %s)" % (x, a, b), t
                raise Untranslatable("slice " + ast.unparse(e))
            if t == "List Str" and isinstance(e.slice, ast.Constant) and isinstance(e.slice.value, int) and e.slice.value >= 0:
                return self.bind("(%s[%d]?)" % (x, e.slice.value), "Str", "IndexError")
            if t == "Ref":
                k, tk = self.ex(e.slice)
                if tk == "Str":
                    return "(%s (String.ofList %s))" % (x, k), "List Seg"
                if tk == "String":
                    return "(%s %s)" % (x, k), "List Seg"
            if t == "Nodes":
                k, tk = self.ex(e.slice)
                if tk == "String":
                    return self.bind("(%s %s)" % (x, k), "NodeInfo", "KeyError", key=ast.unparse(e), deps=_ix_names(e))
            raise Untranslatable("subscript " + ast.unparse(e))
        if isinstance(e, ast.Call):
            return self.call(e)
        raise Untranslatable("expression " + ast.unparse(e)[:80])

    def call(self, e):
        if e.keywords:
            raise Untranslatable("keyword arguments: " + ast.unparse(e)[:60])
        f, a = e.func, e.args
        fu = ast.unparse(f)
        if fu == "int" and len(a) == 1:
            tr = self.tag_read(a[0])
            if tr is not None:
                x, tx, tag = tr
                if tag == "SO":
                    return "%s.so" % x, "Int"
                if tag == "LN":
                    return "(%s.en - %s.so)" % (x, x), "Int"
                raise Untranslatable("int of tag " + tag)
            if isinstance(a[0], ast.Name):
                if ast.unparse(e) in self.cache:                      # already converted, and the variable has not been assigned since
                    return self.bind("", "Int", "ValueError", key=ast.unparse(e))
                x, t = self.ex(a[0])
                if t == "Str":
                    return self.bind("(toInt %s)" % x, "Int", "ValueError", key=ast.unparse(e), deps={a[0].id}, name=x + "_int")
            raise Untranslatable("int() of " + ast.unparse(a[0])[:60])
        if fu == "len" and len(a) == 1:
            x, t = self.ex(a[0])
            if t.startswith("List "):
                return "(%s.length : Int)" % x, "Int"
            raise Untranslatable("len of a %s" % t)
        if fu == "list" and len(a) == 1:
            x, t = self.ex(a[0])
            if t.startswith("List "):
                return x, t
            raise Untranslatable("list() of a %s" % t)
        if fu == "filter" and len(a) == 2 and isinstance(a[0], ast.Constant) and a[0].value is None:
            x, t = self.ex(a[1])
            if t in ("List Str", "ReSplit"):
                return "(filterNone %s)" % x, "List Str"
            raise Untranslatable("filter(None, …) of a %s" % t)
        if fu == "re.split" and len(a) == 2 and isinstance(a[0], ast.Constant) and isinstance(a[0].value, str):
            x, t = self.ex(a[1])
            if t != "Str":
                raise Untranslatable("re.split of a %s" % t)
            alts = a[0].value.split("|")
            grouped = [re.fullmatch(r"\((.)\)", p) for p in alts]
            plain = [re.fullmatch(r"(.)", p) for p in alts]
            special = set(".^$*+?{}[]\\|()")
            if all(grouped):
                cs = [m.group(1) for m in grouped]
            elif all(plain):
                cs = [m.group(1) for m in plain]
            else:
                raise Untranslatable("regular expression %r" % a[0].value)
            if any(c in special for c in cs):
                raise Untranslatable("regular expression %r" % a[0].value)
            pred = "(fun c => " + " || ".join("c == %s" % _ix_chars(c)[1:-1] for c in cs) + ")"
            if all(grouped):
                return "(reSplit %s %s %s)" % (pred, pred, x), "ReSplit"        # must go through filter(None, …)
            return "(%s.splitOnP %s)" % (x, pred), "List Str"
        if isinstance(f, ast.Attribute):
            m = f.attr
            if m == "rstrip" and not a:
                x, t = self.ex(f.value)
                if t == "Str":
                    return "(rstrip %s)" % x, "Str"
            if m == "split" and len(a) == 1 and isinstance(a[0], ast.Constant) and isinstance(a[0].value, str) and len(a[0].value) == 1:
                x, t = self.ex(f.value)
                if t == "Str":
                    return "(splitOnChar %s %s)" % (_ix_chars(a[0].value)[1:-1], x), "List Str"
            if m == "tell" and not a:
                x, t = self.ex(f.value)
                if t == "GafFile":
                    return "%s.pos" % x, "Nat"
            if fu in ("utils.search_intervals", "search_intervals") and len(a) == 5:
                parts = [self.ex(v) for v in a]
                if [t for _, t in parts] == ["List Seg", "Int", "Int", "Int", "Int"]:
                    iv = parts[0][0]
                    return self.bind("(Gaftools.Gen.searchIv %s %s %s (%s.length + 2) %s %s)" % (
                        iv, parts[1][0], parts[2][0], iv, parts[3][0], parts[4][0]), "(Int × Int)", "IndexError")
            raise Untranslatable("call " + ast.unparse(e)[:70])
        if isinstance(f, ast.Name) and f.id in self.fn.owner.known:
            name, ptys, rty, fallible = self.fn.owner.known[f.id]
            parts = [self.ex(v) for v in a]
            if [t for _, t in parts] != ptys:
                raise Untranslatable("arguments of %s: %s" % (f.id, [t for _, t in parts]))
            text = "(Gaftools.Gen.%s %s)" % (name, " ".join(x for x, _ in parts))
            return self.bind(text, rty, "any") if fallible else (text, rty)
        raise Untranslatable("call " + ast.unparse(e)[:70])

    # ---- statements -------------------------------------------------------------------------------------
    def flush(self, pad, only_kinds=None):
        out = ""
        for v, text, kind in self.binds:
            if only_kinds is not None and kind not in only_kinds:
                raise Untranslatable("a %s inside a handler for %s" % (kind, sorted(only_kinds)))
            out += "%s%s.bind fun %s =>\n" % (pad, text, v)
        self.binds = []
        return out

    def let(self, pad, n, ty, text):
        lean = self.define(n, ty)
        return "%slet %s : %s := %s\n" % (pad, lean, _ix_ty(ty), text)

    def block(self, stmts, ind, k):
        """k: dict of continuations  fin / cont / brk / ret : ctx -> text"""
        pad = " " * ind
        if not stmts:
            return pad + k["fin"](self)
        st, rest = stmts[0], stmts[1:]
        if isinstance(st, ast.Expr) and isinstance(st.value, ast.Constant):
            return self.block(rest, ind, k)             # a docstring
        if isinstance(st, ast.Pass):
            return self.block(rest, ind, k)
        if isinstance(st, ast.Continue):
            if "cont" not in k:
                raise Untranslatable("continue outside a loop")
            return pad + k["cont"](self)
        if isinstance(st, ast.Break):
            if "brk" not in k:
                raise Untranslatable("break outside a while loop")
            return pad + k["brk"](self)
        if isinstance(st, ast.Return):
            if "ret" not in k or st.value is None:
                raise Untranslatable("return")
            x, t = self.ex(st.value)
            return self.flush(pad) + pad + k["ret"](self, x, t)
        if isinstance(st, ast.With):
            if not (len(st.items) == 1 and st.items[0].optional_vars is None and isinstance(st.items[0].context_expr, ast.Call)
                    and ast.unparse(st.items[0].context_expr.func) == "timers"):
                raise Untranslatable("with " + ast.unparse(st.items[0])[:60])
            return self.block(list(st.body) + rest, ind, k)
        if isinstance(st, ast.If):
            # `if not <line just read>: break` — afterwards the line is a non-empty string
            refine = None
            if (isinstance(st.test, ast.UnaryOp) and isinstance(st.test.op, ast.Not) and isinstance(st.test.operand, ast.Name)
                    and self.has(st.test.operand.id) and self.lookup(st.test.operand.id)[1] == "Option Str"
                    and len(st.body) == 1 and isinstance(st.body[0], ast.Break) and not st.orelse):
                refine = st.test.operand.id
            x, t = self.ex(st.test)
            if t not in ("Bool", "Prop"):
                raise Untranslatable("truth value of a %s" % t)
            pre = self.flush(pad)
            a, b = self.fork(), self.fork()
            then = a.block(list(st.body) + rest, ind + 2, k)
            if refine:
                lean, _ = b.lookup(refine)
                els = b.let(" " * (ind + 2), refine, "Str", "%s.getD []" % lean) + b.block(rest, ind + 2, k)
            else:
                els = b.block(list(st.orelse) + rest, ind + 2, k)
            self.extras = b.extras or a.extras
            return "%s%sif %s then\n%s\n%selse\n%s" % (pre, pad, x, then, pad, els)
        if isinstance(st, ast.Try):
            return self.try_stmt(st, rest, ind, k)
        if isinstance(st, ast.For):
            return self.for_stmt(st, rest, ind, k)
        if isinstance(st, ast.While):
            return self.while_stmt(st, rest, ind, k)
        if isinstance(st, ast.Assign) and len(st.targets) == 1:
            return self.assign(st.targets[0], st.value, ind) + self.block(rest, ind, k)
        if isinstance(st, ast.Expr) and isinstance(st.value, ast.Call) and isinstance(st.value.func, ast.Attribute):
            c = st.value
            if c.func.attr == "append" and len(c.args) == 1 and not c.keywords and isinstance(c.func.value, ast.Name):
                lean, t = self.lookup(c.func.value.id)
                x, tx = self.ex(c.args[0])
                if t != "List " + tx:
                    raise Untranslatable("append of a %s to a %s" % (tx, t))
                out = self.flush(pad)
                return out + self.let(pad, c.func.value.id, t, "%s ++ [%s]" % (lean, x)) + self.block(rest, ind, k)
            if c.func.attr == "close" and not c.args and isinstance(c.func.value, ast.Name) and self.lookup(c.func.value.id)[1] == "GafFile":
                return self.block(rest, ind, k)
        raise Untranslatable("statement " + ast.unparse(st)[:70])

    def assign(self, tgt, val, ind):
        pad = " " * ind
        if isinstance(tgt, ast.Name):
            if isinstance(val, (ast.List, ast.Dict)) and not (val.elts if isinstance(val, ast.List) else val.keys):
                ty = self.fn.owner.empty_hint.get((self.fn.fname, tgt.id))
                if ty is None:
                    raise Untranslatable("the type of the empty container %s is not known" % tgt.id)
                return self.let(pad, tgt.id, ty, "[]")
            if (isinstance(val, ast.Call) and isinstance(val.func, ast.Attribute) and val.func.attr == "readline" and not val.args
                    and isinstance(val.func.value, ast.Name) and self.lookup(val.func.value.id)[1] == "GafFile"):
                f = val.func.value.id
                lf, _ = self.lookup(f)
                out = self.let(pad, tgt.id, "Option Str", "%s.rest.head?" % lf)
                return out + self.let(pad, f, "GafFile", "⟨%s.pos + 1, %s.rest.tail⟩" % (lf, lf))
            x, t = self.ex(val)
            if t in ("ReSplit", "Prop"):
                raise Untranslatable("value of " + ast.unparse(val)[:60])
            if t == "Int" and self.has(tgt.id) and self.lookup(tgt.id)[1] == "Nat":
                raise Untranslatable("integer assigned to the offset variable")
            if isinstance(val, ast.Constant) and isinstance(val.value, int) and val.value >= 0 and self.fn.owner.nat_hint.get((self.fn.fname, tgt.id)):
                x, t = str(val.value), "Nat"
            want = self.fn.owner.var_hint.get((self.fn.fname, tgt.id))
            if want is not None and t != want:
                if (t, want) == ("List Str", "List String"):
                    x, t = "(%s.map String.ofList)" % x, want
                else:
                    raise Untranslatable("%s holds a %s" % (tgt.id, t))
            out = self.flush(pad)
            return out + self.let(pad, tgt.id, t, x)
        if isinstance(tgt, ast.Tuple) and len(tgt.elts) == 2 and all(isinstance(v, ast.Name) for v in tgt.elts):
            x, t = self.ex(val)
            if t == "List Str":
                x, t = self.bind("(unpack2 %s)" % x, "(Str × Str)", "ValueError")
            m = re.fullmatch(r"\((\w+) × (\w+)\)", t)
            if not m:
                raise Untranslatable("unpacking a %s" % t)
            out = self.flush(pad)
            return out + self.let(pad, tgt.elts[0].id, m.group(1), x + ".1") + self.let(pad, tgt.elts[1].id, m.group(2), x + ".2")
        if isinstance(tgt, ast.Subscript) and isinstance(tgt.value, ast.Name) and self.lookup(tgt.value.id)[1] == "Idx":
            d, _ = self.lookup(tgt.value.id)
            if isinstance(tgt.slice, ast.Constant) and isinstance(tgt.slice.value, str):
                x, t = self.ex(val)
                if t != "List String" or not re.fullmatch(r"[A-Za-z_]+", tgt.slice.value):
                    raise Untranslatable("extra entry of the index: " + ast.unparse(tgt))
                self.extras = self.extras + ['("%s", %s)' % (tgt.slice.value, x)]
                return ""
            kx, kt = self.ex(tgt.slice)
            x, t = ("[]", "List Nat") if (isinstance(val, ast.List) and not val.elts) else self.ex(val)
            if kt != "Key" or t != "List Nat":
                raise Untranslatable("assignment to the index: %s (%s) = %s" % (ast.unparse(tgt), kt, t))
            out = self.flush(pad)
            return out + self.let(pad, tgt.value.id, "Idx", "dSet %s %s %s" % (d, kx, x))
        raise Untranslatable("assignment to " + ast.unparse(tgt)[:60])

    def try_stmt(self, st, rest, ind, k):
        pad = " " * ind
        if len(st.handlers) != 1 or st.orelse or st.finalbody or st.handlers[0].name is not None:
            raise Untranslatable("try statement shape")
        h = st.handlers[0]
        exc = ast.unparse(h.type) if h.type is not None else ""
        if exc == "TypeError":
            # try: v = f(line)  except TypeError: v = f(line.decode("utf-8"))   (bytes from a BGZF reader): one assignment
            class Undecode(ast.NodeTransformer):
                def visit_Call(self, node):
                    self.generic_visit(node)
                    if (isinstance(node.func, ast.Attribute) and node.func.attr == "decode" and len(node.args) == 1
                            and isinstance(node.args[0], ast.Constant) and str(node.args[0].value).lower().replace("-", "") == "utf8"):
                        return node.func.value
                    return node
            if len(st.body) != 1 or len(h.body) != 1 or not isinstance(st.body[0], ast.Assign):
                raise Untranslatable("try / except TypeError shape")
            other = Undecode().visit(ast.parse(ast.unparse(h.body[0])).body[0])
            if ast.dump(other) != ast.dump(ast.parse(ast.unparse(st.body[0])).body[0]):
                raise Untranslatable("the TypeError handler is not the same assignment on the decoded line")
            out = self.assign(st.body[0].targets[0], st.body[0].value, ind)
            return out + self.block(rest, ind, k)
        if exc == "KeyError":
            # try: D[K].append(V)   except KeyError: <statements>     (both followed by the rest of the block)
            b = st.body
            if not (len(b) == 1 and isinstance(b[0], ast.Expr) and isinstance(b[0].value, ast.Call) and isinstance(b[0].value.func, ast.Attribute)
                    and b[0].value.func.attr == "append" and len(b[0].value.args) == 1 and not b[0].value.keywords
                    and isinstance(b[0].value.func.value, ast.Subscript) and isinstance(b[0].value.func.value.value, ast.Name)):
                raise Untranslatable("try / except KeyError: the body is not D[key].append(value)")
            dname = b[0].value.func.value.value.id
            d, dt = self.lookup(dname)
            if dt != "Idx":
                raise Untranslatable("append to an entry of a %s" % dt)
            if self.binds:
                raise Untranslatable("pending evaluation before try")
            self.flags["fallible"] = True
            # the handler sees the variables as they were before the try (the append is the last thing the body does)
            hc = self.fork()
            hc.cache = {}
            hbody = hc.block(list(h.body) + rest, ind + 4, k)
            tc = self.fork()
            tc.cache = {}
            kx, kt = tc.ex(b[0].value.func.value.slice)
            nb = len(tc.binds)
            vx, vt = tc.ex(b[0].value.args[0])
            if kt != "Key" or vt != "Nat" or len(tc.binds) != nb:
                raise Untranslatable("entry %s (%s) append %s" % (ast.unparse(b[0].value.func.value), kt, vt))
            keybinds = tc.flush("", only_kinds={"KeyError"}).replace("\n", " ")
            out = "%slet onKeyError : Unit → %s := fun _ =>\n%s\n" % (pad, self.rtype, hbody)
            out += "%smatch (%ssome %s) with\n%s| none => onKeyError ()\n%s| some k =>\n" % (pad, keybinds, kx, pad, pad)
            out += "%s  if dHas %s k then\n" % (pad, d)
            inner = self.fork()
            out += inner.let(pad + "    ", dname, dt, "dAppend %s k %s" % (d, vx))
            out += inner.block(rest, ind + 4, k) + "\n%s  else onKeyError ()" % pad
            return out
        raise Untranslatable("handler for %s" % exc)

    def for_stmt(self, st, rest, ind, k):
        pad = " " * ind
        if st.orelse or not isinstance(st.target, ast.Name):
            raise Untranslatable("for statement shape")
        it, tit = self.ex(st.iter)
        if not tit.startswith("List "):
            raise Untranslatable("loop over a %s" % tit)
        elem = tit[5:]
        carried = [n for n in _ix_mutated(st.body) if self.has(n)]
        if len(carried) != 1:
            raise Untranslatable("loop carrying %s" % carried)
        cname = carried[0]
        if self.has(st.target.id):
            raise Untranslatable("the loop variable %s is also a variable of the enclosing block" % st.target.id)
        clean, cty = self.lookup(cname)
        pre = self.flush(pad)
        own = self.fn.owner
        save = (self.fn.nloop, self.fn.ntmp, len(own.defs), dict(own.aux_memo))

        def rollback():
            self.fn.nloop, self.fn.ntmp = save[0], save[1]
            del own.defs[save[2]:]
            own.aux_memo = dict(save[3])
        body = text = aux = None
        for fallible in (False, True):
            rollback()
            self.fn.nloop += 1
            aux = "%s_for%d" % (own.lean_fn[self.fn.fname], self.fn.nloop)
            rty = ("Option (%s)" if " " in _ix_ty(cty) else "Option %s") % _ix_ty(cty) if fallible else _ix_ty(cty)
            body = _IxCtx(self.fn, self.env, rty, self.cache)
            lv = body.define(st.target.id, elem)

            def fin(c, fallible=fallible):
                if c.lookup(cname)[1] != cty:
                    raise Untranslatable("the type of %s changes in the loop" % cname)
                return ("some %s" if fallible else "%s") % c.lookup(cname)[0]
            text = body.block(list(st.body), 2, {"fin": fin, "cont": fin})
            if body.fallible == fallible:
                break
        else:
            raise Untranslatable("loop body: fallibility")
        params, seen = [], set()
        for _, lean, _ in self.env:
            if lean in body.used and lean != clean and lean not in seen:
                params.append((lean, [t for _, l, t in self.env if l == lean][-1]))
                seen.add(lean)
        for lean, _ in params:
            self.mark_used(lean)
        head = ast.unparse(st).split("\n")[0].rstrip(":").replace("-/", "- /")
        sig = "%s(%s : %s) (%s : %s) : %s :=\n%s\n" % (
            "".join("(%s : %s) " % (l, _ix_ty(t)) for l, t in params), clean, _ix_ty(cty), lv, _ix_ty(elem), body.rtype, text)
        tmps = {}
        canon = re.sub(r"\bv\d+\b", lambda m: tmps.setdefault(m.group(0), "v#%d" % len(tmps)), sig.replace(aux, "@"))
        memo = save[3].get((id(st), canon))
        if memo is not None:
            # the same loop translated a second time (the statements after an if / else are translated in both branches)
            rollback()
            aux = memo
        else:
            own.aux_memo[(id(st), canon)] = aux
            own.defs.append("/-- body of `%s` -/\ndef %s %s" % (head, aux, sig))
        call = "%s%s" % (aux, "".join(" " + l for l, _ in params))
        if body.fallible:
            self.flags["fallible"] = True
            out = "%s%s(%s.foldlM (%s) %s).bind fun %s =>\n" % (pre, pad, it, call, clean, clean)
            self.define(cname, cty)
        else:
            out = pre + self.let(pad, cname, cty, "%s.foldl (%s) %s" % (it, call, clean))
        return out + self.block(rest, ind, k)

    def while_stmt(self, st, rest, ind, k):
        pad = " " * ind
        if st.orelse or not (isinstance(st.test, ast.Constant) and st.test.value is True):
            raise Untranslatable("while loop that is not `while True:`")
        carried = [n for n in _ix_mutated(st.body) if self.has(n)]
        order = [py for py, _, _ in self.env]
        carried = sorted(set(carried), key=lambda n: max(i for i, p in enumerate(order) if p == n))
        # state variables in the order in which the enclosing definition introduced them (parameters last)
        carried = [n for n in carried if n not in self.fn.owner.params_of.get(self.fn.fname, [])] + \
                  [n for n in carried if n in self.fn.owner.params_of.get(self.fn.fname, [])]
        if not carried:
            raise Untranslatable("while loop without state")
        cvars = [(n,) + self.lookup(n) for n in carried]
        sname = self.fn.owner.lean_fn[self.fn.fname]
        sname = sname[0].upper() + sname[1:] + "St"
        aux = "%s_while" % self.fn.owner.lean_fn[self.fn.fname]
        if any(d.startswith("/-- the variables the `while True:`") for d in self.fn.owner.defs):
            raise Untranslatable("two while loops")
        body = _IxCtx(self.fn, self.env, "Option (Bool × %s)" % sname, self.cache)
        head = ""
        for n, lean, ty in cvars:
            head += body.let("  ", n, ty, "s.%s" % lean)

        def pack(c):
            return "⟨" + ", ".join(c.lookup(n)[0] for n in carried) + "⟩"
        text = body.block(list(st.body), 2, {"fin": lambda c: "some (true, %s)" % pack(c), "cont": lambda c: "some (true, %s)" % pack(c),
                                              "brk": lambda c: "some (false, %s)" % pack(c)})
        for n, lean, ty in cvars:
            if body.lookup(n)[1] != ty:
                raise Untranslatable("the type of %s changes in the loop" % n)
        params, seen = [], set()
        for _, lean, ty in self.env:
            if lean in body.used and lean not in seen:
                params.append((lean, [t for _, l, t in self.env if l == lean][-1]))
                seen.add(lean)
        for lean, _ in params:
            self.mark_used(lean)
        self.fn.owner.defs.append("/-- the variables the `while True:` loop carries from one iteration to the next -/\nstructure %s where\n%s" % (
            sname, "".join("  %s : %s\n" % (lean, _ix_ty(ty)) for _, lean, ty in cvars)))
        self.fn.owner.defs.append("/-- body of `while True:` (`false` = `break`) -/\ndef %s %s(s : %s) : Option (Bool × %s) :=\n%s%s\n" % (
            aux, "".join("(%s : %s) " % (l, _ix_ty(t)) for l, t in params), sname, sname, head, text))
        self.flags["fallible"] = True
        self.flags["fuel"] = True
        out = "%s(whileTrue (%s%s) fuel ⟨%s⟩).bind fun s =>\n" % (pad, aux, "".join(" " + l for l, _ in params), ", ".join(l for _, l, _ in cvars))
        for n, lean, ty in cvars:
            out += self.let(pad, n, ty, "s.%s" % lean)
        return out + self.block(rest, ind, k)


def _ix_names(e):
    return {n.id for n in ast.walk(e) if isinstance(n, ast.Name)}


def _ix_mutated(stmts):
    """names a block of statements assigns, appends to, stores into or reads a line from — in order of first occurrence"""
    out = []

    def add(n):
        if n not in out:
            out.append(n)

    def tgt(t):
        if isinstance(t, ast.Name):
            add(t.id)
        elif isinstance(t, (ast.Tuple, ast.List)):
            for x in t.elts:
                tgt(x)
        elif isinstance(t, (ast.Subscript, ast.Attribute)):
            base = t
            while isinstance(base, (ast.Subscript, ast.Attribute)):
                base = base.value
            if isinstance(base, ast.Name):
                add(base.id)
    for st in stmts:
        for n in ast.walk(st):
            if isinstance(n, ast.Assign):
                for t in n.targets:
                    tgt(t)
            elif isinstance(n, (ast.AugAssign, ast.AnnAssign)):
                tgt(n.target)
            elif isinstance(n, (ast.For, ast.comprehension)):
                tgt(n.target)
            elif isinstance(n, ast.Call) and isinstance(n.func, ast.Attribute) and n.func.attr in (
                    "append", "readline", "read", "extend", "pop", "add", "update", "clear", "remove", "insert", "seek", "sort", "reverse", "setdefault", "close"):
                tgt(n.func.value)
            elif isinstance(n, (ast.With,)):
                for it in n.items:
                    if it.optional_vars is not None:
                        tgt(it.optional_vars)
            elif isinstance(n, ast.NamedExpr):
                tgt(n.target)
            elif isinstance(n, ast.Delete):
                for t in n.targets:
                    tgt(t)
    return out


class _IxOwner:
    def __init__(self):
        self.defs = []
        self.known = {}
        self.lean_fn = {"convert_coord": "convertCoord", "run": "run"}
        self.empty_hint = {("convert_coord", "unstable_coord"): "List String", ("run", "out_dict"): "Idx"}
        self.nat_hint = {("run", "offset"): True}
        self.var_hint = {("run", "alignment"): "List String"}
        self.params_of = {}
        self.aux_memo = {}


def gen_index_loop():
    try:
        return _gen_index_loop()
    except Untranslatable:
        raise
    except (SyntaxError, OSError):
        raise
    except Exception as e:      # any surprise in the shape of the source is "outside the subset", never an alarm by itself
        raise Untranslatable("index.py: %s: %s" % (type(e).__name__, e))


def _gen_index_loop():
    _, src = src_of("gaftools/cli/index.py")
    mod = ast.parse(src)
    own = _IxOwner()
    # ---- convert_coord(line, ref)
    cc = find_func(mod, "convert_coord")
    a = cc.args
    if len(a.args) != 2 or a.vararg or a.kwarg or a.kwonlyargs or a.defaults or getattr(a, "posonlyargs", []):
        raise Untranslatable("signature of convert_coord")
    fn = _IxFn(own, "convert_coord")
    ctx = _IxCtx(fn, [], "Option (List String)")
    own.params_of["convert_coord"] = [x.arg for x in a.args]
    p_line = ctx.define(a.args[0].arg, "List Str")
    p_ref = ctx.define(a.args[1].arg, "Ref")
    body = ctx.block(list(cc.body), 2, {"fin": lambda c: (_ for _ in ()).throw(Untranslatable("convert_coord may end without a return")),
                                        "ret": lambda c, x, t: ("some %s" % x) if t == "List String" else (_ for _ in ()).throw(Untranslatable("convert_coord returns a %s" % t))})
    own.defs.append("/-- `convert_coord(%s, %s)`: the node ids a stable record traverses (`none` = an exception) -/\n"
                    "def convertCoord (%s : List Str) (%s : String → List Seg) : Option (List String) :=\n%s\n" % (
                        a.args[0].arg, a.args[1].arg, p_line, p_ref, body))
    own.known["convert_coord"] = ("convertCoord", ["List Str", "Ref"], "List String", True)
    cc_defs, own.defs = own.defs, []
    # ---- run: from the initialisation of the loop state to pickle.dump
    run = find_func(mod, "run")
    top = list(run.body)
    wi = [i for i, st in enumerate(top) if isinstance(st, ast.While)]
    if len(wi) != 1:
        raise Untranslatable("run has %d top-level while loops" % len(wi))
    wi = wi[0]
    lo = wi
    while lo > 0 and isinstance(top[lo - 1], ast.Assign) and len(top[lo - 1].targets) == 1 and isinstance(top[lo - 1].targets[0], ast.Name) and (
            isinstance(top[lo - 1].value, ast.Constant) or (isinstance(top[lo - 1].value, (ast.Dict, ast.List)) and not ast.unparse(top[lo - 1].value)[1:-1])):
        lo -= 1
    # what the loop reads from the part of run that is not translated: their definitions are checked, not translated
    pre = top[:lo]

    def last_assign(name):
        v = None
        for st in pre:
            for n in ast.walk(st):
                if isinstance(n, ast.Assign) and any(isinstance(t, ast.Name) and t.id == name for t in n.targets):
                    v = n.value
        return v
    nv, rv = last_assign("nodes"), last_assign("reference")
    if nv is None or ast.unparse(nv) != "gfa_file.nodes":
        raise Untranslatable("run: nodes is not gfa_file.nodes")
    if rv is None or ast.unparse(rv) not in ("defaultdict(lambda: [])", "defaultdict(list)"):
        raise Untranslatable("run: reference is not a defaultdict of lists")
    gz = [st for st in pre if isinstance(st, ast.If) and "is_file_gzipped" in ast.unparse(st.test)]
    if len(gz) != 1 or sorted(_ix_mutated([gz[0]])) != ["gaf_file"]:
        raise Untranslatable("run: how gaf_file is opened")
    if last_assign("stable") is None or last_assign("ref_contig") is None:
        raise Untranslatable("run: stable / ref_contig")
    # ref_contig: a comprehension over the dictionary gfa_file.contigs (name -> rank), translated on its own
    rc = last_assign("ref_contig")
    if not (isinstance(rc, ast.ListComp) and len(rc.generators) == 1 and not rc.generators[0].is_async and isinstance(rc.generators[0].target, ast.Name)
            and ast.unparse(rc.generators[0].iter) in ("gfa_file.contigs", "gfa_file.contigs.keys()") and isinstance(rc.elt, ast.Name)
            and rc.elt.id == rc.generators[0].target.id):
        raise Untranslatable("run: ref_contig is not a selection of the keys of gfa_file.contigs")
    cvar = rc.generators[0].target.id

    class Rank(ast.NodeTransformer):
        def visit_Subscript(self, node):
            if ast.unparse(node) == "gfa_file.contigs[%s]" % cvar:
                return ast.Name(id="rank__", ctx=ast.Load())
            return self.generic_visit(node)
    rctx = _IxCtx(_IxFn(own, "run"), [(cvar, "kv.1", "String"), ("rank__", "kv.2", "Int")], "List String")
    conds = []
    for c in rc.generators[0].ifs:
        x, t = rctx.ex(Rank().visit(ast.parse(ast.unparse(c), mode="eval").body))
        if rctx.binds or t not in ("Bool", "Prop"):
            raise Untranslatable("run: test of the ref_contig comprehension")
        conds.append(x if t == "Bool" else "decide %s" % x)
    ref_contig_def = ("/-- `ref_contig = %s`; `contigs` = the dictionary `gfa_file.contigs` (name ↦ rank, insertion order) -/\n"
                      "def run_ref_contig (contigs : List (String × Int)) : List String :=\n  (contigs.filter (fun kv => %s)).map (fun kv => kv.1)\n" % (
                          ast.unparse(rc).replace("-/", "- /"), " && ".join(conds) if conds else "true"))
    hi = None
    for i in range(wi + 1, len(top)):
        if isinstance(top[i], ast.With) and "pickle.dump" in ast.unparse(top[i]):
            hi = i
            break
    if hi is None:
        raise Untranslatable("run: pickle.dump not found after the loop")
    dumps = [n for n in ast.walk(top[hi]) if isinstance(n, ast.Call) and ast.unparse(n.func) == "pickle.dump"]
    if len(dumps) != 1 or len(dumps[0].args) < 2 or not isinstance(dumps[0].args[0], ast.Name):
        raise Untranslatable("run: pickle.dump call")
    dumped = dumps[0].args[0].id
    w = top[hi]
    if not (len(w.items) == 1 and ast.unparse(w.items[0].context_expr).startswith("open(output, 'wb')") and isinstance(w.items[0].optional_vars, ast.Name)
            and ast.unparse(dumps[0].args[1]) == w.items[0].optional_vars.id):
        raise Untranslatable("run: the file the index is written to")
    inner = list(w.body)
    while len(inner) == 1 and isinstance(inner[0], ast.With):
        inner = list(inner[0].body)
    if not (len(inner) == 1 and isinstance(inner[0], ast.Expr) and inner[0].value is dumps[0]):
        raise Untranslatable("run: statements around pickle.dump")
    fn = _IxFn(own, "run")
    ctx = _IxCtx(fn, [], "Option (Idx × List (String × List String))")
    RUN_PARAMS = [("stable", "Bool"), ("nodes", "Nodes"), ("reference", "Ref"), ("ref_contig", "List String"), ("gaf_file", "GafFile")]
    own.params_of["run"] = [n for n, _ in RUN_PARAMS]
    for n, t in RUN_PARAMS:
        ctx.define(n, t)

    def fin(c):
        d, t = c.lookup(dumped)
        if t != "Idx":
            raise Untranslatable("what is pickled is a %s" % t)
        return "some (%s, [%s])" % (d, ", ".join(c.extras))
    body = ctx.block(top[lo:hi], 2, {"fin": fin})
    if not ctx.flags["fuel"]:
        raise Untranslatable("run: no loop translated")
    own.defs.append(ref_contig_def)
    own.defs.append("/-- `run`, from the initialisation of the loop state to `pickle.dump(%s, …)`: the index and the entries stored under text keys -/\n"
                    "def run %s(fuel : Nat) : Option (Idx × List (String × List String)) :=\n%s\n" % (
                        dumped, "".join("(%s : %s) " % (_IxFn.lean_name(n), _ix_ty(t)) for n, t in RUN_PARAMS), body))
    return ("import Gaftools.Model.View\nimport Gaftools.Model.ConvText\nimport Gaftools.Gen.SearchIv\n"
            "/-! generated by harness/translate.py from gaftools/cli/index.py : convert_coord and the record loop of run, statement by statement — do not edit -/\n"
            "set_option linter.unusedVariables false\n"
            "namespace Gaftools.Gen\nopen Gaftools.Gaf Gaftools.Conv Gaftools.ConvText Gaftools.View\n\n" + _IX_PRELUDE +
            "\n/-! ## convert_coord -/\n\n" + "\n".join(cc_defs) + "\n/-! ## run -/\n\n" + "\n".join(own.defs) + "end Gaftools.Gen\n")


GENERATORS["IndexLoop"] = gen_index_loop


# ---------------------------------------------------------------------------------------------------------
# order_gfa: count_sn, name_comps and the loop over the requested chromosomes of run_order_gfa (C06, C07, C18)

_ORDER_RUN_PREAMBLE = """import Gaftools.Model.Order
/-! generated by harness/translate.py from gaftools/cli/order_gfa.py : count_sn, name_comps and the loop over the requested
    chromosomes of run_order_gfa, translated statement by statement — do not edit -/
set_option linter.unusedVariables false
namespace Gaftools.Gen.OrderRun
open Gaftools.Gfa Gaftools.Algo Gaftools.View Gaftools.Order

/-! ### fixed vocabulary: what the Python objects are in Lean -/

/-- `d[k] += x` on a `defaultdict(int)` (the dict in insertion order) -/
def dictAdd (d : List (String × Nat)) (k : String) (x : Nat) : List (String × Nat) :=
  if d.any (·.1 == k) then d.map (fun e => if e.1 == k then (e.1, e.2 + x) else e) else d ++ [(k, 0 + x)]

/-- `d[k] = v` on the dict of named components, kept as a duplicate-free association list whose newest assignment is last
    (`run_order_gfa` uses this dict only through lookups and its key set; the translator checks that) -/
def dictPut (d : List (String × List V)) (k : String) (v : List V) : List (String × List V) :=
  d.filter (·.1 != k) ++ [(k, v)]

/-- `d[k]`, `none` = KeyError -/
def dictGet (d : List (String × List V)) (k : String) : Option (List V) := (d.find? (·.1 == k)).map (·.2)

/-- `graph.nodes[id].tags[t.name] = (t.ty, t.val)` -/
def setTag (g : Graph) (id : V) (t : Tag) : Graph :=
  { g with nodes := g.nodes.map (fun n => if n.id == id then { n with tags := tagSet n.tags t } else n) }

/-- the five values `decompose_and_order` returns when they are not all `None` -/
structure Dao where
  scaffold_nodes : List V
  inside_nodes : List V
  node_order : List (V × Int × Int)
  next_bo : Int
  bubble_count : Int
deriving Repr

/-- what the loop does to the outside world, in program order -/
inductive Event where
  | openW (path : String)
  | write (path : String) (fields : List String)
  | writeGfa (path : String) (graph : Graph) (set_of_nodes : List V) (append order_bo : Bool)
  | close (path : String)
deriving Repr, DecidableEq

/-- what the loop reads and does not change: the named components, `decompose_and_order` as a function of its four arguments
    (`.error` = it raises, `.ok none` = the all-`None` tuple), and the pieces of the file names -/
structure Env where
  components : List (String × List V)
  dao : Graph → List V → String → Int → Except String (Option Dao)
  outdir : String
  sep : String
  stemDot : String
  stemCut : String

/-- the variables the loop over the chromosomes carries from one iteration to the next, and the event log -/
structure RunSt where
  graph : Graph
  bo : Int
  out_gfa : List String
  out_csv : List String
  log : List Event
deriving Repr, DecidableEq
"""

_OR_LEAN_TYPE = {"int": "Int", "nat": "Nat", "str": "String", "set": "List V", "list_str": "List String", "order": "List (V × Int × Int)",
                 "counts": "List (String × Nat)", "comps": "List (String × List V)", "graph": "Graph", "log": "List Event",
                 "list_set": "List (List V)", "item": "String × Nat", "snfun": "V → Option String"}
_OR_DAO_FIELDS = [("scaffold_nodes", "set"), ("inside_nodes", "set"), ("node_order", "order"), ("next_bo", "int"), ("bubble_count", "int")]
_OR_RUNST = ["graph", "bo", "out_gfa", "out_csv", "log"]


class _NeedsExcept(Exception):
    pass


def _or_is_log_call(e):
    return isinstance(e, ast.Call) and (ast.unparse(e.func).startswith("logger.") or ast.unparse(e.func).startswith("logging."))


def _or_lstr(v):
    return '"%s"' % v.replace("\\", "\\\\").replace('"', '\\"').replace("\t", "\\t").replace("\n", "\\n")


class _Imp:
    """statement-by-statement translation of a loop body into a Lean state-passing function.
    Python variables become `let`-bound Lean names (a reassignment shadows); the loop state is the tuple of the variables
    that are assigned in the body and were defined before the loop; everything the body reads from outside and does not change
    becomes a parameter. `pure` bodies are plain functions, others return `Except String` (`raise`, KeyError)."""

    def __init__(self, gen, types, atoms, handles=None, aliases=None, pure=True, names=None):
        self.gen = gen                # the generator context (collects the loop-body definitions, csv format, loop names)
        self.types = dict(types)      # python name -> type tag
        self.atoms = dict(atoms)      # python name / unparsed expression -> (lean term, type)
        self.handles = dict(handles or {})   # file handle -> python name holding the path
        self.aliases = dict(aliases or {})   # node variable -> (graph variable, lean key term)
        self.pure = pure
        self.refs = []                # outer names referenced, in order
        self.bound = set()            # names bound inside this body
        self.names = names            # stack of loop-body names still to be given out

    # ---- expressions
    def ref(self, name):
        if name not in self.bound and name not in self.refs:
            self.refs.append(name)

    def ex(self, e):
        u = ast.unparse(e)
        if u in self.atoms:
            return self.atoms[u]
        if isinstance(e, ast.Name):
            if e.id not in self.types:
                raise Untranslatable("name %s is not defined here" % e.id)
            if self.types[e.id] == "none":
                raise Untranslatable("%s is None here" % e.id)
            self.ref(e.id)
            return e.id, self.types[e.id]
        if isinstance(e, ast.Constant) and isinstance(e.value, str):
            return _or_lstr(e.value), "str"
        if isinstance(e, ast.Constant) and isinstance(e.value, bool):
            return ("true" if e.value else "false"), "bool"
        if isinstance(e, ast.Constant) and isinstance(e.value, int):
            return "(%d : %s)" % (e.value, self.gen.lit), {"Nat": "nat", "Int": "int"}[self.gen.lit]
        if isinstance(e, ast.BinOp) and isinstance(e.op, ast.Add):
            (l, tl), (r, tr) = self.ex(e.left), self.ex(e.right)
            if tl == tr == "str":
                return "%s ++ %s" % (l, r), "str"
            if tl == tr and tl in ("int", "nat"):
                return "(%s + %s)" % (l, r), tl
            raise Untranslatable("+ on %s and %s" % (tl, tr))
        if isinstance(e, ast.Call) and isinstance(e.func, ast.Name) and e.func.id == "sorted" and len(e.args) == 1 and not e.keywords:
            a, t = self.ex(e.args[0])
            if t != "set":
                raise Untranslatable("sorted() of a %s" % t)
            return "(sortStrings %s)" % a, "list_str"
        if (isinstance(e, ast.Call) and isinstance(e.func, ast.Name) and e.func.id == "count_sn" and len(e.args) == 2 and not e.keywords
                and self.types.get(ast.unparse(e.args[0])) == "graph_ro"):
            a, t = self.ex(e.args[1])
            if t != "set":
                raise Untranslatable("count_sn of a %s" % t)
            self.gen.uses_count_sn = True
            self.ref("sn")
            return "countSn sn %s" % a, "counts"
        if isinstance(e, ast.Call) and isinstance(e.func, ast.Attribute) and e.func.attr == "items" and not e.args:
            a, t = self.ex(e.func.value)
            if t == "counts":
                return a, "counts_items"
        # graph[n].tags["SN"][1]  (read-only graph of count_sn)  /  node.tags["SN"][1]
        if (isinstance(e, ast.Subscript) and isinstance(e.slice, ast.Constant) and e.slice.value == 1 and isinstance(e.value, ast.Subscript)
                and isinstance(e.value.slice, ast.Constant) and isinstance(e.value.slice.value, str)):
            tags = self.tags_of(e.value.value)
            if tags is not None:
                return "((%s).getD \"\")" % tags(e.value.slice.value), "str"
        raise Untranslatable("expression " + u)

    def tags_of(self, e):
        """`<x>.tags` -> a function tag name -> Lean term of type Option String (the value of that tag)"""
        if not (isinstance(e, ast.Attribute) and e.attr == "tags"):
            return None
        o = e.value
        if isinstance(o, ast.Name) and self.types.get(o.id) == "node":
            self.ref(o.id)
            return lambda name: "tagVal %s.tags %s" % (o.id, _or_lstr(name))
        if isinstance(o, ast.Subscript) and isinstance(o.value, ast.Name) and self.types.get(o.value.id) == "graph_ro":
            k, t = self.ex(o.slice)
            if t != "str":
                raise Untranslatable("graph[%s]" % t)

            def f(name):
                if name != "SN":
                    raise Untranslatable("tag %s of the read-only graph" % name)
                self.ref("sn")
                return "sn %s" % k
            return f
        return None

    def cond(self, e):
        """-> Lean Bool term, or the Python constants True / False when the test is decided at translation time"""
        if isinstance(e, ast.UnaryOp) and isinstance(e.op, ast.Not):
            c = self.cond(e.operand)
            return (not c) if isinstance(c, bool) else "(!%s)" % c
        if isinstance(e, ast.BoolOp):
            cs = [self.cond(x) for x in e.values]
            if any(isinstance(c, bool) for c in cs):
                raise Untranslatable("constant inside and/or")
            return "(" + (" && " if isinstance(e.op, ast.And) else " || ").join(cs) + ")"
        if isinstance(e, ast.Name):
            t = self.types.get(e.id)
            if t == "none":
                return False
            a, t = self.ex(e)
            if t in ("set", "list_str"):
                return "(!%s.isEmpty)" % a
            raise Untranslatable("truth value of a %s" % t)
        if isinstance(e, ast.Compare) and len(e.ops) == 1:
            l, r, op = e.left, e.comparators[0], type(e.ops[0])
            if op in (ast.In, ast.NotIn):
                tags = self.tags_of(r)
                if tags is not None and isinstance(l, ast.Constant) and isinstance(l.value, str):
                    c = "(%s).isSome" % tags(l.value)
                else:
                    (a, ta), (b, tb) = self.ex(l), self.ex(r)
                    if not (ta == "str" and tb == "set"):
                        raise Untranslatable("%s in %s" % (ta, tb))
                    c = "(%s.contains %s)" % (b, a)
                return c if op is ast.In else "(!%s)" % c
            (a, ta), (b, tb) = self.ex(l), self.ex(r)
            if ta != tb:
                raise Untranslatable("comparison of %s with %s" % (ta, tb))
            if op in (ast.Eq, ast.NotEq) and ta in ("str", "int", "nat"):
                c = "(%s == %s)" % (a, b)
                return c if op is ast.Eq else "(!%s)" % c
            sym = {ast.Lt: "<", ast.Gt: ">", ast.LtE: "≤", ast.GtE: "≥"}.get(op)
            if sym and ta in ("int", "nat"):
                return "decide (%s %s %s)" % (a, sym, b)
        raise Untranslatable("test " + ast.unparse(e))

    # ---- statements
    def none_loads(self, node):
        return [n.id for n in ast.walk(node) if isinstance(n, ast.Name) and isinstance(n.ctx, ast.Load) and self.types.get(n.id) == "none"]

    def bind(self, name, t):
        self.types[name] = t
        self.bound.add(name)
        self.atoms.pop(name, None)

    def partial(self):
        if self.pure:
            raise _NeedsExcept()

    def log(self, pad, event):
        self.ref("log")
        self.bind("log", "log")
        self.gen.did_io = True
        return "%slet log := log ++ [%s]\n" % (pad, event)

    def block(self, stmts, ind, fin):
        pad = " " * ind
        if not stmts:
            return pad + fin(self)
        st, rest = stmts[0], stmts[1:]
        u = ast.unparse(st)
        if isinstance(st, ast.Pass) or (isinstance(st, ast.Expr) and (isinstance(st.value, ast.Constant) or _or_is_log_call(st.value))):
            return self.block(rest, ind, fin)
        if isinstance(st, ast.Continue):
            return pad + fin(self)
        if not isinstance(st, (ast.If, ast.For)) and self.none_loads(st):
            # a statement that reads one of the values that are None here: a plain copy hands the None on, an arithmetic /
            # subscript / membership use raises TypeError (whatever was done before is lost with the exception)
            if (isinstance(st, ast.Assign) and len(st.targets) == 1 and isinstance(st.targets[0], ast.Name) and isinstance(st.value, ast.Name)):
                self.bind(st.targets[0].id, "none")
                return self.block(rest, ind, fin)
            certain = isinstance(st, ast.AugAssign) and isinstance(st.value, ast.Name) and self.types.get(st.value.id) == "none"
            for n in ast.walk(st):
                if isinstance(n, ast.Subscript) and isinstance(n.value, ast.Name) and self.types.get(n.value.id) == "none":
                    certain = True
            if certain:
                self.partial()
                return pad + '.error "TypeError"'
            raise Untranslatable("a None value is used in " + u[:60])
        if isinstance(st, ast.Raise):
            self.partial()
            exc = st.exc.func if isinstance(st.exc, ast.Call) else st.exc
            return "%s.error %s" % (pad, _or_lstr(ast.unparse(exc)))
        if isinstance(st, ast.Return):
            return pad + self.gen.ret(self, st)
        if isinstance(st, ast.If):
            return self.if_stmt(st, rest, ind, fin)
        if isinstance(st, ast.For):
            return self.for_stmt(st, rest, ind, fin)
        if isinstance(st, ast.AugAssign) and isinstance(st.op, ast.Add):
            t = st.target
            if isinstance(t, ast.Name) and t.id in self.gen.log_only:
                return self.block(rest, ind, fin)
            if isinstance(t, ast.Name):
                (a, ta), (b, tb) = self.ex(t), self.ex(st.value)
                if ta != tb or ta not in ("int", "nat"):
                    raise Untranslatable(u)
                self.bind(t.id, ta)
                return "%slet %s := %s + %s\n%s" % (pad, t.id, a, b, self.block(rest, ind, fin))
            if isinstance(t, ast.Subscript) and isinstance(t.value, ast.Name) and self.types.get(t.value.id) == "counts":
                d = t.value.id
                self.ref(d)
                (k, tk), (v, tv) = self.ex(t.slice), self.ex(st.value)
                if tk != "str" or tv != "nat":
                    raise Untranslatable(u)
                self.bind(d, "counts")
                return "%slet %s := dictAdd %s %s %s\n%s" % (pad, d, d, k, v, self.block(rest, ind, fin))
        if isinstance(st, ast.Assign) and len(st.targets) == 1:
            return self.assign(st, rest, ind, fin)
        if isinstance(st, ast.Expr) and isinstance(st.value, ast.Call):
            return self.call_stmt(st.value, rest, ind, fin)
        raise Untranslatable("statement " + u[:80])

    def if_stmt(self, st, rest, ind, fin):
        pad = " " * ind
        # `if … : x = a  elif … : x = b  else: x = c`  ->  let x := if … then a else if … then b else c
        chain, cur = [], st
        while True:
            if not (len(cur.body) == 1 and isinstance(cur.body[0], ast.Assign) and len(cur.body[0].targets) == 1
                    and isinstance(cur.body[0].targets[0], ast.Name)):
                chain = None
                break
            chain.append((cur.test, cur.body[0]))
            if len(cur.orelse) == 1 and isinstance(cur.orelse[0], ast.If):
                cur = cur.orelse[0]
                continue
            if (len(cur.orelse) == 1 and isinstance(cur.orelse[0], ast.Assign) and len(cur.orelse[0].targets) == 1
                    and isinstance(cur.orelse[0].targets[0], ast.Name)):
                chain.append((None, cur.orelse[0]))
            else:
                chain = None
            break
        if chain and len({a.targets[0].id for _, a in chain}) == 1:
            name = chain[0][1].targets[0].id
            parts, ty = [], None
            for test, a in chain:
                v, t = self.ex(a.value)
                if ty not in (None, t):
                    raise Untranslatable("branches of different type assign " + name)
                ty = t
                if test is None:
                    parts.append(v)
                else:
                    c = self.cond(test)
                    if isinstance(c, bool):
                        raise Untranslatable("constant test")
                    parts.append("if %s then %s else" % (c, v))
            self.bind(name, ty)
            return "%slet %s := %s\n%s" % (pad, name, " ".join(parts), self.block(rest, ind, fin))
        c = self.cond(st.test)
        if c is True:
            return self.block(list(st.body) + rest, ind, fin)
        if c is False:
            return self.block(list(st.orelse) + rest, ind, fin)
        a, b = self.fork(), self.fork()
        then = a.block(list(st.body) + rest, ind + 2, fin)
        els = b.block(list(st.orelse) + rest, ind + 2, fin)
        return "%sif %s then\n%s\n%selse\n%s" % (pad, c, then, pad, els)

    def fork(self):
        o = _Imp(self.gen, self.types, self.atoms, self.handles, self.aliases, self.pure, self.names)
        o.bound = set(self.bound)
        o.refs = self.refs          # shared: references are collected across branches
        return o

    def assign(self, st, rest, ind, fin):
        pad = " " * ind
        t, v = st.targets[0], st.value
        u = ast.unparse(st)
        cont = lambda: self.block(rest, ind, fin)   # noqa: E731
        if isinstance(t, ast.Name):
            if t.id in self.gen.log_only:
                return cont()
            # containers
            if ast.unparse(v) == "defaultdict(int)":
                self.bind(t.id, "counts")
                return "%slet %s : %s := []\n%s" % (pad, t.id, _OR_LEAN_TYPE["counts"], cont())
            if ast.unparse(v) in ("dict()", "{}"):
                self.bind(t.id, "comps")
                return "%slet %s : %s := []\n%s" % (pad, t.id, _OR_LEAN_TYPE["comps"], cont())
            if ast.unparse(v) == "[]":
                self.bind(t.id, "list_str")
                return "%slet %s : %s := []\n%s" % (pad, t.id, _OR_LEAN_TYPE["list_str"], cont())
            # f = open(path, "w")
            if isinstance(v, ast.Call) and ast.unparse(v.func) == "open":
                if not (len(v.args) == 2 and not v.keywords and isinstance(v.args[1], ast.Constant) and v.args[1].value == "w"
                        and isinstance(v.args[0], ast.Name)):
                    raise Untranslatable(u)
                path, tp = self.ex(v.args[0])
                if tp != "str":
                    raise Untranslatable(u)
                self.handles[t.id] = v.args[0].id
                self.types.pop(t.id, None)
                return self.log(pad, "Event.openW %s" % path) + cont()
            # x = d[k]  (KeyError)
            if isinstance(v, ast.Subscript):
                base, tb = None, None
                try:
                    base, tb = self.ex(v.value)
                except Untranslatable:
                    pass
                if tb == "comps":
                    self.partial()
                    k, tk = self.ex(v.slice)
                    if tk != "str":
                        raise Untranslatable(u)
                    self.bind(t.id, "set")
                    return "%smatch dictGet %s %s with\n%s| none => .error \"KeyError\"\n%s| some %s =>\n%s" % (pad, base, k, pad, pad, t.id, cont())
                if ast.unparse(v.value).endswith(".nodes") and isinstance(v.value, ast.Attribute) and isinstance(v.value.value, ast.Name) \
                        and self.types.get(v.value.value.id) == "graph":
                    self.partial()
                    g = v.value.value.id
                    self.ref(g)
                    k, tk = self.ex(v.slice)
                    if tk != "str":
                        raise Untranslatable(u)
                    self.bind(t.id, "node")
                    self.aliases[t.id] = (g, k)
                    return "%smatch %s.find %s with\n%s| none => .error \"KeyError\"\n%s| some %s =>\n%s" % (pad, g, k, pad, pad, t.id, cont())
            val, ty = self.ex(v)
            self.bind(t.id, ty)
            return "%slet %s := %s\n%s" % (pad, t.id, val, cont())
        if isinstance(t, ast.Tuple) and all(isinstance(x, ast.Name) for x in t.elts):
            names = [x.id for x in t.elts]
            # a, b = x, y
            if isinstance(v, ast.Tuple) and len(v.elts) == len(names):
                vals = [self.ex(x) for x in v.elts]
                for n, (_, ty) in zip(names, vals):
                    self.bind(n, ty)
                return "%slet (%s) := (%s)\n%s" % (pad, ", ".join(names), ", ".join(a for a, _ in vals), cont())
            # bo_tag, no_tag = node_order[node_name]
            if isinstance(v, ast.Subscript) and isinstance(v.value, ast.Name) and self.types.get(v.value.id) == "order" and len(names) == 2:
                self.partial()
                d, _ = self.ex(v.value)
                k, tk = self.ex(v.slice)
                if tk != "str":
                    raise Untranslatable(u)
                for n in names:
                    self.bind(n, "int")
                return "%smatch lookup %s %s with\n%s| none => .error \"KeyError\"\n%s| some (%s) =>\n%s" % (pad, k, d, pad, pad, ", ".join(names), cont())
            # the five values of decompose_and_order
            if isinstance(v, ast.Call) and ast.unparse(v.func) == "decompose_and_order" and len(names) == 5 and len(v.args) == 4 and not v.keywords:
                self.partial()
                args = [self.ex(a) for a in v.args]
                if [ty for _, ty in args] != ["graph", "set", "str", "int"]:
                    raise Untranslatable("arguments of decompose_and_order: %s" % [ty for _, ty in args])
                call = "env.dao " + " ".join(a for a, _ in args)
                a, b = self.fork(), self.fork()
                for n in names:
                    a.bind(n, "none")
                none_branch = a.block(rest, ind + 2, fin)
                lets = ""
                for n, (f, ty) in zip(names, _OR_DAO_FIELDS):
                    b.bind(n, ty)
                    lets += "%s  let %s := r.%s\n" % (pad, n, f)
                some_branch = b.block(rest, ind + 2, fin)
                return "%smatch %s with\n%s| .error e => .error e\n%s| .ok none =>\n%s\n%s| .ok (some r) =>\n%s%s" % (
                    pad, call, pad, pad, none_branch, pad, lets, some_branch)
        if isinstance(t, ast.Subscript):
            # named_comps[k] = comp
            if isinstance(t.value, ast.Name) and self.types.get(t.value.id) == "comps":
                d = t.value.id
                self.ref(d)
                (k, tk), (val, tv) = self.ex(t.slice), self.ex(v)
                if tk != "str" or tv != "set":
                    raise Untranslatable(u)
                self.bind(d, "comps")
                return "%slet %s := dictPut %s %s %s\n%s" % (pad, d, d, k, val, cont())
            # node.tags["BO"] = ("i", bo_tag)   with node = graph.nodes[key]
            if (isinstance(t.value, ast.Attribute) and t.value.attr == "tags" and isinstance(t.value.value, ast.Name)
                    and t.value.value.id in self.aliases and isinstance(t.slice, ast.Constant) and isinstance(t.slice.value, str)
                    and isinstance(v, ast.Tuple) and len(v.elts) == 2 and isinstance(v.elts[0], ast.Constant) and isinstance(v.elts[0].value, str)):
                node = t.value.value.id
                g, key = self.aliases[node]
                self.ref(g)
                self.ref(node)
                val, tv = self.ex(v.elts[1])
                if tv == "int":
                    val = "toString " + val
                elif tv != "str":
                    raise Untranslatable(u)
                tag = "⟨%s, %s, %s⟩" % (_or_lstr(t.slice.value), _or_lstr(v.elts[0].value), val)
                self.bind(g, "graph")
                self.bind(node, "node")
                return "%slet %s := setTag %s %s %s\n%slet %s : Node := { %s with tags := tagSet %s.tags %s }\n%s" % (
                    pad, g, g, key, tag, pad, node, node, node, tag, cont())
        raise Untranslatable("assignment " + u[:80])

    def call_stmt(self, c, rest, ind, fin):
        pad = " " * ind
        u = ast.unparse(c)
        f = c.func
        cont = lambda: self.block(rest, ind, fin)   # noqa: E731
        if isinstance(f, ast.Attribute) and isinstance(f.value, ast.Name):
            o = f.value.id
            if f.attr == "append" and self.types.get(o) == "list_str" and len(c.args) == 1 and not c.keywords:
                self.ref(o)
                v, tv = self.ex(c.args[0])
                if tv != "str":
                    raise Untranslatable(u)
                self.bind(o, "list_str")
                return "%slet %s := %s ++ [%s]\n%s" % (pad, o, o, v, cont())
            if o in self.handles and f.attr == "close" and not c.args and not c.keywords:
                path, _ = self.ex(ast.Name(id=self.handles[o], ctx=ast.Load()))
                return self.log(pad, "Event.close %s" % path) + cont()
            if o in self.handles and f.attr == "write" and len(c.args) == 1 and not c.keywords:
                path, _ = self.ex(ast.Name(id=self.handles[o], ctx=ast.Load()))
                return self.log(pad, "Event.write %s [%s]" % (path, ", ".join(self.gen.csv_fields(self, c.args[0])))) + cont()
            if self.types.get(o) == "graph" and f.attr == "write_gfa" and not c.args:
                kw = {k.arg: k.value for k in c.keywords}
                if sorted(kw) != ["append", "order_bo", "output_file", "set_of_nodes"]:
                    raise Untranslatable(u)
                self.ref(o)
                (nodes, tn), (path, tp) = self.ex(kw["set_of_nodes"]), self.ex(kw["output_file"])
                (ap, ta), (ob, to) = self.ex(kw["append"]), self.ex(kw["order_bo"])
                if (tn, tp, ta, to) != ("set", "str", "bool", "bool"):
                    raise Untranslatable(u)
                return self.log(pad, "Event.writeGfa %s %s %s %s %s" % (path, o, nodes, ap, ob)) + cont()
        raise Untranslatable("call " + u[:80])

    # ---- loops
    @staticmethod
    def assigned(stmts):
        """names a list of statements may assign or mutate (a handle's write / close, `open` and write_gfa count as `log`)"""
        out = []

        def add(n):
            if n not in out:
                out.append(n)
        for st in stmts:
            for n in ast.walk(st):
                if isinstance(n, (ast.Assign, ast.AugAssign)):
                    for t in (n.targets if isinstance(n, ast.Assign) else [n.target]):
                        for x in (t.elts if isinstance(t, ast.Tuple) else [t]):
                            while isinstance(x, (ast.Subscript, ast.Attribute)):
                                x = x.value
                            if isinstance(x, ast.Name):
                                add(x.id)
                    if isinstance(n, ast.Assign) and isinstance(n.value, ast.Call) and ast.unparse(n.value.func) == "open":
                        add("log")
                if isinstance(n, ast.For):
                    for x in (n.target.elts if isinstance(n.target, ast.Tuple) else [n.target]):
                        add(x.id)
                if isinstance(n, ast.Call) and isinstance(n.func, ast.Attribute) and isinstance(n.func.value, ast.Name):
                    if n.func.attr in ("append", "add", "update", "pop", "remove", "reverse", "sort", "extend"):
                        add(n.func.value.id)
                    if n.func.attr in ("write", "close", "write_gfa"):
                        add("log")
        return out

    def for_stmt(self, st, rest, ind, fin):
        pad = " " * ind
        if st.orelse:
            raise Untranslatable("for … else")
        if not self.names:
            raise Untranslatable("more loops than the translation has names for")
        name = self.names.pop(0)
        it, tit = self.ex(st.iter)
        # the loop variable(s)
        if isinstance(st.target, ast.Name) and tit in ("set", "list_str"):
            tgt, tgt_ty, unpack = st.target.id, "V", [(st.target.id, "str", None)]
        elif isinstance(st.target, ast.Name) and tit == "list_set":
            tgt, tgt_ty, unpack = st.target.id, "List V", [(st.target.id, "set", None)]
        elif isinstance(st.target, ast.Tuple) and tit == "counts_items" and len(st.target.elts) == 2 and all(isinstance(x, ast.Name) for x in st.target.elts):
            tgt, tgt_ty = "item", "String × Nat"
            unpack = [(st.target.elts[0].id, "str", "item.1"), (st.target.elts[1].id, "nat", "item.2")]
        else:
            raise Untranslatable("loop over a %s" % tit)
        # the state: what the body assigns among what is defined here (aliases of graph nodes stand for the graph)
        asg = self.assigned(st.body)
        for n in list(asg):
            if n in self.aliases and self.aliases[n][0] not in asg:
                asg.append(self.aliases[n][0])
        body_aliases = [x.targets[0].id for x in ast.walk(ast.Module(body=st.body, type_ignores=[])) if isinstance(x, ast.Assign)
                        and isinstance(x.targets[0], ast.Name) and isinstance(x.value, ast.Subscript) and ast.unparse(x.value.value).endswith(".nodes")]
        if any(a in asg for a in body_aliases):
            for x in ast.walk(ast.Module(body=st.body, type_ignores=[])):
                if isinstance(x, ast.Assign) and isinstance(x.targets[0], ast.Name) and x.targets[0].id in body_aliases and x.targets[0].id in asg:
                    g = x.value.value.value
                    if isinstance(g, ast.Name) and g.id not in asg:
                        asg.append(g.id)
        defined = [n for n in self.types if self.types[n] != "none"] + (["log"] if "log" not in self.types else [])
        carried = [n for n in defined if n in asg and n not in [u_[0] for u_ in unpack] and n not in self.gen.log_only
                   and self.types.get(n, "log") not in ("graph_ro",)]
        carried = [n for n in carried if n != "log"] + (["log"] if "log" in carried else [])
        if not carried:
            raise Untranslatable("a loop that changes nothing")
        for attempt_pure in (True, False):
            child = _Imp(self.gen, {n: self.types.get(n, "log") for n in self.types}, self.atoms, self.handles, self.aliases, attempt_pure, self.names)
            child.types.setdefault("log", "log")
            saved_names, saved_defs = list(self.names), list(self.gen.defs)
            for n, ty, _ in unpack:
                child.bind(n, ty)
            for n in carried:
                child.bound.add(n)
            try:
                body = child.block(list(st.body), 2, lambda im: im.state_out(carried))
                break
            except _NeedsExcept:
                self.names[:] = saved_names
                self.gen.defs[:] = saved_defs
                if not attempt_pure:
                    raise Untranslatable("loop body %s" % name)
        if not child.pure:
            self.partial()
        params = [n for n in child.refs if n not in carried and n not in [u_[0] for u_ in unpack]]
        for n in params:
            self.ref(n)
        for n in carried:
            self.ref(n)
        def lty(n):
            return _OR_LEAN_TYPE[{"log": "log", "sn": "snfun"}.get(n, self.types.get(n, "log"))]
        sig = "".join(" (%s : %s)" % (n, lty(n)) for n in params)
        st_ty = " × ".join(lty(n) for n in carried)
        head = ""
        if len(carried) == 1:
            st_param = "(%s : %s)" % (carried[0], st_ty)
        elif len(carried) == 2:
            st_param = "(st : %s)" % st_ty
            head = "".join("  let %s := st.%d\n" % (n, i + 1) for i, n in enumerate(carried))
        else:
            raise Untranslatable("loop state of %d variables" % len(carried))
        head += "".join("  let %s := %s\n" % (n, src) for n, _, src in unpack if src)
        ret_ty = st_ty if child.pure else "Except String (%s)" % st_ty
        self.gen.defs.append("/-- the body of `for %s in %s` -/\ndef %s%s %s (%s : %s) :\n    %s :=\n%s%s\n" % (
            ast.unparse(st.target), ast.unparse(st.iter), name, sig, st_param, tgt, tgt_ty, ret_ty, head, body))
        fn = name + "".join(" " + n for n in params)
        if params:
            fn = "(%s)" % fn
        tup = carried[0] if len(carried) == 1 else "(%s)" % ", ".join(carried)
        for n in carried:
            self.bind(n, self.types.get(n, "log"))
        # the names the body introduced are not visible after the loop
        if child.pure:
            return "%slet %s := %s.foldl %s %s\n%s" % (pad, tup, it, fn, tup, self.block(rest, ind, fin))
        return "%smatch %s.foldlM %s %s with\n%s| .error e => .error e\n%s| .ok %s =>\n%s" % (pad, it, fn, tup, pad, pad, tup, self.block(rest, ind, fin))

    def state_out(self, carried):
        tup = carried[0] if len(carried) == 1 else "(%s)" % ", ".join(carried)
        return tup if self.pure else ".ok %s" % tup


class _OrderRunGen:
    def __init__(self, lit, log_only=()):
        self.lit = lit
        self.log_only = set(log_only)
        self.defs = []
        self.did_io = False
        self.uses_count_sn = False
        self.csv = None          # (separator, terminator)
        self.ret = None

    def csv_fields(self, imp, arg):
        """the argument of a `write` on the CSV handle -> Lean terms of the fields (the line is `sep.join(fields) + end`)"""
        sep, end = self.csv
        if isinstance(arg, ast.Constant) and isinstance(arg.value, str):
            if not arg.value.endswith(end):
                raise Untranslatable("CSV line %r does not end with %r" % (arg.value, end))
            return [_or_lstr(x) for x in arg.value[:len(arg.value) - len(end)].split(sep)]
        pieces, args = _or_format_pieces(arg)
        if pieces is None or (pieces[0], pieces[-1]) != ("", end) or any(p != sep for p in pieces[1:-1]):
            raise Untranslatable("CSV line format %s" % ast.unparse(arg))
        out = []
        for a in args:
            v, t = imp.ex(a)
            out.append("toString " + v if t == "int" else v if t == "str" else (_ for _ in ()).throw(Untranslatable("CSV field of type %s" % t)))
        return out


def _or_format_pieces(arg):
    """"…{}…{}…".format(a, b) -> (literal pieces, argument nodes)"""
    if not (isinstance(arg, ast.Call) and isinstance(arg.func, ast.Attribute) and arg.func.attr == "format" and isinstance(arg.func.value, ast.Constant)
            and isinstance(arg.func.value.value, str) and not arg.keywords):
        return None, None
    pieces = arg.func.value.value.split("{}")
    if len(pieces) != len(arg.args) + 1 or any("{" in p or "}" in p for p in pieces):
        return None, None
    return pieces, list(arg.args)


def _or_parents(tree):
    par = {}
    for n in ast.walk(tree):
        for c in ast.iter_child_nodes(n):
            par[c] = n
    return par


def gen_order_run():
    _, src = src_of("gaftools/cli/order_gfa.py")
    mod = ast.parse(src)
    out = []

    def strip(body):
        return [x for x in body if not (isinstance(x, ast.Expr) and isinstance(x.value, ast.Constant))]

    # ---------------- count_sn(graph, comp)
    fn = find_func(mod, "count_sn")
    a = [x.arg for x in fn.args.args]
    if len(a) != 2:
        raise Untranslatable("count_sn arity")
    g = _OrderRunGen("Nat")
    g.ret = lambda im, st: im.ex(st.value)[0] if im.ex(st.value)[1] == "counts" else (_ for _ in ()).throw(Untranslatable("count_sn returns " + ast.unparse(st.value)))
    im = _Imp(g, {a[0]: "graph_ro", a[1]: "set", "sn": "snfun"}, {}, pure=True, names=["countSnBody"])
    body = im.block(strip(fn.body), 2, lambda _im: (_ for _ in ()).throw(Untranslatable("count_sn falls off its end")))
    out += g.defs
    out.append("def countSn (sn : V → Option String) (%s : List V) : List (String × Nat) :=\n%s\n" % (a[1], body))

    # ---------------- name_comps(graph, components)
    fn = find_func(mod, "name_comps")
    a = [x.arg for x in fn.args.args]
    if len(a) != 2:
        raise Untranslatable("name_comps arity")
    g = _OrderRunGen("Nat")

    def ret_nc(im_, st):
        v, t = im_.ex(st.value)
        if t != "comps":
            raise Untranslatable("name_comps returns " + ast.unparse(st.value))
        return v if im_.pure else ".ok " + v
    g.ret = ret_nc
    im = _Imp(g, {a[0]: "graph_ro", a[1]: "list_set", "sn": "snfun"}, {}, pure=False, names=["nameBody", "voteBody"])
    body = im.block(strip(fn.body), 2, lambda _im: (_ for _ in ()).throw(Untranslatable("name_comps falls off its end")))
    if not g.uses_count_sn:
        raise Untranslatable("name_comps does not call count_sn")
    out += g.defs
    out.append("def nameComps (sn : V → Option String) (%s : List (List V)) : Except String (List (String × List V)) :=\n%s\n" % (a[1], body))

    # ---------------- run_order_gfa: the loop over the requested chromosomes
    fn = find_func(mod, "run_order_gfa")
    par = _or_parents(fn)
    top = fn.body
    loops = [st for st in top if isinstance(st, ast.For) and any(isinstance(n, ast.Call) and ast.unparse(n.func) == "decompose_and_order" for n in ast.walk(st))]
    loop = _only(loops, "the loop calling decompose_and_order")
    at = top.index(loop)
    if not (isinstance(loop.target, ast.Name) and isinstance(loop.iter, ast.Name)):
        raise Untranslatable("shape of the chromosome loop")
    order_var = loop.iter.id
    # `graph`, `components`: where they come from
    gvar = cvar = None
    for st in top[:at]:
        for n in ast.walk(st):
            if isinstance(n, ast.Assign) and len(n.targets) == 1 and isinstance(n.targets[0], ast.Name) and isinstance(n.value, ast.Call):
                f = ast.unparse(n.value.func)
                if f == "GFA":
                    gvar = n.targets[0].id
                if f == "name_comps":
                    if not (len(n.value.args) == 2 and ast.unparse(n.value.args[0]) == gvar):
                        raise Untranslatable("call of name_comps")
                    cvar = n.targets[0].id
                    named_at = n.lineno
                    inner = n.value.args[1]
                    src_comps = [m for m in ast.walk(fn) if isinstance(m, ast.Assign) and ast.unparse(m.targets[0]) == ast.unparse(inner)
                                 and m.lineno < n.lineno]
                    if not src_comps or ast.unparse(src_comps[-1].value) != "%s.all_components()" % gvar:
                        raise Untranslatable("name_comps is not applied to graph.all_components()")
    if gvar is None or cvar is None:
        raise Untranslatable("graph / components not found")
    # the dict of named components is used through lookups and its key set only (so its key order is immaterial)
    for n in ast.walk(fn):
        if isinstance(n, ast.Name) and n.id == cvar and isinstance(n.ctx, ast.Load) and n.lineno > named_at:
            p = par.get(n)
            ok = isinstance(p, ast.Subscript) and p.value is n
            if isinstance(p, ast.Attribute) and p.attr == "keys" and isinstance(par.get(p), ast.Call):
                pp = par.get(par.get(p))
                ok = isinstance(pp, ast.Call) and isinstance(pp.func, ast.Name) and pp.func.id in ("set", "sorted", "len") and pp.args[0] is par.get(p)
            if isinstance(p, ast.Call) and isinstance(p.func, ast.Name) and p.func.id == "len":
                ok = True
            if not ok:
                raise Untranslatable("the dict of named components is used as %s" % ast.unparse(p)[:60])
        if isinstance(n, (ast.Assign, ast.AugAssign, ast.Delete)) and n.lineno > named_at:
            for t in (n.targets if not isinstance(n, ast.AugAssign) else [n.target]):
                x = t
                while isinstance(x, (ast.Subscript, ast.Attribute)):
                    x = x.value
                if isinstance(x, ast.Name) and x.id == cvar:
                    raise Untranslatable("the dict of named components is changed after name_comps")
    # every return of decompose_and_order is five values, all None or none None
    dfn = find_func(mod, "decompose_and_order")
    for n in ast.walk(dfn):
        if isinstance(n, ast.Return):
            if not (isinstance(n.value, ast.Tuple) and len(n.value.elts) == 5):
                raise Untranslatable("decompose_and_order returns %s" % (ast.unparse(n.value) if n.value else None))
            nones = [isinstance(x, ast.Constant) and x.value is None for x in n.value.elts]
            if any(nones) and not all(nones):
                raise Untranslatable("decompose_and_order returns a partly-None tuple")
    # variables that are only ever read by logging calls are not part of the logic
    log_only = set()
    stores = {n.id for n in ast.walk(fn) if isinstance(n, ast.Name) and isinstance(n.ctx, ast.Store)}
    for v in stores:
        loads = [n for n in ast.walk(fn) if isinstance(n, ast.Name) and n.id == v and isinstance(n.ctx, ast.Load)]

        def in_log(n):
            while n in par:
                n = par[n]
                if _or_is_log_call(n):
                    return True
            return False
        if loads and all(in_log(n) for n in loads):
            log_only.add(v)
    g = _OrderRunGen("Int", log_only)
    # the CSV line format: the one `.format` written to a handle in the loop fixes separator and terminator
    fmts = []
    for n in ast.walk(loop):
        if isinstance(n, ast.Call) and isinstance(n.func, ast.Attribute) and n.func.attr == "write" and len(n.args) == 1:
            pieces, _args = _or_format_pieces(n.args[0])
            if pieces is not None and len(pieces) >= 3:
                fmts.append((pieces[1], pieces[-1]))
    if len(set(fmts)) != 1 or not fmts[0][0] or not fmts[0][1]:
        raise Untranslatable("CSV line format: %s" % fmts)
    g.csv = fmts[0]
    # the values the carried variables have before the loop
    asg = _Imp.assigned(loop.body)
    init = {}
    for st in top[:at]:
        if isinstance(st, ast.Assign) and len(st.targets) == 1 and isinstance(st.targets[0], ast.Name) and (st.targets[0].id in asg or st.targets[0].id in _OR_RUNST):
            init[st.targets[0].id] = st.value
    for st in top[:at]:
        for n in ast.walk(st):
            if n is not st and isinstance(n, (ast.Assign, ast.AugAssign)):
                for t in (n.targets if isinstance(n, ast.Assign) else [n.target]):
                    if isinstance(t, ast.Name) and t.id in init and t.id not in (gvar, cvar):
                        raise Untranslatable("%s is assigned in a nested statement before the loop" % t.id)
    types = {gvar: "graph", order_var: "list_str", loop.target.id: "str"}
    atoms = {cvar: ("env.components", "comps"), "outdir": ("env.outdir", "str"), "os.sep": ("env.sep", "str"),
             "gfa_filename.split(os.sep)[-1].split('.')[0]": ("env.stemDot", "str"), "gfa_filename.split(os.sep)[-1][:-4]": ("env.stemCut", "str")}
    fnargs = [x.arg for x in fn.args.args]
    if "outdir" not in fnargs or "gfa_filename" not in fnargs:
        raise Untranslatable("parameters of run_order_gfa")
    init_vals = {}
    for v, e in init.items():
        if v in log_only or v in (gvar, cvar):
            continue
        if isinstance(e, ast.Constant) and isinstance(e.value, int) and not isinstance(e.value, bool):
            types[v] = "int"
            init_vals[v] = "(%d : Int)" % e.value
        elif ast.unparse(e) == "[]":
            types[v] = "list_str"
            init_vals[v] = "[]"
        else:
            raise Untranslatable("initial value of %s: %s" % (v, ast.unparse(e)))
    carried = [v for v in _OR_RUNST if v in types or v == "log"]
    got = sorted([v for v in asg if v in types and v != loop.target.id and v not in log_only] + ["log"])
    # `graph` is changed through the nodes looked up in it
    if any(isinstance(n, ast.Subscript) and ast.unparse(n.value) == gvar + ".nodes" for n in ast.walk(loop)) and gvar not in got:
        got = sorted(got + [gvar])
    # what the body changes among the variables defined before the loop must be part of the loop state `RunSt`
    # (a variable of `RunSt` the body does not assign is simply handed on)
    if any(v not in _OR_RUNST for v in got):
        raise Untranslatable("variables carried by the chromosome loop: %s" % got)
    for v in _OR_RUNST[1:-1]:
        if v not in types:
            raise Untranslatable("%s is not initialised before the loop" % v)
    if gvar != "graph":
        raise Untranslatable("the graph variable is called %s" % gvar)
    im = _Imp(g, types, atoms, pure=False, names=["nodeBody"])
    im.types["log"] = "log"
    for v in _OR_RUNST:
        im.bound.add(v)
    fin = lambda _im: ".ok { %s }" % ", ".join("%s := %s" % (v, v) for v in _OR_RUNST)   # noqa: E731
    body = im.block(list(loop.body), 2, fin)
    if im.names:
        raise Untranslatable("no loop over the nodes of a chromosome")
    extra = [r for r in im.refs if r not in _OR_RUNST and r != loop.target.id]
    if extra:
        raise Untranslatable("the chromosome loop reads %s" % extra)
    out += g.defs
    out.append("/-- separator and terminator of every line written to the CSV -/\ndef csvSep : String := %s\ndef csvEnd : String := %s\n" % (
        _or_lstr(g.csv[0]), _or_lstr(g.csv[1])))
    out.append("/-- the body of `for %s in %s` -/\ndef chromBody (env : Env) (st : RunSt) (%s : String) : Except String RunSt :=\n%s%s\n" % (
        loop.target.id, order_var, loop.target.id, "".join("  let %s := st.%s\n" % (v, v) for v in _OR_RUNST), body))
    out.append("/-- the values of the carried variables before the loop -/\ndef initSt (graph : Graph) : RunSt :=\n  { graph := graph, %s, log := [] }\n" % (
        ", ".join("%s := %s" % (v, init_vals[v]) if v in init_vals else (_ for _ in ()).throw(Untranslatable("%s has no initial value" % v))
                  for v in _OR_RUNST[1:-1])))
    out.append("def runLoop (env : Env) (st : RunSt) (%s : List String) : Except String RunSt :=\n  %s.foldlM (chromBody env) st\n" % (order_var, order_var))
    return _ORDER_RUN_PREAMBLE + "\n" + "\n".join(out) + "\nend Gaftools.Gen.OrderRun\n"


GENERATORS["OrderRun"] = gen_order_run


# ---------------------------------------------------------------------------------------------------------
# conversion.to_unstable: the body of `for nd in gaf_contigs`, statement by statement (C01, C02)
#
# A small typed translator in continuation-passing style: every statement is translated in the environment left by the
# statements before it; an `if` that cannot be folded into one `let` duplicates what follows it into both branches (so a variable
# may be a string on one path and an int on the other, as `query_start` is); every operation that can raise (`tmp[1]`, unpacking
# into two names, `int()` of a string, `None + str`) becomes a `match` whose failing arm is `none`.

_CL_RESERVED = {"end", "at", "from", "do", "in", "then", "else", "if", "match", "with", "fun", "let", "have", "show", "open", "where",
                "by", "def", "structure", "instance", "class", "namespace", "section", "variable", "universe", "import", "mutual",
                "deriving", "for", "return", "try", "catch", "finally", "unless", "Type", "Prop", "Sort", "some", "none", "true", "false",
                "st", "acc", "reference", "strandPlus", "path_start", "path_end", "rstrip", "toInt", "splitOnChar", "pySlice", "searchIv",
                "using", "from", "extends", "infix", "notation", "macro", "syntax", "theorem", "example", "abbrev", "inductive"}
_CL_TYPES = {"Int": "Int", "Bool": "Bool", "Ids": "List String", "Path": "List (Bool × String)", "NodeId": "String", "OptOrient": "Option Bool"}
# the variables that live across iterations: python name -> (field of Gen.ULoop, representation)
_CL_STATE = [("unstable_coord", "Path"), ("orient", "OptOrient"), ("new_start", "Int"), ("new_total", "Int"), ("split_contig", "Bool")]
_CL_LOCAL_DECL = {"nodes_tmp": "Ids"}     # a list of node ids (`[]` alone does not say of what)


def _cl_name(n):
    return n + "_" if n in _CL_RESERVED else n


def _cl_strlit(v):
    if len(v) == 1 and v not in "'\\":
        return "['%s']" % v
    return '"%s".toList' % v.replace("\\", "\\\\").replace('"', '\\"')


def _cl_stores(nodes):
    """names assigned (or mutated through .append) in the statements, in source order"""
    found = []
    for st in nodes:
        for n in ast.walk(st):
            if isinstance(n, ast.Name) and isinstance(n.ctx, ast.Store):
                found.append((n.lineno, n.col_offset, n.id))
            if (isinstance(n, ast.Call) and isinstance(n.func, ast.Attribute) and n.func.attr in ("append", "extend", "pop", "insert", "remove", "clear")
                    and isinstance(n.func.value, ast.Name)):
                found.append((n.lineno, n.col_offset, n.func.value.id))
    out = []
    for _, _, nm in sorted(found):
        if nm not in out:
            out.append(nm)
    return out


def _cl_loads(nodes):
    out = set()
    for st in nodes:
        for n in ast.walk(st):
            if isinstance(n, ast.Name) and isinstance(n.ctx, ast.Load):
                out.add(n.id)
    return out


class _ConvLoop:
    def __init__(self, fn, rec, ref, state):
        self.fn, self.rec, self.ref, self.state = fn, rec, ref, state
        self.allnames = {n.id for n in ast.walk(fn) if isinstance(n, ast.Name)}
        self.defs = {}          # id(For node) -> (name, text, signature)
        self.k_continue = []    # stack: what `continue` / the end of the body produces

    # ---- expressions ------------------------------------------------------------------------------------
    def fresh(self, base):
        n = base
        while n in self.allnames or n in _CL_RESERVED:
            n += "_"
        return n

    def ex(self, e, env, want=None):
        """-> (binds, lean term, type); binds = [(kind, pattern, optional-valued term)] to be matched first, in evaluation order"""
        if isinstance(e, ast.Constant):
            v = e.value
            if isinstance(v, bool):
                return [], "true" if v else "false", "Bool"
            if v is None and want == "OptOrient":
                return [], "none", "OptOrient"
            if isinstance(v, int):
                return [], "(%d : Int)" % v, "Int"
            if isinstance(v, str):
                if want == "OptOrient" and v in (">", "<"):
                    return [], "some true" if v == ">" else "some false", "OptOrient"
                if want == "Path" and v == "":
                    return [], "[]", "Path"
                if want in (None, "Str"):
                    return [], _cl_strlit(v), "Str"
            raise Untranslatable("constant %r where %s is expected" % (v, want))
        if isinstance(e, ast.UnaryOp) and isinstance(e.op, ast.USub):
            if isinstance(e.operand, ast.Constant) and isinstance(e.operand.value, int) and not isinstance(e.operand.value, bool):
                return [], "(-%d : Int)" % e.operand.value, "Int"
            b, l, t = self.ex(e.operand, env)
            if t != "Int":
                raise Untranslatable("unary minus of %s" % t)
            return b, "(-%s)" % l, "Int"
        if isinstance(e, ast.Name):
            ent = env.get(e.id)
            if ent is None:
                raise Untranslatable("%s is read but not assigned before in this iteration" % e.id)
            if ent[1] == "Unbound":
                raise Untranslatable("%s may be unbound where it is read" % e.id)
            if want == "OptOrient" and ent[1] == "Str":
                if e.id in env.get("#orientlike", ()):
                    return [], "some (%s == ['>'])" % ent[0], "OptOrient"       # under the test `x == ">" or x == "<"`
                raise Untranslatable("a string that is not known to be '>' or '<' is used as an orientation")
            return [], ent[0], ent[1]
        if isinstance(e, ast.Attribute) and isinstance(e.value, ast.Name):
            if e.value.id == self.rec and e.value.id not in env:
                if e.attr in ("path_start", "path_end"):
                    return [], e.attr, "Int"
                if e.attr == "strand":
                    return [], "strandPlus", "Strand"
                raise Untranslatable("attribute %s of the record" % e.attr)
            ent = env.get(e.value.id)
            if ent and ent[1] == "Seg" and e.attr == "id":
                return [], "%s.id" % ent[0], "NodeId"
            raise Untranslatable("attribute " + ast.unparse(e))
        if isinstance(e, ast.BinOp) and type(e.op) in (ast.Add, ast.Sub):
            b1, l1, t1 = self.ex(e.left, env)
            b2, l2, t2 = self.ex(e.right, env)
            if t1 == "Int" and t2 == "Int":
                return b1 + b2, "(%s %s %s)" % (l1, "+" if isinstance(e.op, ast.Add) else "-", l2), "Int"
            raise Untranslatable("%s of %s and %s" % (type(e.op).__name__, t1, t2))
        if isinstance(e, ast.Call) and not e.keywords:
            f = e.func
            if isinstance(f, ast.Name) and f.id == "int" and len(e.args) == 1:
                a = e.args[0]
                if (isinstance(a, ast.Subscript) and isinstance(a.slice, ast.Constant) and a.slice.value == 1
                        and isinstance(a.value, ast.Subscript) and isinstance(a.value.slice, ast.Constant) and a.value.slice.value in ("SO", "LN")
                        and isinstance(a.value.value, ast.Attribute) and a.value.value.attr == "tags" and isinstance(a.value.value.value, ast.Name)):
                    ent = env.get(a.value.value.value.id)
                    if ent and ent[1] == "Seg":       # a graph node on a contig is (id, SO, SO + LN)
                        return [], ("%s.so" % ent[0]) if a.value.slice.value == "SO" else "(%s.en - %s.so)" % (ent[0], ent[0]), "Int"
                if isinstance(a, ast.Name):
                    memo = env.get("int:" + a.id)
                    if memo:
                        return [], memo[0], "Int"
                    b, l, t = self.ex(a, env)
                    if t == "Int":
                        return b, l, "Int"
                    if t == "Str":
                        v = self.fresh(a.id + "_int")
                        env["int:" + a.id] = (v, "Int")
                        return b + [("opt", v, "toInt %s" % l)], v, "Int"
                raise Untranslatable("int(%s)" % ast.unparse(a))
            if isinstance(f, ast.Name) and f.id == "len" and len(e.args) == 1:
                b, l, t = self.ex(e.args[0], env)
                if t == "Segs":
                    return b, "((%s).length : Int)" % l, "Int"
                raise Untranslatable("len of %s" % t)
            if isinstance(f, ast.Name) and f.id == "reversed" and len(e.args) == 1:
                b, l, t = self.ex(e.args[0], env)
                if t == "Ids":
                    return b, "(%s).reverse" % l, "Ids"
                raise Untranslatable("reversed of %s" % t)
            if isinstance(f, ast.Attribute) and f.attr == "rstrip" and not e.args:
                b, l, t = self.ex(f.value, env)
                if t == "Str":
                    return b, "(rstrip %s)" % l, "Str"
            if (isinstance(f, ast.Attribute) and f.attr == "split" and len(e.args) == 1 and isinstance(e.args[0], ast.Constant)
                    and isinstance(e.args[0].value, str) and len(e.args[0].value) == 1 and e.args[0].value not in "'\\"):
                b, l, t = self.ex(f.value, env)
                if t == "Str":
                    return b, "(splitOnChar '%s' %s)" % (e.args[0].value, l), "ListStr"
            if ast.unparse(f) in ("utils.search_intervals", "search_intervals") and len(e.args) == 5:
                bs, ls = [], []
                for a, t_want in zip(e.args, ("Segs", "Int", "Int", "Int", "Int")):
                    b, l, t = self.ex(a, env)
                    if t != t_want:
                        raise Untranslatable("argument of search_intervals: %s is %s" % (ast.unparse(a), t))
                    bs += b
                    ls.append(l)
                # recursion by fuel, as in Gen/SearchIv.lean: the length of the list + 2 calls suffice
                return bs, "Gaftools.Gen.searchIv %s %s %s ((%s).length + 2) %s %s" % (ls[0], ls[1], ls[2], ls[0], ls[3], ls[4]), "OptPair"
            raise Untranslatable("call " + ast.unparse(e)[:60])
        if isinstance(e, ast.Subscript):
            if isinstance(e.value, ast.Name) and e.value.id == self.ref and self.ref not in env:
                b, l, t = self.ex(e.slice, env)
                if t != "Str":
                    raise Untranslatable("reference[%s]" % t)
                return b, "(reference (String.ofList %s))" % l, "Segs"       # an unknown name gives [] here and a failing search below
            b, l, t = self.ex(e.value, env)
            if t == "ListStr" and isinstance(e.slice, ast.Constant) and isinstance(e.slice.value, int) and e.slice.value >= 0:
                v = self.fresh("%s_%d" % (e.value.id if isinstance(e.value, ast.Name) else "item", e.slice.value))
                return b + [("opt", v, "%s[%d]?" % (l, e.slice.value))], v, "Str"             # IndexError = none
            if t == "Segs" and isinstance(e.slice, ast.Slice) and e.slice.step is None and e.slice.lower is not None and e.slice.upper is not None:
                b1, l1, t1 = self.ex(e.slice.lower, env)
                b2, l2, t2 = self.ex(e.slice.upper, env)
                if t1 == "Int" and t2 == "Int":
                    return b + b1 + b2, "(pySlice %s %s %s)" % (l, l1, l2), "Segs"
            raise Untranslatable("subscript " + ast.unparse(e)[:60])
        raise Untranslatable("expression " + ast.unparse(e)[:60])

    def test(self, e, env):
        """a condition as a decidable proposition (no operation that can raise is allowed inside)"""
        if isinstance(e, ast.BoolOp):
            return "(" + (" ∧ " if isinstance(e.op, ast.And) else " ∨ ").join(self.test(v, env) for v in e.values) + ")"
        if isinstance(e, ast.UnaryOp) and isinstance(e.op, ast.Not):
            if isinstance(e.operand, ast.Name):
                b, l, t = self.ex(e.operand, env)
                if t == "OptOrient":
                    return "(%s = none)" % l          # '>' and '<' are truthy
                if t == "Bool":
                    return "(%s = false)" % l
            return "(¬ %s)" % self.test(e.operand, env)
        if isinstance(e, ast.Name):
            b, l, t = self.ex(e, env)
            if t == "Bool":
                return "(%s = true)" % l
            if t == "OptOrient":
                return "(%s ≠ none)" % l
            raise Untranslatable("truth value of %s" % t)
        if isinstance(e, ast.Compare) and len(e.ops) > 1:
            parts, left = [], e.left
            for op, right in zip(e.ops, e.comparators):
                parts.append(self.test(ast.Compare(left=left, ops=[op], comparators=[right]), env))
                left = right
            return "(" + " ∧ ".join(parts) + ")"
        if isinstance(e, ast.Compare):
            op, l_, r_ = type(e.ops[0]), e.left, e.comparators[0]
            if op in (ast.In, ast.NotIn):
                b, r, t = self.ex(r_, env)
                if not (t == "Str" and not b and isinstance(l_, ast.Constant) and isinstance(l_.value, str) and len(l_.value) == 1 and l_.value not in "'\\"):
                    raise Untranslatable("membership test " + ast.unparse(e))
                s = "(%s.contains '%s' = true)" % (r, l_.value)
                return s if op is ast.In else "(¬ %s)" % s
            b1, l, t1 = self.ex(l_, env)
            want = {"OptOrient": "OptOrient", "Str": "Str"}.get(t1)
            if t1 == "Strand":
                if not (op in (ast.Eq, ast.NotEq) and isinstance(r_, ast.Constant) and r_.value in ("+", "-")):
                    raise Untranslatable("strand test " + ast.unparse(e))
                return "(strandPlus = %s)" % ("true" if (r_.value == "+") == (op is ast.Eq) else "false")
            b2, r, t2 = self.ex(r_, env, want)
            if b1 or b2:
                raise Untranslatable("a test that can raise: " + ast.unparse(e))
            if t1 != t2 or t1 not in ("Int", "Str", "OptOrient", "Bool"):
                raise Untranslatable("comparison of %s and %s" % (t1, t2))
            if op in (ast.Eq, ast.NotEq):
                return "(%s %s %s)" % (l, "=" if op is ast.Eq else "≠", r)
            if t1 == "Int" and op in (ast.Lt, ast.LtE, ast.Gt, ast.GtE):
                return "(%s %s %s)" % (l, {ast.Lt: "<", ast.LtE: "≤", ast.Gt: ">", ast.GtE: "≥"}[op], r)
        raise Untranslatable("test " + ast.unparse(e)[:60])

    @staticmethod
    def orient_facts(t):
        """names that are '>' or '<' whenever the test holds"""
        parts = t.values if isinstance(t, ast.BoolOp) and isinstance(t.op, ast.Or) else [t]
        names = set()
        for p in parts:
            if not (isinstance(p, ast.Compare) and len(p.ops) == 1 and isinstance(p.ops[0], ast.Eq) and isinstance(p.left, ast.Name)
                    and isinstance(p.comparators[0], ast.Constant) and p.comparators[0].value in (">", "<")):
                return set()
            names.add(p.left.id)
        return names if len(names) == 1 else set()

    # ---- statements -------------------------------------------------------------------------------------
    def with_binds(self, binds, ind, cont):
        if not binds:
            return cont(ind)
        (kind, pat, term), more = binds[0], binds[1:]
        pad = " " * ind
        if kind == "opt":
            return [pad + "match %s with" % term, pad + "| none => none", pad + "| some %s =>" % pat] + self.with_binds(more, ind + 2, cont)
        return [pad + "match %s with" % term, pad + "| [%s, %s] =>" % pat] + self.with_binds(more, ind + 2, cont) + [pad + "| _ => none"]

    @staticmethod
    def bind(env, name, lean, ty):
        env = dict(env)
        env[name] = (lean, ty)
        env.pop("int:" + name, None)
        if name in env.get("#orientlike", ()):
            env["#orientlike"] = set(env["#orientlike"]) - {name}
        return env

    def decl(self, name, env):
        for n, t in self.state:
            if n == name:
                return t
        if name in _CL_LOCAL_DECL:
            return _CL_LOCAL_DECL[name]
        ent = env.get(name)
        return ent[1] if ent and ent[1] in ("Int", "Bool", "OptOrient", "Path", "Ids") else None

    def join_value(self, st, env, var):
        """`if c: v = a [else: v = b]` (possibly nested, one variable, nothing that can raise) as one term"""
        def arm(stmts):
            if not stmts:
                ent = env.get(var)
                if ent is None or ent[1] == "Unbound":
                    return None
                return ent[0]
            if len(stmts) != 1:
                return None
            s = stmts[0]
            if isinstance(s, ast.Assign) and len(s.targets) == 1 and isinstance(s.targets[0], ast.Name) and s.targets[0].id == var:
                try:
                    b, l, t = self.ex(s.value, dict(env), self.decl(var, env))
                except Untranslatable:
                    return None
                if b or t != self.decl(var, env):
                    return None
                return l
            if isinstance(s, ast.If):
                return self.join_value(s, env, var)
            return None
        a, b = arm(st.body), arm(st.orelse)
        if a is None or b is None:
            return None
        try:
            return "(if %s then %s else %s)" % (self.test(st.test, env), a, b)
        except Untranslatable:
            return None

    def block(self, stmts, env, ind, k):
        pad = " " * ind
        if not stmts:
            return k(env, ind)
        s, rest = stmts[0], stmts[1:]
        if isinstance(s, ast.Pass) or (isinstance(s, ast.Expr) and isinstance(s.value, ast.Constant)):
            return self.block(rest, env, ind, k)
        if isinstance(s, ast.Continue):
            return self.k_continue[-1](env, ind)
        if isinstance(s, ast.Assign) and len(s.targets) == 1 and isinstance(s.targets[0], ast.Name):
            name = s.targets[0].id
            want = self.decl(name, env)
            if isinstance(s.value, ast.List) and not s.value.elts:
                if want != "Ids":
                    raise Untranslatable("%s = []: a list of what?" % name)
                b, l, t = [], "([] : List String)", "Ids"
            else:
                b, l, t = self.ex(s.value, env, want)
            if want is not None and t != want:
                raise Untranslatable("%s is assigned a %s" % (name, t))
            if t not in ("Int", "Bool", "Str", "ListStr", "Ids", "Path", "OptOrient", "Segs"):
                raise Untranslatable("%s is assigned a %s" % (name, t))
            ln = _cl_name(name)
            return self.with_binds(b, ind, lambda i2: [" " * i2 + "let %s := %s" % (ln, l)] + self.block(rest, self.bind(env, name, ln, t), i2, k))
        if (isinstance(s, ast.Assign) and len(s.targets) == 1 and isinstance(s.targets[0], ast.Tuple) and len(s.targets[0].elts) == 2
                and all(isinstance(x, ast.Name) for x in s.targets[0].elts)):
            n1, n2 = (x.id for x in s.targets[0].elts)
            b, l, t = self.ex(s.value, env)
            l1, l2 = _cl_name(n1), _cl_name(n2)
            if t == "OptPair":
                b, ty = b + [("opt", "(%s, %s)" % (l1, l2), l)], "Int"
            elif t == "ListStr":
                b, ty = b + [("list2", (l1, l2), l)], "Str"            # ValueError (not exactly two parts) = none
            else:
                raise Untranslatable("unpacking a %s" % t)
            env2 = self.bind(self.bind(env, n1, l1, ty), n2, l2, ty)
            return self.with_binds(b, ind, lambda i2: self.block(rest, env2, i2, k))
        if isinstance(s, ast.AugAssign) and isinstance(s.target, ast.Name) and isinstance(s.op, ast.Add):
            name = s.target.id
            b0, cur, t0 = self.ex(ast.Name(id=name, ctx=ast.Load()), env)
            ln = _cl_name(name)
            if t0 == "Int":
                b, l, t = self.ex(s.value, env)
                if t != "Int":
                    raise Untranslatable("%s += %s" % (name, t))
                return self.with_binds(b, ind, lambda i2: [" " * i2 + "let %s := (%s + %s)" % (ln, cur, l)] + self.block(rest, self.bind(env, name, ln, "Int"), i2, k))
            if t0 == "Path" and isinstance(s.value, ast.BinOp) and isinstance(s.value.op, ast.Add):
                b1, l1, t1 = self.ex(s.value.left, env)
                b2, l2, t2 = self.ex(s.value.right, env)
                if t1 == "OptOrient" and t2 == "NodeId" and not b1 and not b2:
                    v = self.fresh("o")
                    # None + str raises TypeError
                    return self.with_binds([("opt", v, l1)], ind, lambda i2: [" " * i2 + "let %s := (%s ++ [(%s, %s)])" % (ln, cur, v, l2)]
                                           + self.block(rest, self.bind(env, name, ln, "Path"), i2, k))
            raise Untranslatable("augmented assignment " + ast.unparse(s)[:60])
        if (isinstance(s, ast.Expr) and isinstance(s.value, ast.Call) and isinstance(s.value.func, ast.Attribute) and s.value.func.attr == "append"
                and isinstance(s.value.func.value, ast.Name) and len(s.value.args) == 1 and not s.value.keywords):
            name = s.value.func.value.id
            b0, cur, t0 = self.ex(s.value.func.value, env)
            b, l, t = self.ex(s.value.args[0], env)
            if t0 == "Ids" and t == "NodeId":
                ln = _cl_name(name)
                return self.with_binds(b, ind, lambda i2: [" " * i2 + "let %s := (%s ++ [%s])" % (ln, cur, l)] + self.block(rest, self.bind(env, name, ln, "Ids"), i2, k))
            raise Untranslatable("append of %s to %s" % (t, t0))
        if isinstance(s, ast.If):
            stored = _cl_stores([s])
            if len(stored) == 1 and stored[0] in env:
                j = self.join_value(s, env, stored[0])
                if j is not None:
                    ln = _cl_name(stored[0])
                    return [pad + "let %s := %s" % (ln, j)] + self.block(rest, self.bind(env, stored[0], ln, self.decl(stored[0], env)), ind, k)
            t = self.test(s.test, env)
            env_t = dict(env)
            facts = self.orient_facts(s.test)
            if facts:
                env_t["#orientlike"] = set(env.get("#orientlike", ())) | facts
            return ([pad + "if %s then" % t] + self.block(list(s.body) + rest, env_t, ind + 2, k) + [pad + "else"]
                    + self.block(list(s.orelse) + rest, dict(env), ind + 2, k))
        if isinstance(s, ast.For) and isinstance(s.target, ast.Name) and not s.orelse:
            return self.loop(s, rest, env, ind, k)
        raise Untranslatable("statement " + ast.unparse(s)[:70])

    # ---- inner loops ------------------------------------------------------------------------------------
    def loop(self, s, rest, env, ind, k):
        pad = " " * ind
        b, it, ty = self.ex(s.iter, env)
        tgt = s.target.id
        stored = [n for n in _cl_stores(s.body) if n != tgt]
        state = [n for n in stored if n in env and env[n][1] != "Unbound" and not n.startswith("#")]
        local = [n for n in stored if n not in state] + [tgt]
        if not state:
            raise Untranslatable("a loop that changes nothing")
        for n in state:
            if env[n][1] not in _CL_TYPES:
                raise Untranslatable("loop state %s : %s" % (n, env[n][1]))

        def after(env_):            # what the loop body bound is not read afterwards (it would be unbound after zero iterations)
            env_ = dict(env_)
            for n in local:
                env_[n] = (n, "Unbound")
                env_.pop("int:" + n, None)
            return env_
        if ty == "Segs":
            # a pure body: one named step function, folded over the list
            name, params = self.scan_def(s, state, env)
            args, binds = [], list(b)
            for pn, kind, pty in params:
                node = ast.Call(func=ast.Name(id="int", ctx=ast.Load()), args=[ast.Name(id=pn, ctx=ast.Load())], keywords=[]) if kind == "int" else ast.Name(id=pn, ctx=ast.Load())
                bb, l, t = self.ex(node, env)
                if t != pty:
                    raise Untranslatable("the inner loop reads %s as %s here and as %s elsewhere" % (pn, t, pty))
                binds += bb
                args.append(l)
            acc = "acc"
            projs = self.projs(acc, len(state))

            def cont(i2):
                p2 = " " * i2
                lines = [p2 + "let %s := (%s).foldl (%s) (%s)" % (acc, it, " ".join([name] + args), ", ".join(env[n][0] for n in state))]
                env2 = env
                for n, pr in zip(state, projs):
                    lines.append(p2 + "let %s := %s" % (_cl_name(n), pr))
                    env2 = self.bind(env2, n, _cl_name(n), env[n][1])
                return lines + self.block(rest, after(env2), i2, k)
            return self.with_binds(binds, ind, cont)
        if ty == "Ids" and len(state) == 1:
            # a body that can raise: folded in the option monad, the step written in place
            v = state[0]
            vt = env[v][1]
            lv, li = _cl_name(v), _cl_name(tgt)
            inner_env = self.bind(self.bind(env, v, lv, vt), tgt, li, "NodeId")
            done = lambda e_, i_: [" " * i_ + "some %s" % e_[v][0]]
            self.k_continue.append(done)
            body = self.block(list(s.body), inner_env, ind + 6, done)
            self.k_continue.pop()
            body[-1] += ")"

            def cont(i2):
                p2 = " " * i2
                return ([p2 + "match (%s).foldlM (fun (%s : %s) (%s : String) =>" % (it, lv, _CL_TYPES[vt], li)] + [(" " * (i2 - ind)) + x for x in body]
                        + [p2 + "    %s with" % env[v][0], p2 + "| none => none", p2 + "| some %s =>" % lv]
                        + self.block(rest, after(self.bind(env, v, lv, vt)), i2 + 2, k))
            return self.with_binds(b, ind, cont)
        raise Untranslatable("loop over a %s with %d changing variables" % (ty, len(state)))

    @staticmethod
    def projs(acc, n):
        if n == 1:
            return [acc]
        return ["%s.%s" % (acc, ".".join(["2"] * i + ["1"])) for i in range(n - 1)] + ["%s.%s" % (acc, ".".join(["2"] * (n - 1)))]

    def scan_def(self, s, state, env):
        """the body of a `for` over graph nodes as a function (parameters) -> state -> node -> state"""
        if id(s) in self.defs:
            name, _, params, sig = self.defs[id(s)]
            if sig != [env[n][1] for n in state]:
                raise Untranslatable("inner loop state differs between the paths that reach it")
            return name, params
        tgt = s.target.id
        stored = _cl_stores(s.body)
        free = sorted(n for n in _cl_loads(s.body) if n not in stored and n != tgt and n not in ("int", "len"))
        # a free name that only occurs as int(<name>) is passed as that integer
        under_int = set()
        for n in ast.walk(ast.Module(body=list(s.body), type_ignores=[])):
            if isinstance(n, ast.Call) and isinstance(n.func, ast.Name) and n.func.id == "int" and len(n.args) == 1 and isinstance(n.args[0], ast.Name):
                under_int.add(id(n.args[0]))
        params = []
        inner = {}
        for n in free:
            occ = [x for x in ast.walk(ast.Module(body=list(s.body), type_ignores=[])) if isinstance(x, ast.Name) and x.id == n]
            if all(id(x) in under_int for x in occ):
                params.append((n, "int", "Int"))
                inner[n] = (_cl_name(n), "Int")
            else:
                ent = env.get(n)
                if ent is None or ent[1] not in ("Int", "Bool"):
                    raise Untranslatable("the inner loop reads %s" % n)
                params.append((n, "var", ent[1]))
                inner[n] = (_cl_name(n), ent[1])
        # free names in source order of first use, so that the signature does not depend on their spelling
        order = {}
        for x in ast.walk(ast.Module(body=list(s.body), type_ignores=[])):
            if isinstance(x, ast.Name) and x.id in inner and x.id not in order:
                order[x.id] = (x.lineno, x.col_offset)
        for x in ast.walk(ast.Module(body=list(s.body), type_ignores=[])):
            if isinstance(x, ast.Name) and x.id in inner:
                order[x.id] = min(order[x.id], (x.lineno, x.col_offset))
        params.sort(key=lambda p: order[p[0]])
        for n in state:
            inner[n] = (_cl_name(n), env[n][1])
        inner[tgt] = (_cl_name(tgt), "Seg")
        name = "convScanStep" if not self.defs else "convScanStep%d" % (len(self.defs) + 1)
        done = lambda e_, i_: [" " * i_ + "(%s)" % ", ".join(e_[n][0] for n in state)]
        self.k_continue.append(done)
        body = self.block(list(s.body), inner, 2, done)
        self.k_continue.pop()
        sty = " × ".join(_CL_TYPES[env[n][1]] for n in state)
        head = "def %s %s(acc : %s) (%s : Seg) : %s :=" % (
            name, "".join("(%s : %s) " % (_cl_name(p), t) for p, _, t in params), sty, _cl_name(tgt), sty)
        lets = ["  let %s := %s" % (_cl_name(n), pr) for n, pr in zip(state, self.projs("acc", len(state)))]
        text = "\n".join([head] + lets + body)
        self.defs[id(s)] = (name, text, params, [env[n][1] for n in state])
        return name, params


def gen_conv_loop_u():
    _, src = src_of("gaftools/conversion.py")
    fn = find_func(ast.parse(src), "to_unstable")
    params = [a.arg for a in fn.args.args]
    if len(params) != 2:
        raise Untranslatable("to_unstable arity")
    rec, ref = params
    loop = _only([st for st in fn.body if isinstance(st, ast.For) and any(isinstance(n, ast.Call) and ast.unparse(n.func).endswith("search_intervals") for n in ast.walk(st))],
                 "loop over the path items of to_unstable")
    if not (isinstance(loop.iter, ast.Name) and isinstance(loop.target, ast.Name)) or loop.orelse:
        raise Untranslatable("shape of the loop over the path items")
    at = fn.body.index(loop)
    pre, post = fn.body[:at], fn.body[at + 1:]
    # the list iterated over is the token list of the path column (its tokenisation is the model's `pathTokens`, tied by the
    # differential tests only)
    toks = [st for st in pre if isinstance(st, ast.Assign) and ast.unparse(st.targets[0]) == loop.iter.id]
    if len(toks) != 1 or ast.unparse(toks[0].value) != "list(filter(None, re.split('(>)|(<)', %s.path)))" % rec:
        raise Untranslatable("the loop does not run over the tokens of the path")
    # which variables live across iterations: assigned in the body and (assigned before the loop or read after it)
    stored = [n for n in _cl_stores(loop.body) if n != loop.target.id]
    before = _cl_stores([st for st in pre if st is not toks[0]])
    state = [n for n in stored if n in before or n in _cl_loads(post)]
    if sorted(state) != sorted(n for n, _ in _CL_STATE):
        raise Untranslatable("variables carried from one path item to the next: %s" % sorted(state))
    if loop.target.id in _cl_loads(post) or loop.iter.id in stored:
        raise Untranslatable("the loop variable is used after the loop / the token list changes in the loop")
    tr = _ConvLoop(fn, rec, ref, _CL_STATE)
    # initial values: one constant assignment before the loop, or unbound
    init = {}
    for n, ty in _CL_STATE:
        asg = [st for st in pre if n in _cl_stores([st])]
        if not asg:
            if ty != "Bool":
                raise Untranslatable("%s is not assigned before the loop" % n)
            init[n] = None
            continue
        if len(asg) != 1 or not (isinstance(asg[0], ast.Assign) and len(asg[0].targets) == 1 and isinstance(asg[0].targets[0], ast.Name)):
            raise Untranslatable("initial value of %s" % n)
        b, l, t = tr.ex(asg[0].value, {}, ty)
        if b or t != ty:
            raise Untranslatable("initial value of %s" % n)
        init[n] = l
    unbound = [n for n, _ in _CL_STATE if init[n] is None]
    if unbound != ["split_contig"]:
        raise Untranslatable("unbound before the loop: %s" % unbound)
    env = {}
    head = []
    for n, ty in _CL_STATE:
        if init[n] is None:
            env[n] = ("st.%s" % n, "Unbound")
        else:
            env[n] = (_cl_name(n), ty)
            head.append("  let %s := st.%s" % (_cl_name(n), n))
    tv = loop.target.id
    env[tv] = (_cl_name(tv), "Str")

    def done(e_, i_):
        fields = []
        for n, ty in _CL_STATE:
            l, t = e_[n]
            if init[n] is None:
                fields.append("%s := %s" % (n, l if t == "Unbound" else "some %s" % l))
            else:
                if t != ty:
                    raise Untranslatable("%s ends an iteration as %s" % (n, t))
                fields.append("%s := %s" % (n, l))
        return [" " * i_ + "some { %s }" % ", ".join(fields)]
    tr.k_continue.append(done)
    body = tr.block(list(loop.body), env, 2, done)
    inner_defs = "\n\n".join(t for _, t, _, _ in tr.defs.values())
    return _CONV_LOOP_U_TEMPLATE % {
        "hdr": "generated by harness/translate.py from gaftools/conversion.py : to_unstable, the body of `for nd in gaf_contigs` translated statement by\n"
               "    statement ('>' = true, '<' = false; a node on a contig is (id, SO, SO + LN); every operation that raises gives `none`) — do not edit",
        "init": ", ".join("%s := %s" % (n, init[n] if init[n] is not None else "none") for n, _ in _CL_STATE),
        "inner": inner_defs, "tok": _cl_name(tv), "lets": "\n".join(head), "body": "\n".join(body)}


_CONV_LOOP_U_TEMPLATE = """import Gaftools.Model.ConvText
import Gaftools.Gen.SearchIv
/-! %(hdr)s -/
set_option linter.unusedVariables false
namespace Gaftools.Gen
open Gaftools.Gaf Gaftools.Conv Gaftools.ConvText

/-- the Python slice `l[a:b]` (negative indices count from the end, everything is clipped to the list) -/
def pySlice {α : Type} (l : List α) (a b : Int) : List α :=
  let n : Int := l.length
  let a' := if a < 0 then max (a + n) 0 else min a n
  let b' := if b < 0 then max (b + n) 0 else min b n
  (l.drop a'.toNat).take (b' - a').toNat

/-- the variables of `to_unstable` that live from one path token to the next; `split_contig` is unbound (`none`) until the first
    contig token has been handled -/
structure ULoop where
  unstable_coord : List (Bool × String)
  orient : Option Bool
  new_start : Int
  new_total : Int
  split_contig : Option Bool
deriving DecidableEq, Repr

/-- the assignments before the loop -/
def convInit : ULoop := { %(init)s }

/-- the body of `for i in reference[...][start : end + 1]`; the state is the tuple of the variables it changes -/
%(inner)s

/-- the body of `for nd in gaf_contigs`; `none` = an exception -/
def convTokStep (reference : String → List Seg) (strandPlus : Bool) (path_start path_end : Int) (st : ULoop) (%(tok)s : Str) : Option ULoop :=
%(lets)s
%(body)s
end Gaftools.Gen
"""

def gen_conv_loop_u_safe():
    try:
        return gen_conv_loop_u()
    except (AttributeError, TypeError, ValueError) as e:      # an AST shape the translator did not expect: not an alarm
        raise Untranslatable("unexpected shape: %s" % e)


GENERATORS["ConvLoopU"] = gen_conv_loop_u_safe


# ---------------------------------------------------------------------------------------------------------
# GFA.path_exists / GFA.extract_path / utils.rev_comp / find_path.run, statement by statement (C14 and its string level)

PW_PREAMBLE = """import Gaftools.Model.TextLayer
/-! %s -/
set_option linter.unusedVariables false
namespace Gaftools.Gen.PathWalk
open Gaftools.Gfa Gaftools.TextLayer

/-- how a statement sequence inside a loop body ends: it falls through (with the loop-carried variables), it executes `return v`,
    or it raises -/
inductive Flow (σ α : Type) where
  | cont (s : σ)
  | ret (v : α)
  | exc (e : PyErr)

/-- `for x in l: body` over the loop-carried variables `s` -/
def forEach {ι σ α : Type} (l : List ι) (s : σ) (body : σ → ι → Flow σ α) : Flow σ α :=
  match l with
  | [] => .cont s
  | x :: xs =>
    match body s x with
    | .cont s' => forEach xs s' body
    | .ret v => .ret v
    | .exc e => .exc e

/-- a non-empty Python string seen as its first character and the rest: `n[0]` = `n.1`, `n[1:]` = `n.2` -/
abbrev Tok := Char × String

/-- `l[i]` for a Python integer (negative = from the end); `none` = `IndexError` -/
def pyGet {α : Type} (l : List α) (i : Int) : Option α :=
  if i < 0 then (if (l.length : Int) + i < 0 then none else l[((l.length : Int) + i).toNat]?) else l[i.toNat]?

/-- `range(a, b)` -/
def pyRange (a b : Int) : List Int := (List.range (b - a).toNat).map (fun (k : Nat) => a + (k : Int))

/-- `d[k]` for a dict literal with distinct keys; `none` = `KeyError` -/
def dictGet {κ ν : Type} [BEq κ] (d : List (κ × ν)) (k : κ) : Option ν := (d.find? (fun e => e.1 == k)).map (fun e => e.2)

/-- `getattr(node, "end")` (`true`) / `getattr(node, "start")` (`false`) -/
def sideSet (n : Node) (side : Bool) : List Adj := if side then n.endAdj else n.startAdj

/-- `re.findall("[H][R]+", ·)` (`min` = 1) / `re.findall("[H][R]*", ·)` (`min` = 0): one left-to-right scan; the state is the
    pending first character and the (reversed) greedy run after it -/
def findall (H R : Char → Bool) (min : Nat) : Option (Char × List Char) → List Char → List Tok
  | none, [] => []
  | some (c, acc), [] => if acc.length ≥ min then [(c, String.ofList acc.reverse)] else []
  | none, x :: xs => if H x then findall H R min (some (x, [])) xs else findall H R min none xs
  | some (c, acc), x :: xs =>
    if R x then findall H R min (some (c, x :: acc)) xs
    else (if acc.length ≥ min then [(c, String.ofList acc.reverse)] else []) ++
      (if H x then findall H R min (some (x, [])) xs else findall H R min none xs)
"""

_PW_RESERVED = {"g", "out", "st", "v", "e", "c", "fun", "match", "with", "let", "if", "then", "else", "end", "from", "at", "do", "in", "have", "show",
                "open", "def", "where", "by", "Type", "Prop", "Sort", "forEach", "pyGet", "pyRange", "dictGet", "sideSet", "findall", "revComp",
                "complement", "pathExists", "extractPath", "run", "deriving", "instance", "structure", "theorem", "namespace", "section",
                "import", "mutual", "class", "return", "for", "unless", "try", "catch", "finally", "some", "none", "true", "false"}


def _pw_char(ch):
    if len(ch) != 1 or ch in "'\\" or not (32 <= ord(ch) < 127):
        raise Untranslatable("character literal %r" % ch)
    return "'%s'" % ch


def _pw_str(s):
    if any(not (32 <= ord(ch) < 127) or ch in '"\\' for ch in s):
        raise Untranslatable("string literal %r" % s)
    return '"%s"' % s


def _pw_regex(rx):
    """`[ab][^ab]+` / `[ab][^ab]*` -> (H, R, min): class of the first character, class of the run, least length of the run"""
    m = re.fullmatch(r"\[([^\]\[\\^-]+)\]\[(\^?)([^\]\[\\^-]+)\]([+*])", rx)
    if not m:
        raise Untranslatable("regular expression %r is not `[..][..]+`" % rx)

    def cls(chars):
        return " || ".join("c == %s" % _pw_char(ch) for ch in chars)
    H = "(fun c => %s)" % cls(m.group(1))
    R = "(fun c => !(%s))" % cls(m.group(3)) if m.group(2) else "(fun c => %s)" % cls(m.group(3))
    return H, R, 1 if m.group(4) == "+" else 0


class PWFun:
    """one Python function -> one Lean definition of type `Except PyErr α`; typed, statement by statement.

    Types: 'str' 'char' 'int' 'bool' 'tok' (first character, rest) 'node' 'edge' 'case' (value of the `cases` table: side name as
    Bool, side number as Bool) 'side' 'bit' 'graph' 'skip' ('list', T) ('tuple', T, U) ('dict', 'case')."""

    def __init__(self, fn, env, unit_result=False):
        self.fn = fn
        self.n = 0
        self.unit = unit_result          # the function returns nothing: its result is what it printed (`out`)
        self.env0 = env
        self.writer = None

    # ---- names
    def fresh(self):
        self.n += 1
        return "x%d" % self.n

    @staticmethod
    def lname(py):
        return py + "_" if (py in _PW_RESERVED or re.fullmatch(r"x\d+", py)) else py

    # ---- how `return` / `raise` are written at top level and inside a loop body
    def ret(self, mode, v):
        if self.unit:
            v = "out"
        return (".ok %s" if mode == "top" else ".ret %s") % v

    def exc(self, mode, e):
        return (".error %s" if mode == "top" else ".exc %s") % e

    # ---- expressions: returns (lean term, type); exceptions of sub-expressions are hoisted (in evaluation order) into `hoist`
    def ex(self, e, env, hoist):
        if isinstance(e, ast.Constant):
            if isinstance(e.value, bool):
                return ("true" if e.value else "false"), "bool"
            if isinstance(e.value, int):
                return "(%d : Int)" % e.value, "int"
            if isinstance(e.value, str):
                return _pw_str(e.value), "str"
            raise Untranslatable("constant %r" % (e.value,))
        if isinstance(e, ast.UnaryOp) and isinstance(e.op, ast.USub) and isinstance(e.operand, ast.Constant) and type(e.operand.value) is int:
            return "(-%d : Int)" % e.operand.value, "int"
        if isinstance(e, ast.UnaryOp) and isinstance(e.op, ast.Not):
            t, ty = self.ex(e.operand, env, hoist)
            if ty != "bool":
                raise Untranslatable("truth value of a %s: %s" % (ty, ast.unparse(e.operand)))
            return "(!%s)" % t, "bool"
        if isinstance(e, ast.Name):
            if e.id not in env:
                raise Untranslatable("name %s is not (always) defined here" % e.id)
            t, ty = env[e.id]
            if ty in ("skip", "graph", "writer", "gfapath", "outpath"):
                raise Untranslatable("use of %s" % e.id)
            return t, ty
        if isinstance(e, ast.BinOp) and type(e.op) in (ast.Add, ast.Sub):
            a, ta = self.ex(e.left, env, hoist)
            b, tb = self.ex(e.right, env, hoist)
            if ta == tb == "int":
                return "(%s %s %s)" % (a, "+" if isinstance(e.op, ast.Add) else "-", b), "int"
            if ta == tb == "str" and isinstance(e.op, ast.Add):
                return "(%s ++ %s)" % (a, b), "str"
            raise Untranslatable("arithmetic on %s, %s" % (ta, tb))
        if isinstance(e, ast.BoolOp):
            parts = []
            for i, x in enumerate(e.values):
                h = []
                t, ty = self.ex(x, env, h)
                if ty != "bool":
                    raise Untranslatable("truth value of a %s" % (ty,))
                if h and i > 0:
                    raise Untranslatable("an operand of and/or that can raise: %s" % ast.unparse(x))
                hoist.extend(h)
                parts.append(t)
            return "(" + (" && " if isinstance(e.op, ast.And) else " || ").join(parts) + ")", "bool"
        if isinstance(e, ast.JoinedStr):
            parts = []
            for p in e.values:
                if isinstance(p, ast.Constant) and isinstance(p.value, str):
                    parts.append(_pw_str(p.value))
                elif isinstance(p, ast.FormattedValue) and p.conversion == -1 and p.format_spec is None:
                    t, ty = self.ex(p.value, env, hoist)
                    if ty != "str":
                        raise Untranslatable("f-string field of type %s" % (ty,))
                    parts.append(t)
                else:
                    raise Untranslatable("f-string part %s" % ast.dump(p))
            return "(" + " ++ ".join(parts) + ")" if len(parts) > 1 else (parts[0] if parts else '""'), "str"
        if isinstance(e, ast.List):
            if not e.elts:
                return "[]", ("list", None)
            ts = [self.ex(x, env, hoist) for x in e.elts]
            if any(t[1] != ts[0][1] for t in ts):
                raise Untranslatable("list of mixed types")
            return "[" + ", ".join(t[0] for t in ts) + "]", ("list", ts[0][1])
        if isinstance(e, ast.Tuple) and len(e.elts) == 2:
            a, ta = self.ex(e.elts[0], env, hoist)
            b, tb = self.ex(e.elts[1], env, hoist)
            return "(%s, %s)" % (a, b), ("tuple", ta, tb)
        if isinstance(e, ast.Attribute):
            if e.attr == "seq":
                t, ty = self.ex(e.value, env, hoist)
                if ty == "node":
                    return "%s.seq" % t, "str"
            raise Untranslatable("attribute %s" % ast.unparse(e))
        if isinstance(e, ast.Subscript):
            return self.subscript(e, env, hoist)
        if isinstance(e, ast.Compare) and len(e.ops) == 1:
            return self.compare(e, env, hoist)
        if isinstance(e, ast.Call):
            return self.call(e, env, hoist)
        raise Untranslatable("expression %s" % ast.unparse(e)[:70])

    def is_graph(self, e, env):
        return isinstance(e, ast.Name) and e.id in env and env[e.id][1] == "graph"

    def opt(self, hoist, scrut, err, ty):
        x = self.fresh()
        hoist.append(("opt", scrut, err, x))
        return x, ty

    def subscript(self, e, env, hoist):
        v, s = e.value, e.slice
        # self.nodes[k]
        if isinstance(v, ast.Attribute) and v.attr == "nodes" and self.is_graph(v.value, env):
            k, tk = self.ex(s, env, hoist)
            if tk != "str":
                raise Untranslatable("node key of type %s" % (tk,))
            return self.opt(hoist, "g.find %s" % k, ".keyError", "node")
        t, ty = self.ex(v, env, hoist)
        if isinstance(s, ast.Slice):
            if (ty == "tok" and isinstance(s.lower, ast.Constant) and s.lower.value == 1 and type(s.lower.value) is int
                    and s.upper is None and s.step is None):
                return "%s.2" % t, "str"
            raise Untranslatable("slice %s" % ast.unparse(e))
        const = s.value if isinstance(s, ast.Constant) and type(s.value) is int else None
        if ty == "tok" and const == 0:
            return "%s.1" % t, "char"
        if ty == "case" and const in (0, 1):
            return "%s.%d" % (t, const + 1), ("side" if const == 0 else "bit")
        if ty == "edge" and const in (0, 1):
            return ("%s.1" % t, "str") if const == 0 else ("%s.2.1" % t, "bit")
        if isinstance(ty, tuple) and ty[0] == "dict":
            raise Untranslatable("table lookup outside `try`: %s" % ast.unparse(e))
        i, ti = self.ex(s, env, hoist)
        if ti != "int":
            raise Untranslatable("index of type %s" % (ti,))
        if ty == "str":
            return self.opt(hoist, "pyGet %s.toList %s" % (t, i), ".indexError", "char")
        if isinstance(ty, tuple) and ty[0] == "list" and ty[1] is not None:
            return self.opt(hoist, "pyGet %s %s" % (t, i), ".indexError", ty[1])
        if ty == ("list", None) and isinstance(v, ast.Name):
            # an element of a list that is still empty here: its type is fixed by the use (`settle`)
            return self.opt(hoist, "pyGet %s %s" % (t, i), ".indexError", ("?", v.id))
        raise Untranslatable("subscript of a %s: %s" % (ty, ast.unparse(e)))

    def settle(self, ty, want, env):
        """an element of a list whose element type is still open takes the type its use requires"""
        if isinstance(ty, tuple) and ty[0] == "?" and not isinstance(want, tuple):
            name = ty[1]
            if name in env and env[name][1] == ("list", None):
                env[name] = (env[name][0], ("list", want))
                self.list_elem[name] = want
                return want
            if name in env and env[name][1] == ("list", want):
                return want
        return ty

    def as_char(self, e, env, hoist):
        if isinstance(e, ast.Constant) and isinstance(e.value, str):
            if len(e.value) != 1:
                raise Untranslatable("a character is compared with %r" % e.value)
            return _pw_char(e.value)
        t, ty = self.ex(e, env, hoist)
        if ty != "char":
            raise Untranslatable("expected a character: %s" % ast.unparse(e))
        return t

    def coerce(self, e, want, env, hoist):
        """translate `e` at type `want` ('char' and 'bit' accept the matching constants)"""
        if want == "char":
            return self.as_char(e, env, hoist)
        if want == "bit" and isinstance(e, ast.Constant) and type(e.value) is int and e.value in (0, 1):
            return "true" if e.value == 1 else "false"
        if isinstance(want, tuple) and want[0] == "tuple" and isinstance(e, ast.Tuple) and len(e.elts) == 2:
            return "(%s, %s)" % (self.coerce(e.elts[0], want[1], env, hoist), self.coerce(e.elts[1], want[2], env, hoist))
        t, ty = self.ex(e, env, hoist)
        ty = self.settle(ty, want, env)
        if ty != want:
            raise Untranslatable("%s has type %s, expected %s" % (ast.unparse(e), ty, want))
        return t

    def static_type(self, e, env):
        """type of `e` without emitting anything (constants of one character count as 'char', 0/1 as 'bit' only through `coerce`)"""
        t, ty = self.ex(e, dict(env), [])
        return ty

    def compare(self, e, env, hoist):
        l, r, op = e.left, e.comparators[0], type(e.ops[0])
        if op in (ast.In, ast.NotIn):
            if self.is_graph(r, env):
                k, tk = self.ex(l, env, hoist)
                if tk != "str":
                    raise Untranslatable("membership of a %s in the graph" % (tk,))
                c = "(g.has %s)" % k
            elif isinstance(r, (ast.List, ast.Set, ast.Tuple)) and r.elts and all(isinstance(x, ast.Constant) and isinstance(x.value, str) and len(x.value) == 1 for x in r.elts):
                c = "([%s].contains %s)" % (", ".join(_pw_char(x.value) for x in r.elts), self.as_char(l, env, hoist))
            else:
                raise Untranslatable("membership test %s" % ast.unparse(e))
            return (c if op is ast.In else "(!%s)" % c), "bool"
        if op in (ast.Eq, ast.NotEq):
            # type of the side that is not a bare constant decides
            def shape(x):
                try:
                    return self.static_type(x, env)
                except Untranslatable:
                    return None
            tl, tr = shape(l), shape(r)

            def refine(a, b):       # a 'str'/'int' constant position takes the type of the other side
                if isinstance(a, tuple) and isinstance(b, tuple) and a[0] == b[0] == "tuple":
                    return ("tuple", refine(a[1], b[1]), refine(a[2], b[2]))
                if a in ("str", "int") and b in ("char", "bit"):
                    return b
                return a
            if tl is None or tr is None:
                raise Untranslatable("comparison %s" % ast.unparse(e))
            want = refine(refine(tl, tr), refine(tr, tl))
            if want in ("skip", "graph", "writer", "node") or (isinstance(want, tuple) and want[0] in ("list", "dict")):
                raise Untranslatable("equality of %s" % (want,))
            a = self.coerce(l, want, env, hoist)
            b = self.coerce(r, want, env, hoist)
            c = "(%s == %s)" % (a, b)
            return (c if op is ast.Eq else "(!%s)" % c), "bool"
        if op in (ast.Lt, ast.LtE, ast.Gt, ast.GtE):
            a, ta = self.ex(l, env, hoist)
            b, tb = self.ex(r, env, hoist)
            if ta == tb == "int":
                return "decide (%s %s %s)" % (a, {ast.Lt: "<", ast.LtE: "≤", ast.Gt: ">", ast.GtE: "≥"}[op], b), "bool"
        raise Untranslatable("comparison %s" % ast.unparse(e))

    def call(self, e, env, hoist):
        f, a = e.func, e.args
        u = ast.unparse(f)
        if e.keywords:
            raise Untranslatable("keyword arguments: %s" % ast.unparse(e)[:60])
        if u == "len" and len(a) == 1:
            t, ty = self.ex(a[0], env, hoist)
            if ty == "str":
                return "(%s.toList.length : Int)" % t, "int"
            if isinstance(ty, tuple) and ty[0] == "list":
                return "(%s.length : Int)" % t, "int"
            raise Untranslatable("len of a %s" % (ty,))
        if u == "getattr" and len(a) == 2:
            n, tn = self.ex(a[0], env, hoist)
            s, ts = self.ex(a[1], env, hoist)
            if tn == "node" and ts == "side":
                return "(sideSet %s %s)" % (n, s), ("list", "edge")
            raise Untranslatable("getattr(%s, %s)" % (tn, ts))
        if u == "re.findall" and len(a) == 2 and isinstance(a[0], ast.Constant) and isinstance(a[0].value, str):
            H, R, mn = _pw_regex(a[0].value)
            t, ty = self.ex(a[1], env, hoist)
            if ty != "str":
                raise Untranslatable("re.findall on a %s" % (ty,))
            return "(findall %s %s %d none %s.toList)" % (H, R, mn, t), ("list", "tok")
        if u == "rev_comp" and len(a) == 1:
            t, ty = self.ex(a[0], env, hoist)
            if ty == "str":
                return "(revComp %s)" % t, "str"
            raise Untranslatable("rev_comp of a %s" % (ty,))
        if isinstance(f, ast.Attribute):
            # methods of the graph
            if self.is_graph(f.value, env) and f.attr in ("path_exists", "extract_path") and len(a) == 1:
                t, ty = self.ex(a[0], env, hoist)
                want, lean, res = {"path_exists": (("list", "tok"), "pathExists", "bool"), "extract_path": ("str", "extractPath", "str")}[f.attr]
                ty = self.settle(ty, want, env)
                if ty != want:
                    raise Untranslatable("%s called on a %s" % (f.attr, ty))
                x = self.fresh()
                hoist.append(("exc", "%s g %s" % (lean, t), x))
                return x, res
            if f.attr == "join" and len(a) == 1 and isinstance(f.value, ast.Constant) and isinstance(f.value.value, str):
                t, ty = self.ex(a[0], env, hoist)
                if ty != ("list", "str"):
                    raise Untranslatable("join of a %s" % (ty,))
                return ("(String.join %s)" % t if f.value.value == "" else "(%s.intercalate %s)" % (_pw_str(f.value.value), t)), "str"
            t, ty = self.ex(f.value, env, hoist)
            if f.attr == "startswith" and len(a) == 1 and ty == "tok" and isinstance(a[0], ast.Constant) and isinstance(a[0].value, str) and len(a[0].value) == 1:
                return "(%s.1 == %s)" % (t, _pw_char(a[0].value)), "bool"
            if f.attr == "strip" and not a and ty == "str":
                return "(pyStrip %s)" % t, "str"
        raise Untranslatable("call %s" % ast.unparse(e)[:70])

    # ---- statements
    @staticmethod
    def wrap(hoist, mode_exc, lines, ind):
        """the matches of the hoisted sub-expressions, in evaluation order, around `lines` (already indented by `ind`)"""
        pad = " " * ind
        out = []
        for h in hoist:
            if h[0] == "opt":
                out += ["%smatch %s with" % (pad, h[1]), "%s| none => %s" % (pad, mode_exc(h[2])), "%s| some %s =>" % (pad, h[3])]
            else:
                out += ["%smatch %s with" % (pad, h[1]), "%s| .error e => %s" % (pad, mode_exc("e")), "%s| .ok %s =>" % (pad, h[2])]
        return out + lines

    def skippable(self, st, env):
        """statements with no effect on what the model observes: doc strings, logging, timers, closing files, choosing the output stream"""
        if isinstance(st, ast.Expr) and isinstance(st.value, ast.Constant):
            return True
        if isinstance(st, ast.Pass):
            return True
        if isinstance(st, ast.Expr) and isinstance(st.value, ast.Call):
            u = ast.unparse(st.value.func)
            if u.split(".")[0] in ("logging", "logger") and "." in u:
                return True
            if u == "log_memory_usage" and not st.value.args:
                return True
            m = re.fullmatch(r"(\w+)\.close", u)
            if m and m.group(1) in env and (env[m.group(1)][1] == "writer" or env[m.group(1)][1] == ("list", "str") and env[m.group(1)][0] == "reader") and not st.value.args:
                return True
        if isinstance(st, ast.Assign) and len(st.targets) == 1 and isinstance(st.targets[0], ast.Name):
            v = ast.unparse(st.value)
            if v == "StageTimer()" or re.fullmatch(r"\w+\.total\(\)", v) and v.split(".")[0] in env and env[v.split(".")[0]][1] == "skip":
                env[st.targets[0].id] = (None, "skip")
                return True
            if v == "sys.stdout" or (isinstance(st.value, ast.Call) and ast.unparse(st.value.func) == "open" and len(st.value.args) == 2
                                     and isinstance(st.value.args[0], ast.Name) and env.get(st.value.args[0].id, (None, None))[1] == "outpath"
                                     and ast.unparse(st.value.args[1]) == "'w'" and not st.value.keywords):
                env[st.targets[0].id] = (None, "writer")
                return True
        if isinstance(st, ast.If):
            t = st.test
            if (isinstance(t, ast.Compare) and len(t.ops) == 1 and isinstance(t.ops[0], (ast.Is, ast.IsNot)) and isinstance(t.left, ast.Name)
                    and env.get(t.left.id, (None, None))[1] == "outpath" and isinstance(t.comparators[0], ast.Constant) and t.comparators[0].value is None):
                e1, e2 = dict(env), dict(env)
                if all(self.skippable(x, e1) for x in st.body) and all(self.skippable(x, e2) for x in st.orelse):
                    for k in set(e1) & set(e2):
                        if k not in env and e1[k] == e2[k]:
                            env[k] = e1[k]
                    return True
        return False

    @staticmethod
    def assigned(stmts):
        """names (re)bound or mutated by the statements, in order of first occurrence; `print` mutates `out`"""
        out = []

        def add(n):
            if n not in out:
                out.append(n)
        for st in stmts:
            for n in ast.walk(st):
                if isinstance(n, (ast.Assign, ast.AugAssign, ast.AnnAssign)):
                    for t in (n.targets if isinstance(n, ast.Assign) else [n.target]):
                        for x in ast.walk(t):
                            if isinstance(x, ast.Name):
                                add(x.id)
                elif isinstance(n, ast.For):
                    for x in ast.walk(n.target):
                        if isinstance(x, ast.Name):
                            add(x.id)
                elif isinstance(n, ast.Call) and isinstance(n.func, ast.Attribute) and isinstance(n.func.value, ast.Name) and n.func.attr in ("append", "add", "extend", "pop", "remove", "clear", "insert", "sort", "reverse", "update"):
                    add(n.func.value.id)
                elif isinstance(n, ast.Call) and ast.unparse(n.func) == "print":
                    add("<out>")
                elif isinstance(n, (ast.NamedExpr, ast.With, ast.Delete, ast.Global, ast.Nonlocal, ast.Import, ast.ImportFrom, ast.FunctionDef, ast.ClassDef, ast.Lambda)):
                    raise Untranslatable("statement kind %s" % type(n).__name__)
        return out

    def block(self, stmts, env, mode, k, ind):
        """lines of the Lean term for the statement list; `k(env, ind)` gives the lines for falling off its end"""
        pad = " " * ind
        if not stmts:
            return k(env, ind)
        st, rest = stmts[0], stmts[1:]
        env = dict(env)
        mexc = lambda c: self.exc(mode, c)      # noqa: E731
        if self.skippable(st, env):
            return self.block(rest, env, mode, k, ind)
        hoist = []
        if isinstance(st, ast.Return):
            if st.value is None or (isinstance(st.value, ast.Constant) and st.value.value is None):
                if not self.unit:
                    raise Untranslatable("bare return")
                return [pad + self.ret(mode, "out")]
            t, ty = self.ex(st.value, env, hoist)
            if self.unit or ty != self.rtype:
                raise Untranslatable("return of a %s" % (ty,))
            return self.wrap(hoist, mexc, [pad + self.ret(mode, t)], ind)
        if isinstance(st, ast.Continue):
            if mode != "loop":
                raise Untranslatable("continue outside a loop")
            return self.loop_k[-1](env, ind)
        if isinstance(st, ast.Assign) and len(st.targets) == 1 and isinstance(st.targets[0], ast.Name):
            name = st.targets[0].id
            v = st.value
            if isinstance(v, ast.Dict):
                entries = _dict_literal(v)
                keys = [kk for kk, _ in entries]
                if len(set(keys)) != len(keys):
                    raise Untranslatable("table with a repeated key")
                side = {"end": "true", "start": "false"}
                bit = {1: "true", 0: "false"}
                items = []
                for kk, vv in entries:
                    if not (all(isinstance(x, str) and len(x) == 1 for x in kk) and vv[0] in side and type(vv[1]) is int and vv[1] in bit):
                        raise Untranslatable("table entry %r: %r" % (kk, vv))
                    items.append("((%s, %s), (%s, %s))" % (_pw_char(kk[0]), _pw_char(kk[1]), side[vv[0]], bit[vv[1]]))
                ln = self.lname(name)
                env[name] = (ln, ("dict", "case"))
                return ["%slet %s : List ((Char × Char) × (Bool × Bool)) := [%s]" % (pad, ln, ", ".join(items))] + self.block(rest, env, mode, k, ind)
            if isinstance(v, ast.Call) and ast.unparse(v.func) == "GFA" and len(v.args) == 1 and isinstance(v.args[0], ast.Name) \
                    and env.get(v.args[0].id, (None, None))[1] == "gfapath" and not v.keywords:
                env[name] = ("g", "graph")
                return self.block(rest, env, mode, k, ind)
            if isinstance(v, ast.Call) and ast.unparse(v.func) == "open":
                if not (len(v.args) == 2 and isinstance(v.args[0], ast.Name) and env.get(v.args[0].id, (None, None))[1] == "str"
                        and env[v.args[0].id][0] == self.input_path and ast.unparse(v.args[1]) == "'r'" and not v.keywords and name == "reader"):
                    raise Untranslatable("open: %s" % ast.unparse(st))
                env[name] = ("reader", ("list", "str"))
                return ["%smatch reader? with" % pad, "%s| none => %s" % (pad, mexc(".osError")), "%s| some reader =>" % pad] + self.block(rest, env, mode, k, ind)
            t, ty = self.ex(v, env, hoist)
            ln = self.lname(name)
            env[name] = (ln, ty)
            if ty == ("list", None):
                line = "%slet %s : List _ := %s" % (pad, ln, t)
            else:
                line = "%slet %s := %s" % (pad, ln, t)
            return self.wrap(hoist, mexc, [line] + self.block(rest, env, mode, k, ind), ind)
        if isinstance(st, ast.Expr) and isinstance(st.value, ast.Call):
            c = st.value
            u = ast.unparse(c.func)
            if isinstance(c.func, ast.Attribute) and c.func.attr == "append" and isinstance(c.func.value, ast.Name) and len(c.args) == 1 and not c.keywords:
                name = c.func.value.id
                if name not in env or not (isinstance(env[name][1], tuple) and env[name][1][0] == "list"):
                    raise Untranslatable("append to %s" % name)
                ln, lty = env[name]
                t, ty = self.ex(c.args[0], env, hoist)
                lty = env[name][1]
                if isinstance(ty, tuple) and ty[0] == "?":
                    raise Untranslatable("append of an element of a still-empty list")
                if lty[1] is not None and lty[1] != ty:
                    raise Untranslatable("append of a %s to a list of %s" % (ty, lty[1]))
                env[name] = (ln, ("list", ty))
                self.list_elem[name] = ty
                return self.wrap(hoist, mexc, ["%slet %s := %s ++ [%s]" % (pad, ln, ln, t)] + self.block(rest, env, mode, k, ind), ind)
            if u == "print" and len(c.args) == 1 and len(c.keywords) == 1 and c.keywords[0].arg == "file" and isinstance(c.keywords[0].value, ast.Name) \
                    and env.get(c.keywords[0].value.id, (None, None))[1] == "writer" and self.unit:
                t, ty = self.ex(c.args[0], env, hoist)
                ty = self.settle(ty, "str", env)
                if ty != "str":
                    raise Untranslatable("print of a %s" % (ty,))
                return self.wrap(hoist, mexc, ["%slet out := out ++ [%s]" % (pad, t)] + self.block(rest, env, mode, k, ind), ind)
            raise Untranslatable("call statement %s" % ast.unparse(st)[:70])
        if isinstance(st, ast.If):
            t, ty = self.ex(st.test, env, hoist)
            if ty != "bool":
                raise Untranslatable("truth value of a %s: %s" % (ty, ast.unparse(st.test)))
            then = self.block(st.body if Tr.always_returns(st.body) else st.body + rest, env, mode, k, ind + 2)
            els = self.block(st.orelse if Tr.always_returns(st.orelse) else st.orelse + rest, env, mode, k, ind + 2)
            return self.wrap(hoist, mexc, ["%sif %s then" % (pad, t)] + then + ["%selse" % pad] + els, ind)
        if isinstance(st, ast.Try):
            if not (len(st.body) == 1 and isinstance(st.body[0], ast.Assign) and len(st.body[0].targets) == 1 and isinstance(st.body[0].targets[0], ast.Name)
                    and isinstance(st.body[0].value, ast.Subscript) and isinstance(st.body[0].value.value, ast.Name)
                    and len(st.handlers) == 1 and isinstance(st.handlers[0].type, ast.Name) and st.handlers[0].type.id == "KeyError"
                    and st.handlers[0].name is None and not st.orelse and not st.finalbody):
                raise Untranslatable("try statement: %s" % ast.unparse(st)[:70])
            sub = st.body[0].value
            tbl = sub.value.id
            if tbl not in env or env[tbl][1] != ("dict", "case"):
                raise Untranslatable("try around something else than a table lookup")
            key = self.coerce(sub.slice, ("tuple", "char", "char"), env, hoist)
            if hoist:
                raise Untranslatable("the key of the table lookup can raise")
            x = self.fresh()
            name = st.body[0].targets[0].id
            env2 = dict(env)
            env2[name] = (self.lname(name), "case")
            hb = st.handlers[0].body
            handler = self.block(hb if Tr.always_returns(hb) else hb + rest, env, mode, k, ind + 2)
            return (["%smatch dictGet %s %s with" % (pad, env[tbl][0], key), "%s| none =>" % pad] + handler +
                    ["%s| some %s =>" % (pad, x), "%slet %s := %s" % (pad, self.lname(name), x)] + self.block(rest, env2, mode, k, ind))
        if isinstance(st, ast.For):
            return self.for_loop(st, rest, env, mode, k, ind)
        raise Untranslatable("statement %s" % ast.unparse(st)[:70])

    def for_loop(self, st, rest, env, mode, k, ind):
        pad = " " * ind
        if st.orelse:
            raise Untranslatable("for/else")
        for n in ast.walk(st):
            if isinstance(n, ast.Break):
                raise Untranslatable("break")
        mexc = lambda c: self.exc(mode, c)      # noqa: E731
        hoist = []
        it = st.iter
        if isinstance(it, ast.Call) and ast.unparse(it.func) == "range" and len(it.args) == 2 and not it.keywords:
            a, ta = self.ex(it.args[0], env, hoist)
            b, tb = self.ex(it.args[1], env, hoist)
            if not (ta == tb == "int"):
                raise Untranslatable("range over %s, %s" % (ta, tb))
            lst, ety = "(pyRange %s %s)" % (a, b), "int"
        elif isinstance(it, ast.Call) and ast.unparse(it.func) == "zip" and len(it.args) == 2 and not it.keywords:
            a, ta = self.ex(it.args[0], env, hoist)
            b, tb = self.ex(it.args[1], env, hoist)
            if not (isinstance(ta, tuple) and isinstance(tb, tuple) and ta[0] == tb[0] == "list" and ta[1] and tb[1]):
                raise Untranslatable("zip over %s, %s" % (ta, tb))
            lst, ety = "(List.zip %s %s)" % (a, b), ("tuple", ta[1], tb[1])
        else:
            lst, ty = self.ex(it, env, hoist)
            if not (isinstance(ty, tuple) and ty[0] == "list" and ty[1] is not None):
                raise Untranslatable("loop over a %s" % (ty,))
            ety = ty[1]
        # loop-carried variables: bound before the loop and (re)bound or mutated inside it
        targets = [x.id for x in ast.walk(st.target) if isinstance(x, ast.Name)]
        carried = [n for n in self.assigned(st.body) if n in env and n not in targets]
        for n in carried:
            if env[n][1] in ("skip", "graph", "writer", "gfapath", "outpath") or env[n][0] is None:
                raise Untranslatable("the loop rebinds %s" % n)
        names = [env[n][0] for n in carried]

        def state(e):
            ns = [e[n][0] for n in carried]
            return "()" if not ns else (ns[0] if len(ns) == 1 else "(" + ", ".join(ns) + ")")

        def unpack(var, ind2):
            if len(names) < 2:
                return []
            out = []
            for i, n in enumerate(names):
                proj = ".2" * i + (".1" if i < len(names) - 1 else "")
                out.append("%slet %s := %s%s" % (" " * ind2, n, var, proj))
            return out
        svar = "_" if not names else (names[0] if len(names) == 1 else "st")
        benv = dict(env)
        tl = []
        if isinstance(st.target, ast.Name):
            tvar = self.lname(st.target.id)
            benv[st.target.id] = (tvar, ety)
        elif isinstance(st.target, ast.Tuple) and len(st.target.elts) == 2 and all(isinstance(x, ast.Name) for x in st.target.elts) \
                and isinstance(ety, tuple) and ety[0] == "tuple":
            tvar = self.fresh()
            for i, x in enumerate(st.target.elts):
                benv[x.id] = (self.lname(x.id), ety[i + 1])
                tl.append("%slet %s := %s.%d" % (" " * (ind + 2), self.lname(x.id), tvar, i + 1))
        else:
            raise Untranslatable("loop target %s" % ast.unparse(st.target))
        # a still-empty list carried through the loop gets its element type from the first append in the body
        body_k = lambda e, i2: [" " * i2 + ".cont " + state(e)]      # noqa: E731
        self.loop_k.append(body_k)
        body = self.block(st.body, benv, "loop", body_k, ind + 2)
        self.loop_k.pop()
        body[-1] = body[-1] + ") with"
        aenv = dict(env)
        for n in carried:
            if env[n][1] == ("list", None):
                ty = self.list_elem.get(n)
                if ty is None:
                    raise Untranslatable("element type of %s" % n)
                aenv[n] = (env[n][0], ("list", ty))
        lines = ["%smatch forEach %s %s (fun %s %s =>" % (pad, lst, state(env), svar, tvar)] + unpack("st", ind + 2) + tl + body
        lines += ["%s| .ret v => %s" % (pad, ".ok v" if mode == "top" else ".ret v"), "%s| .exc e => %s" % (pad, mexc("e")), "%s| .cont %s =>" % (pad, svar)]
        lines += unpack("st", ind)
        return self.wrap(hoist, mexc, lines + self.block(rest, aenv, mode, k, ind), ind)

    def translate(self, rtype):
        self.rtype = rtype
        self.loop_k = []
        self.list_elem = {}
        env = dict(self.env0)

        def no_fall(e, i):
            raise Untranslatable("%s can fall off its end" % self.fn.name)
        k = (lambda e, i: [" " * i + ".ok out"]) if self.unit else no_fall
        return "\n".join(self.block(list(self.fn.body), env, "top", k, 2))


def gen_path_walk():
    try:
        return _gen_path_walk()
    except (Untranslatable, SyntaxError, OSError):
        raise
    except Exception as e:        # an AST shape the translator did not foresee is "outside the subset", never an alarm
        raise Untranslatable("translator: %s: %s" % (type(e).__name__, e))


def _pw_simple_args(fn, n):
    a = fn.args
    if a.vararg or a.kwarg or a.kwonlyargs or a.posonlyargs or fn.decorator_list or len(a.args) != n:
        raise Untranslatable("signature of %s" % fn.name)
    return [x.arg for x in a.args]


def _gen_path_walk():
    _, src = src_of("gaftools/gfa.py")
    mod = ast.parse(src)
    nodoc = lambda b: [x for x in b if not (isinstance(x, ast.Expr) and isinstance(x.value, ast.Constant))]      # noqa: E731
    # `x in self` is membership in the node dictionary
    cfn = find_func(mod, "__contains__", cls="GFA")
    cargs = _pw_simple_args(cfn, 2)
    if [ast.unparse(x) for x in nodoc(cfn.body)] != ["return %s in %s.nodes" % (cargs[1], cargs[0])]:
        raise Untranslatable("GFA.__contains__ is not membership in self.nodes")
    # rev_comp comes from utils
    if not any(isinstance(n, ast.ImportFrom) and n.module == "gaftools.utils" and any(a.name == "rev_comp" and a.asname is None for a in n.names) for n in mod.body):
        raise Untranslatable("rev_comp is not imported from gaftools.utils")
    _, usrc = src_of("gaftools/utils.py")
    umod = ast.parse(usrc)
    tbl = None
    for n in umod.body:
        if isinstance(n, ast.Assign) and len(n.targets) == 1 and isinstance(n.targets[0], ast.Name) and n.targets[0].id == "complement":
            v = n.value
            if not (isinstance(v, ast.Call) and ast.unparse(v.func) == "str.maketrans" and len(v.args) == 2 and not v.keywords
                    and all(isinstance(a, ast.Constant) and isinstance(a.value, str) for a in v.args)):
                raise Untranslatable("complement = %s" % ast.unparse(v))
            a, b = v.args[0].value, v.args[1].value
            if len(a) != len(b) or len(set(a)) != len(a):
                raise Untranslatable("str.maketrans arguments")
            tbl = list(zip(a, b))
    if tbl is None:
        raise Untranslatable("utils.complement not found")
    rfn = find_func(umod, "rev_comp")
    rarg = _pw_simple_args(rfn, 1)[0]
    rb = nodoc(rfn.body)
    # `seq[::-1].translate(complement)`: reverse, then map every character through the table (characters not in it are kept)
    ok = (len(rb) == 1 and isinstance(rb[0], ast.Return) and isinstance(rb[0].value, ast.Call) and not rb[0].value.keywords
          and isinstance(rb[0].value.func, ast.Attribute) and rb[0].value.func.attr == "translate"
          and len(rb[0].value.args) == 1 and isinstance(rb[0].value.args[0], ast.Name) and rb[0].value.args[0].id == "complement")
    if ok:
        sub = rb[0].value.func.value
        ok = (isinstance(sub, ast.Subscript) and isinstance(sub.value, ast.Name) and sub.value.id == rarg and isinstance(sub.slice, ast.Slice)
              and sub.slice.lower is None and sub.slice.upper is None and ast.unparse(sub.slice.step or ast.Constant(1)) == "-1")
    if not ok:
        raise Untranslatable("rev_comp is not `seq[::-1].translate(complement)`")
    rname = PWFun.lname(rarg)
    out = [PW_PREAMBLE % "generated by harness/translate.py from gaftools/gfa.py (GFA.path_exists, GFA.extract_path), gaftools/utils.py (rev_comp) and\n"
           "    gaftools/cli/find_path.py (run), statement by statement — do not edit"]
    out.append("/-- utils.complement = str.maketrans(%s, %s) -/\ndef complement : List (Char × Char) := [%s]\n" % (
        _pw_str("".join(a for a, _ in tbl)), _pw_str("".join(b for _, b in tbl)), ", ".join("(%s, %s)" % (_pw_char(a), _pw_char(b)) for a, b in tbl)))
    out.append("/-- utils.rev_comp -/\ndef revComp (%s : String) : String :=\n  String.ofList (%s.toList.reverse.map (fun c => (dictGet complement c).getD c))\n" % (rname, rname))
    # GFA.path_exists
    fn = find_func(mod, "path_exists", cls="GFA")
    a = _pw_simple_args(fn, 2)
    p = PWFun.lname(a[1])
    body = PWFun(fn, {a[0]: ("g", "graph"), a[1]: (p, ("list", "tok"))}).translate("bool")
    out.append("/-- GFA.path_exists on the tokens of `re.findall` -/\ndef pathExists (g : Graph) (%s : List Tok) : Except PyErr Bool :=\n%s\n" % (p, body))
    # GFA.extract_path
    fn = find_func(mod, "extract_path", cls="GFA")
    a = _pw_simple_args(fn, 2)
    p = PWFun.lname(a[1])
    body = PWFun(fn, {a[0]: ("g", "graph"), a[1]: (p, "str")}).translate("str")
    out.append("/-- GFA.extract_path -/\ndef extractPath (g : Graph) (%s : String) : Except PyErr String :=\n%s\n" % (p, body))
    # find_path.run
    _, fsrc = src_of("gaftools/cli/find_path.py")
    fmod = ast.parse(fsrc)
    if not any(isinstance(n, ast.ImportFrom) and n.module == "gaftools.gfa" and any(x.name == "GFA" and x.asname is None for x in n.names) for n in fmod.body):
        raise Untranslatable("find_path does not import GFA from gaftools.gfa")
    fn = find_func(fmod, "run")
    a = _pw_simple_args(fn, 4)
    ip, fa = PWFun.lname(a[1]), PWFun.lname(a[3])
    if "reader" in (ip, fa):
        raise Untranslatable("parameter named reader")
    t = PWFun(fn, {a[0]: (None, "gfapath"), a[1]: (ip, "str"), a[2]: (None, "outpath"), a[3]: (fa, "bool"), "<out>": ("out", ("list", "str"))}, unit_result=True)
    t.input_path = ip
    body = t.translate(None)
    out.append("/-- find_path.run after the graph is loaded: the printed lines; `reader?` = the lines of the file named by the second argument\n"
               "    (`none`: it cannot be opened) -/\n"
               "def run (g : Graph) (%s : String) (reader? : Option (List String)) (%s : Bool) : Except PyErr (List String) :=\n  let out : List String := []\n%s\n" % (ip, fa, body))
    return "\n".join(out) + "\nend Gaftools.Gen.PathWalk\n"


GENERATORS["PathWalk"] = gen_path_walk


# ---------------------------------------------------------------------------------------------------------
# stat.run_stat: the initial counters, the body of the record loop statement by statement, the loop over the CIGAR
# tokens, and the arithmetic of the report (C19)

_STAT_PRELUDE = '''import Gaftools.Model.Stat
/-! %s -/
namespace Gaftools.Gen
open Gaftools.Gaf Gaftools.Stat

/-- the dictionary `reads` (insertion ordered, keyed by the read name stored in each object) as the model holds it:
    `k in reads`, `reads[k]` (a missing key is a KeyError in Python: here a dummy), `reads[k] = v`, `reads[k].attr = …` -/
def rdHas (d : List ReadAgg) (k : Str) : Bool := d.any (·.name == k)
def rdGet (d : List ReadAgg) (k : Str) : ReadAgg := (d.find? (·.name == k)).getD ⟨k, 0, 0⟩
def rdPut (d : List ReadAgg) (k : Str) (v : ReadAgg) : List ReadAgg :=
  if rdHas d k then d.map (fun a => if a.name == k then v else a) else d ++ [v]
def rdUpd (d : List ReadAgg) (k : Str) (f : ReadAgg → ReadAgg) : List ReadAgg := d.map (fun a => if a.name == k then f a else a)

/-- `range(start, stop, step)` for literals `0 ≤ start`, `0 < step` (the translator checks both) -/
def pyRange (start stop step : Int) : List Nat :=
  (List.range ((stop - start + step - 1) / step).toNat).map (fun i => start.toNat + step.toNat * i)

/-- what a `print` of the report shows after its label: an integer, `round(q, digits)`, a `%%`-format filled with integers, nothing -/
inductive RVal where
  | nat (n : Nat)
  | round (q : Rat) (digits : Nat)
  | fmt (f : String) (args : List Nat)
  | text
deriving DecidableEq

'''


def gen_stat_loop():
    _, src = src_of("gaftools/cli/stat.py")
    mod = ast.parse(src)
    fn = find_func(mod, "run_stat")
    _, gsrc = src_of("gaftools/gaf.py")
    read_init = find_func(ast.parse(gsrc), "__init__", cls="Read")
    imported = {a.name for n in mod.body if isinstance(n, ast.ImportFrom) and n.module == "gaftools.gaf" for a in n.names if a.asname is None}
    if not {"GAF", "Read"} <= imported:
        raise Untranslatable("GAF / Read are not the classes of gaftools.gaf")
    FLAG = "cigar_stat"
    if FLAG not in [a.arg for a in fn.args.args]:
        raise Untranslatable("run_stat has no parameter %s" % FLAG)
    # python variable -> field of the model's state; attribute of a record / of a Read -> field of the model's structures
    STATE = {"total_aligned_bases": "bases", "total_mapq": "mapqSum", "total_primary": "primary", "total_secondary": "secondary",
             "total_del": "cig.del", "total_del_large": "cig.delL", "total_ins": "cig.ins", "total_ins_large": "cig.insL",
             "total_x": "cig.x", "total_x_large": "cig.xL", "total_match": "cig.m", "total_match_large": "cig.mL",
             "total_perfect": "cig.perfect"}
    DICT = "reads"
    REC = {"query_name": ("qname", "Str"), "query_length": ("qlen", "Nat"), "query_start": ("qs", "Nat"), "query_end": ("qe", "Nat"),
           "residue_matches": ("nmatch", "Nat"), "alignment_block_length": ("blen", "Nat"), "mapping_quality": ("mapq", "Nat"),
           "is_primary": ("isPrimary", "Bool"), "cigar": ("cigar", "Str")}
    READ = {"rname": "name", "highest_map_ratio": "bestRatio", "highest_seq_identity": "bestId"}
    INFRA = ("timers", "output", "gaf_file", "total_time")

    def is_doc(st):
        return isinstance(st, ast.Expr) and isinstance(st.value, ast.Constant) and isinstance(st.value.value, str)

    # ---- Read.__init__: which constructor argument ends up in which attribute
    rparams = [a.arg for a in read_init.args.args][1:]
    rstore = {}
    for st in read_init.body:
        if is_doc(st):
            continue
        if not (isinstance(st, ast.Assign) and len(st.targets) == 1 and isinstance(st.targets[0], ast.Attribute)
                and ast.unparse(st.targets[0].value) == "self"):
            raise Untranslatable("Read.__init__: %s" % ast.unparse(st)[:60])
        rstore[st.targets[0].attr] = st.value
    for a in READ:
        if not (a in rstore and isinstance(rstore[a], ast.Name) and rstore[a].id in rparams):
            raise Untranslatable("Read.__init__ does not store a parameter in %s" % a)

    # ---- which attributes of a Read are ever read in run_stat (the others are write-only: dropped)
    parents = {}
    for p in ast.walk(fn):
        for c in ast.iter_child_nodes(p):
            parents[c] = p
    top = [st for st in fn.body if not is_doc(st)]
    loops = [st for st in top if isinstance(st, ast.For)]
    if len(loops) != 2:
        raise Untranslatable("run_stat has %d top-level loops, expected the record loop and the loop over the reads" % len(loops))
    rec_loop, sum_loop = loops
    # the loop over the reads: `for k, v in reads.items()` / `for v in reads.values()`
    it = ast.unparse(sum_loop.iter)
    if it == DICT + ".items()" and isinstance(sum_loop.target, ast.Tuple) and len(sum_loop.target.elts) == 2 and all(isinstance(x, ast.Name) for x in sum_loop.target.elts):
        rvar = sum_loop.target.elts[1].id
        if any(isinstance(n, ast.Name) and n.id == sum_loop.target.elts[0].id for st in sum_loop.body for n in ast.walk(st)):
            raise Untranslatable("the loop over the reads uses the key")
    elif it == DICT + ".values()" and isinstance(sum_loop.target, ast.Name):
        rvar = sum_loop.target.id
    else:
        raise Untranslatable("loop over the reads: for %s in %s" % (ast.unparse(sum_loop.target), it))
    if sum_loop.orelse or rec_loop.orelse:
        raise Untranslatable("for ... else")

    def is_read_obj(e):
        return (isinstance(e, ast.Subscript) and isinstance(e.value, ast.Name) and e.value.id == DICT) or \
               (isinstance(e, ast.Name) and e.id == rvar and any(parents.get(x) is sum_loop or x is sum_loop for x in _ancestors(e, parents)))
    live = set()
    for n in ast.walk(fn):
        if isinstance(n, ast.Attribute) and is_read_obj(n.value):
            p = parents.get(n)
            if isinstance(n.ctx, ast.Load):
                live.add(n.attr)
            elif not (isinstance(p, (ast.Assign, ast.AugAssign))):
                raise Untranslatable("attribute %s of a Read used in %s" % (n.attr, type(p).__name__))
    if not live <= set(READ):
        raise Untranslatable("run_stat reads attributes of a Read outside the model: %s" % sorted(live - set(READ)))
    # the dictionary itself may only be used through `in`, subscripts, len() and the loop over it
    for n in ast.walk(fn):
        if isinstance(n, ast.Name) and n.id == DICT:
            p = parents.get(n)
            ok = (isinstance(p, ast.Subscript) and p.value is n) or (isinstance(p, ast.Compare) and n in p.comparators) \
                or (isinstance(p, ast.Call) and ast.unparse(p.func) == "len") or (isinstance(p, ast.Attribute) and parents.get(p) is not None and parents[parents[p]] is sum_loop) \
                or (isinstance(p, ast.Assign) and n in p.targets)
            if not ok:
                raise Untranslatable("the dictionary is used in %s" % ast.unparse(p)[:60])

    # ---- the record loop header: for <count>, <record> in enumerate(<GAF(gaf_path)>.read_file(), <start>)
    tg, itc = rec_loop.target, rec_loop.iter
    if not (isinstance(tg, ast.Tuple) and len(tg.elts) == 2 and all(isinstance(x, ast.Name) for x in tg.elts)
            and isinstance(itc, ast.Call) and ast.unparse(itc.func) == "enumerate" and len(itc.args) in (1, 2)):
        raise Untranslatable("record loop header: for %s in %s" % (ast.unparse(tg), ast.unparse(itc)))
    COUNT, RECV = tg.elts[0].id, tg.elts[1].id
    start = itc.args[1] if len(itc.args) == 2 else None
    for k in itc.keywords:
        if k.arg == "start" and start is None:
            start = k.value
        else:
            raise Untranslatable("enumerate keyword %s" % k.arg)
    start = 0 if start is None else (start.value if isinstance(start, ast.Constant) and type(start.value) is int else None)
    if start is None or start < 1:
        raise Untranslatable("enumerate start must be an integer literal >= 1 (the count before the first record is start - 1)")
    src_it = itc.args[0]
    if not (isinstance(src_it, ast.Call) and not src_it.args and not src_it.keywords and isinstance(src_it.func, ast.Attribute)
            and src_it.func.attr == "read_file" and isinstance(src_it.func.value, ast.Name)):
        raise Untranslatable("records come from %s" % ast.unparse(src_it))
    FILEV = src_it.func.value.id
    for nm in (COUNT, RECV):
        if nm in STATE or nm in (DICT, FLAG) or nm in INFRA:
            raise Untranslatable("loop variable %s" % nm)
    for n in ast.walk(fn):                     # the loop variables are not assigned anywhere else
        if isinstance(n, ast.Name) and n.id in (COUNT, RECV) and not isinstance(n.ctx, ast.Load) and parents.get(n) is not tg:
            raise Untranslatable("%s is assigned outside the loop header" % n.id)

    # ---- expressions
    def chars(v):
        if not all(32 <= ord(c) < 127 and c not in "'\\" for c in v):
            raise Untranslatable("string literal %r" % v)
        return "([%s] : Str)" % ", ".join("'%s'" % c for c in v)

    def to_int(x):
        t, ty = x
        if ty == "Nat":
            return "(%s : Int)" % t
        if ty == "Int":
            return t
        if ty == "Lit":
            return "(%s : Int)" % t
        raise Untranslatable("an integer is expected: %s : %s" % (t, ty))

    def to_rat(x):
        t, ty = x
        if ty == "Rat":
            return t
        if ty == "Nat":
            return "((%s : Int) : Rat)" % t
        if ty == "Int":
            return "((%s : Int) : Rat)" % t          # the cast of the integer result, not of its operands
        if ty == "Lit":
            return "(%s : Rat)" % t
        raise Untranslatable("a number is expected: %s : %s" % (t, ty))

    def to_nat(x):
        t, ty = x
        if ty in ("Nat", "Lit"):
            return t
        raise Untranslatable("a counter is expected: %s : %s" % (t, ty))

    def state_get(name):
        return "s.%s" % STATE[name]

    def state_set(field, val):
        if "." in field:
            a, b = field.split(".")
            return "{ s with %s := { s.%s with %s := %s } }" % (a, a, b, val)
        return "{ s with %s := %s }" % (field, val)

    def E(e, env):
        """-> (lean term, type); types: Nat Int Rat Lit(eral) Str Bool ListStr Read"""
        if isinstance(e, ast.Constant):
            v = e.value
            if type(v) is int and v >= 0:
                return (str(v), "Lit")
            if type(v) is float and v == int(v) and v >= 0:
                return ("(%d : Rat)" % int(v), "Rat")
            if type(v) is str:
                return (chars(v), "Str")
            raise Untranslatable("constant %r" % (v,))
        if isinstance(e, ast.Name):
            if e.id in env:
                return env[e.id]
            if e.id in STATE:
                return (state_get(e.id), "Nat")
            if e.id == COUNT:
                return ("s.total", "Nat")
            if e.id == FLAG:
                return ("cigarStat", "Bool")
            raise Untranslatable("name %s" % e.id)
        if isinstance(e, ast.Attribute):
            if isinstance(e.value, ast.Name) and e.value.id == RECV and RECV in env:
                if e.attr not in REC:
                    raise Untranslatable("attribute %s of the record" % e.attr)
                return ("r.%s" % REC[e.attr][0], REC[e.attr][1])
            o = E(e.value, env)
            if o[1] == "Read" and e.attr in READ:
                return ("%s.%s" % (o[0], READ[e.attr]), "Str" if e.attr == "rname" else "Rat")
            raise Untranslatable("attribute " + ast.unparse(e))
        if isinstance(e, ast.Subscript):
            if isinstance(e.value, ast.Name) and e.value.id == DICT:
                k = E(e.slice, env)
                if k[1] != "Str":
                    raise Untranslatable("dictionary key " + ast.unparse(e.slice))
                return ("(rdGet s.reads %s)" % k[0], "Read")
            o, i = E(e.value, env), E(e.slice, env)
            if o[1] == "ListStr" and i[1] in ("Nat", "Lit"):
                return ("(%s.getD %s [])" % (o[0], i[0]), "Str")
            raise Untranslatable("subscript " + ast.unparse(e))
        if isinstance(e, ast.BinOp):
            l, r = E(e.left, env), E(e.right, env)
            num = ("Nat", "Int", "Rat", "Lit")
            if l[1] not in num or r[1] not in num:
                raise Untranslatable("arithmetic on " + ast.unparse(e))
            if isinstance(e.op, ast.Div):
                return ("(%s / %s)" % (to_rat(l), to_rat(r)), "Rat")
            if isinstance(e.op, (ast.Add, ast.Sub)):
                sym = "+" if isinstance(e.op, ast.Add) else "-"
                if "Rat" in (l[1], r[1]):
                    return ("(%s %s %s)" % (to_rat(l), sym, to_rat(r)), "Rat")
                if isinstance(e.op, ast.Add) and "Int" not in (l[1], r[1]):
                    return ("(%s + %s)" % (l[0], r[0]), "Lit" if (l[1], r[1]) == ("Lit", "Lit") else "Nat")
                return ("(%s %s %s)" % (to_int(l), sym, to_int(r)), "Int")      # Python integers: a difference may be negative
            raise Untranslatable("operator in " + ast.unparse(e))
        if isinstance(e, ast.Call) and isinstance(e.func, ast.Name) and not e.keywords:
            f, a = e.func.id, e.args
            if f == "float" and len(a) == 1:
                return (to_rat(E(a[0], env)), "Rat")
            if f == "int" and len(a) == 1:
                x = E(a[0], env)
                if x[1] == "Str":
                    return ("(toNat %s)" % x[0], "Nat")
                if x[1] in ("Nat", "Int", "Lit"):
                    return x
            if f == "len" and len(a) == 1:
                if isinstance(a[0], ast.Name) and a[0].id == DICT:
                    return ("s.reads.length", "Nat")
                x = E(a[0], env)
                if x[1] in ("ListStr", "Str"):
                    return ("%s.length" % x[0], "Nat")
            if f == "str" and len(a) == 1:
                x = E(a[0], env)
                if x[1] in ("Nat", "Str"):
                    return x
        # the tokeniser idiom: runs of digits / non-digits
        if isinstance(e, ast.ListComp):
            m = re.fullmatch(r"\[''\.join\((\w+)\) for (\w+), (\w+) in itertools\.groupby\((\w+), key=str\.isdigit\)\]", ast.unparse(e))
            if m and m.group(1) == m.group(3) and m.group(2) != m.group(3):
                x = E(ast.Name(id=m.group(4), ctx=ast.Load()), env)
                if x[1] == "Str":
                    return ("(groupDigits %s)" % x[0], "ListStr")
        raise Untranslatable("expression " + ast.unparse(e)[:80])

    def C(e, env):
        """a test -> Lean Bool"""
        if isinstance(e, ast.BoolOp):
            return "(" + (" && " if isinstance(e.op, ast.And) else " || ").join(C(x, env) for x in e.values) + ")"
        if isinstance(e, ast.UnaryOp) and isinstance(e.op, ast.Not):
            return "(!%s)" % C(e.operand, env)
        if isinstance(e, ast.Compare) and len(e.ops) == 1:
            t, le, re_ = type(e.ops[0]), e.left, e.comparators[0]
            if t in (ast.In, ast.NotIn):
                if isinstance(re_, ast.Name) and re_.id == DICT:
                    k = E(le, env)
                    if k[1] != "Str":
                        raise Untranslatable("dictionary key " + ast.unparse(le))
                    return ("(rdHas s.reads %s)" if t is ast.In else "(!rdHas s.reads %s)") % k[0]
                raise Untranslatable("membership test " + ast.unparse(e))
            l, r = E(le, env), E(re_, env)
            if l[1] == "Str" and r[1] == "Str" and t in (ast.Eq, ast.NotEq):
                return ("(%s == %s)" if t is ast.Eq else "(%s != %s)") % (l[0], r[0])
            op = {ast.Lt: "<", ast.Gt: ">", ast.Eq: "=", ast.LtE: "≤", ast.GtE: "≥", ast.NotEq: "≠"}.get(t)
            if op is None:
                raise Untranslatable("comparison " + ast.unparse(e))
            if "Rat" in (l[1], r[1]):
                return "decide (%s %s %s)" % (to_rat(l), op, to_rat(r))
            return "decide (%s %s %s)" % (to_int(l), op, to_int(r))
        x = E(e, env)
        if x[1] == "Bool":
            return x[0]
        raise Untranslatable("truth value of " + ast.unparse(e)[:60])       # truthiness of numbers / strings: not in the subset

    # ---- statements of a loop body, state passing
    def escapes(stmts):
        for st in stmts:
            if isinstance(st, (ast.Continue, ast.Break, ast.Return)):
                return True
            if isinstance(st, ast.If) and (escapes(st.body) or escapes(st.orelse)):
                return True
            if isinstance(st, (ast.With, ast.Try, ast.While)):
                raise Untranslatable("statement " + type(st).__name__)
        return False

    inner_defs = []

    def read_target(t, env):
        """reads[K].attr -> (K as lean, attr)"""
        if isinstance(t, ast.Attribute) and isinstance(t.value, ast.Subscript) and isinstance(t.value.value, ast.Name) and t.value.value.id == DICT:
            k = E(t.value.slice, env)
            if k[1] != "Str":
                raise Untranslatable("dictionary key " + ast.unparse(t.value.slice))
            return k[0], t.attr
        return None

    def ex(stmts, ind, env):
        pad = " " * ind
        if not stmts:
            return pad + "s"
        st, rest = stmts[0], stmts[1:]
        u = ast.unparse(st)
        if is_doc(st) or isinstance(st, ast.Pass):
            return ex(rest, ind, env)
        if isinstance(st, ast.Continue):
            return pad + "s"

        def upd(text, note=""):
            return "%slet s : St := %s%s\n%s" % (pad, text, note, ex(rest, ind, env))
        if isinstance(st, ast.If):
            c = C(st.test, env)
            if escapes(st.body) or escapes(st.orelse):
                return "%sif %s then\n%s\n%selse\n%s" % (pad, c, ex(st.body + rest, ind + 2, env), pad, ex(st.orelse + rest, ind + 2, env))
            # neither branch leaves the iteration: the branches produce the next state, locals bound inside stay inside
            return "%slet s : St :=\n%s  if %s then\n%s\n%s  else\n%s\n%s" % (
                pad, pad, c, ex(st.body, ind + 4, dict(env)), pad, ex(st.orelse, ind + 4, dict(env)), ex(rest, ind, env))
        if isinstance(st, ast.Assign) and len(st.targets) == 1:
            t = st.targets[0]
            if isinstance(t, ast.Name):
                if t.id in STATE or t.id in (DICT, FLAG, COUNT, RECV) or t.id in INFRA:
                    raise Untranslatable("assignment to %s in the loop" % t.id)
                v = E(st.value, env)
                ty = {"Nat": "Nat", "Int": "Int", "Rat": "Rat", "Str": "Str", "ListStr": "List Str", "Lit": "Nat"}.get(v[1])
                if ty is None:
                    raise Untranslatable("local %s : %s" % (t.id, v[1]))
                env2 = dict(env)
                env2[t.id] = ("v_" + t.id, "Nat" if v[1] == "Lit" else v[1])
                return "%slet v_%s : %s := %s\n%s" % (pad, t.id, ty, v[0], ex(rest, ind, env2))
            if isinstance(t, ast.Subscript) and isinstance(t.value, ast.Name) and t.value.id == DICT:
                k = E(t.slice, env)
                c = st.value
                if not (k[1] == "Str" and isinstance(c, ast.Call) and isinstance(c.func, ast.Name) and c.func.id == "Read"
                        and len(c.args) == len(rparams) and not c.keywords):
                    raise Untranslatable("dictionary assignment " + u[:70])
                arg = dict(zip(rparams, c.args))
                flds = {a: E(arg[rstore[a].id], env) for a in READ}
                if flds["rname"] != k:
                    raise Untranslatable("the object stored under %s is named %s" % (k[0], flds["rname"][0]))
                return upd("{ s with reads := rdPut s.reads %s (⟨%s, %s, %s⟩ : ReadAgg) }" % (
                    k[0], flds["rname"][0], to_rat(flds["highest_map_ratio"]), to_rat(flds["highest_seq_identity"])))
            rt = read_target(t, env)
            if rt:
                if rt[1] not in live:
                    return upd("s", "   -- reads[…].%s is never read: dropped" % rt[1])
                if rt[1] == "rname":
                    raise Untranslatable("the name of a Read is reassigned")
                return upd("{ s with reads := rdUpd s.reads %s (fun a => { a with %s := %s }) }" % (rt[0], READ[rt[1]], to_rat(E(st.value, env))))
        if isinstance(st, ast.AugAssign) and isinstance(st.op, ast.Add):
            t = st.target
            if isinstance(t, ast.Name) and t.id in STATE:
                return upd(state_set(STATE[t.id], "%s + %s" % (state_get(t.id), to_nat(E(st.value, env)))))
            rt = read_target(t, env)
            if rt:
                if rt[1] not in live:
                    return upd("s", "   -- reads[…].%s is never read: dropped" % rt[1])
                if rt[1] == "rname":
                    raise Untranslatable("the name of a Read is reassigned")
                return upd("{ s with reads := rdUpd s.reads %s (fun a => { a with %s := a.%s + %s }) }" % (rt[0], READ[rt[1]], READ[rt[1]], to_rat(E(st.value, env))))
        if isinstance(st, ast.For):
            # for <v> in range(<literal>, <stop>, <literal>): its body becomes a definition of its own, folded over the range
            it = st.iter
            if not (isinstance(st.target, ast.Name) and isinstance(it, ast.Call) and ast.unparse(it.func) == "range" and not it.keywords
                    and 1 <= len(it.args) <= 3 and not st.orelse):
                raise Untranslatable("inner loop " + u[:60])
            a = list(it.args)
            lo = a[0] if len(a) >= 2 else ast.Constant(value=0)
            hi = a[1] if len(a) >= 2 else a[0]
            stp = a[2] if len(a) == 3 else ast.Constant(value=1)
            if not (isinstance(lo, ast.Constant) and type(lo.value) is int and lo.value >= 0 and isinstance(stp, ast.Constant) and type(stp.value) is int and stp.value > 0):
                raise Untranslatable("range bounds " + ast.unparse(it))
            v = st.target.id
            if v in env or v in STATE or v in (DICT, FLAG, COUNT, RECV):
                raise Untranslatable("inner loop variable " + v)
            if any(isinstance(n, ast.Name) and n.id == v and not isinstance(n.ctx, ast.Load) for b in st.body for n in ast.walk(b)):
                raise Untranslatable("inner loop variable is assigned")
            if any(isinstance(n, ast.Break) for b in st.body for n in ast.walk(b)):
                raise Untranslatable("break")
            def mentions(n):
                return any(isinstance(x, ast.Name) and x.id == n for b in st.body for x in ast.walk(b))
            used = [n for n in env if n != RECV and mentions(n)]
            name = "statFor_" + v
            if any(d[0] == name for d in inner_defs):
                raise Untranslatable("two inner loops over " + v)
            env2 = {n: env[n] for n in used}
            env2[RECV] = env[RECV]
            env2[v] = ("v_" + v, "Nat")
            tyname = {"Nat": "Nat", "Int": "Int", "Rat": "Rat", "Str": "Str", "ListStr": "List Str"}
            # parameters: the flag and the record when the body mentions them, then the locals it mentions
            params = (" (cigarStat : Bool)" if mentions(FLAG) else "") + (" (r : Rec)" if mentions(RECV) else "") \
                + "".join(" (%s : %s)" % (env[n][0], tyname[env[n][1]]) for n in used)
            actual = (" cigarStat" if mentions(FLAG) else "") + (" r" if mentions(RECV) else "") + "".join(" " + env[n][0] for n in used)
            inner_defs.append((name, "/-- the body of `for %s in %s` -/\ndef %s%s (s : St) (v_%s : Nat) : St :=\n%s\n" % (
                v, ast.unparse(it), name, params, v, ex(list(st.body), 2, env2))))
            return upd("(pyRange %s %s %s).foldl (%s%s) s" % (
                to_int(E(lo, env)), to_int(E(hi, env)), to_int(E(stp, env)), name, actual))
        raise Untranslatable("loop statement: " + u[:70])

    # ---- before the record loop: the initial values
    init, flag_only = {}, set()

    def pre(stmts, under_flag):
        for st in stmts:
            u = ast.unparse(st)
            if is_doc(st):
                continue
            if isinstance(st, ast.Assign) and len(st.targets) == 1 and isinstance(st.targets[0], ast.Name):
                nm = st.targets[0].id
                if nm in STATE:
                    if not (isinstance(st.value, ast.Constant) and type(st.value.value) is int and st.value.value >= 0):
                        raise Untranslatable("initial value: " + u)
                    if STATE[nm] in init:
                        raise Untranslatable("%s initialised twice" % nm)
                    init[STATE[nm]] = str(st.value.value)
                    if under_flag:
                        flag_only.add(nm)
                    continue
                if nm == DICT and not under_flag:
                    if u not in (DICT + " = {}", DICT + " = dict()") or "reads" in init:
                        raise Untranslatable("initial value: " + u)
                    init["reads"] = "[]"
                    continue
                if nm in INFRA and not under_flag:
                    if nm == FILEV and u != "%s = GAF(gaf_path)" % FILEV:
                        raise Untranslatable("the records are read from: " + u)
                    continue
            if isinstance(st, ast.If) and ast.unparse(st.test) in ("output is None", "output is not None") and all(
                    isinstance(x, ast.Assign) and ast.unparse(x.targets[0]) == "output" for x in st.body + st.orelse):
                continue
            if isinstance(st, ast.If) and isinstance(st.test, ast.Name) and st.test.id == FLAG and not st.orelse and not under_flag:
                pre(st.body, True)
                continue
            raise Untranslatable("before the record loop: " + u[:70])
    at = top.index(rec_loop)
    pre(top[:at], False)
    init["total"] = str(start - 1)
    fields = ["total", "primary", "secondary", "bases", "mapqSum", "reads"]
    cig = ["del", "delL", "ins", "insL", "x", "xL", "m", "mL", "perfect"]
    missing = [f for f in fields + ["cig." + c for c in cig] if f not in init]
    if missing:
        raise Untranslatable("not initialised before the loop: %s" % missing)
    # variables that exist only under the flag must only be touched under the flag

    def under_flag(n):
        c = n
        while c in parents:
            p = parents[c]
            if isinstance(p, ast.If) and isinstance(p.test, ast.Name) and p.test.id == FLAG and any(c is x for x in p.body):
                return True
            c = p
        return False
    for n in ast.walk(fn):
        if isinstance(n, ast.Name) and n.id in flag_only and not under_flag(n):
            raise Untranslatable("%s is only defined under %s but used outside" % (n.id, FLAG))
    if FILEV not in [st.targets[0].id for st in top[:at] if isinstance(st, ast.Assign) and isinstance(st.targets[0], ast.Name)]:
        raise Untranslatable("%s is not opened before the loop" % FILEV)
    step = ex(list(rec_loop.body), 2, {RECV: ("r", "Rec")})

    # ---- after the loop: the sums over the reads and what is printed
    env = {}
    items = []            # (condition or None, label, value)

    def sfmt(f):
        return '"%s"' % f.replace("\\", "\\\\").replace('"', '\\"').replace("\t", "\\t").replace("\n", "\\n")

    def rval(e):
        if isinstance(e, ast.Call) and ast.unparse(e.func) == "round" and len(e.args) == 2 and not e.keywords \
                and isinstance(e.args[1], ast.Constant) and type(e.args[1].value) is int and e.args[1].value >= 0:
            x = E(e.args[0], env)
            if x[1] != "Rat":
                raise Untranslatable("round of " + ast.unparse(e.args[0]))
            return ".round %s %d" % (x[0], e.args[1].value)
        if isinstance(e, ast.BinOp) and isinstance(e.op, ast.Mod) and isinstance(e.left, ast.Constant) and isinstance(e.left.value, str):
            args = e.right.elts if isinstance(e.right, ast.Tuple) else [e.right]
            if e.left.value.count("%d") != len(args) or e.left.value.count("%") != len(args):
                raise Untranslatable("format " + e.left.value[:40])
            return ".fmt %s [%s]" % (sfmt(e.left.value), ", ".join(to_nat(E(a, env)) for a in args))
        x = E(e, env)
        if x[1] == "Nat":
            return ".nat " + x[0]
        raise Untranslatable("printed value " + ast.unparse(e)[:60])

    def post(stmts, cond):
        for st in stmts:
            u = ast.unparse(st)
            if is_doc(st):
                continue
            if isinstance(st, ast.Expr) and isinstance(st.value, ast.Call):
                f = ast.unparse(st.value.func)
                if f == FILEV + ".close" or f.startswith("logger.") or f == "log_memory_usage":
                    continue
                if f == "print":
                    a = st.value.args
                    kw = [(k.arg, ast.unparse(k.value)) for k in st.value.keywords]
                    if not a and not kw:
                        continue              # an empty line (on standard output)
                    if kw != [("file", "output")]:
                        raise Untranslatable("print keywords: " + u[:60])
                    if len(a) == 2 and isinstance(a[0], ast.Constant) and isinstance(a[0].value, str):
                        items.append((cond, sfmt(a[0].value), rval(a[1])))
                        continue
                    if len(a) == 1 and isinstance(a[0], ast.Constant) and isinstance(a[0].value, str):
                        items.append((cond, sfmt(a[0].value), ".text"))
                        continue
                    if len(a) == 1:
                        items.append((cond, '""', rval(a[0])))
                        continue
                raise Untranslatable("after the loop: " + u[:70])
            if isinstance(st, ast.Assign) and len(st.targets) == 1 and isinstance(st.targets[0], ast.Name):
                nm = st.targets[0].id
                if nm in INFRA:
                    continue
                if nm in STATE or nm in (DICT, FLAG, COUNT, RECV) or cond:
                    raise Untranslatable("after the loop: " + u[:70])
                v = E(st.value, env)
                if v[1] != "Rat":
                    raise Untranslatable("after the loop: " + u[:70])
                env[nm] = v
                continue
            if st is sum_loop:
                accs = []
                for b in st.body:
                    if not (isinstance(b, ast.AugAssign) and isinstance(b.op, ast.Add) and isinstance(b.target, ast.Name) and b.target.id in env
                            and b.target.id not in accs):
                        raise Untranslatable("loop over the reads: " + ast.unparse(b)[:60])
                    if any(isinstance(n, ast.Name) and n.id in env for n in ast.walk(b.value)):
                        raise Untranslatable("loop over the reads: a sum depends on a sum")
                    accs.append(b.target.id)
                    t = to_rat(E(b.value, {rvar: ("v", "Read")}))
                    env[b.target.id] = ("(s.reads.foldl (fun acc v => acc + %s) %s)" % (t, env[b.target.id][0]), "Rat")
                continue
            if isinstance(st, ast.AugAssign) and isinstance(st.op, ast.Div) and isinstance(st.target, ast.Name) and st.target.id in env and not cond:
                env[st.target.id] = ("(%s / %s)" % (env[st.target.id][0], to_rat(E(st.value, env))), "Rat")
                continue
            if isinstance(st, ast.If) and isinstance(st.test, ast.Name) and st.test.id == FLAG and not st.orelse and cond is None:
                post(st.body, "cigarStat")
                continue
            raise Untranslatable("after the loop: " + u[:70])
    post(top[at + 1:], None)
    chunks, cur, curc = [], [], None
    for c, lab, v in items:
        if c != curc and cur:
            chunks.append((curc, cur))
            cur = []
        curc = c
        cur.append("(%s, %s)" % (lab, v))
    if cur:
        chunks.append((curc, cur))
    report = " ++\n  ".join(("[" + ",\n   ".join(c) + "]") if cnd is None else ("(if %s then [" % cnd + ",\n   ".join(c) + "] else [])") for cnd, c in chunks) or "[]"
    head = "generated by harness/translate.py from gaftools/cli/stat.py : run_stat — initial counters, the body of the record loop and of the\n" \
           "    loop over the CIGAR tokens translated statement by statement, the sums over the reads and the printed figures (floats as exact\n" \
           "    rationals; a statement on which Python raises — KeyError, IndexError, ZeroDivisionError, int() of a non-number — has an\n" \
           "    arbitrary defined value here) — do not edit"
    return (_STAT_PRELUDE % head
            + "".join(d[1] + "\n" for d in inner_defs)
            + "/-- the body of `for %s, %s in enumerate(….read_file(), %d)`: the count is the previous one plus one -/\n" % (COUNT, RECV, start)
            + "def statStep (cigarStat : Bool) (s : St) (r : Rec) : St :=\n  let s : St := { s with total := s.total + 1 }\n%s\n\n" % step
            + "/-- the values assigned before the loop (`total` = the enumeration's start minus one) -/\n"
            + "def statInit : St :=\n  { total := %s, primary := %s, secondary := %s, bases := %s, mapqSum := %s, reads := %s,\n    cig := { %s } }\n\n" % (
                init["total"], init["primary"], init["secondary"], init["bases"], init["mapqSum"], init["reads"],
                ", ".join("%s := %s" % (c, init["cig." + c]) for c in cig))
            + "def statRun (cigarStat : Bool) (recs : List Rec) : St := recs.foldl (statStep cigarStat) statInit\n\n"
            + "/-- the lines written to the report, in order: label and value, from the state after the loop -/\n"
            + "def statReport (cigarStat : Bool) (s : St) : List (String × RVal) :=\n  %s\nend Gaftools.Gen\n" % report)


def _ancestors(n, parents):
    out = []
    while n in parents:
        n = parents[n]
        out.append(n)
    return out


GENERATORS["StatLoop"] = gen_stat_loop


# ---------------------------------------------------------------------------------------------------------
# conversion.to_stable: everything before the twelve-column format statement, statement by statement (C01, C02):
# the path split, the token loop (orientation bookkeeping, `nodes[nd]`), `out_node = [node_list[0]]`, the merge loop,
# StableNode.to_string, the single-reference-interval test and both of its branches, and what columns 5-9 print.
# `merge_nodes` itself is Gen/MergeNodes.lean (called, not re-translated).

T_STR, T_STRING, T_INT, T_NAT, T_BOOL, T_ORIENT, T_STRAND, T_SNODE = "Str", "String", "Int", "Nat", "Bool", "Orient", "Strand", "SNode"
T_MERGE = ("Merge",)                     # what merge_nodes returns: False (none) or [node, orient]
T_OIV = ("Pair", T_SNODE, T_ORIENT)      # [StableNode, orientation], orientation Bool-encoded ('>' = true)
T_RAWIV = ("Pair", T_SNODE, ("Opt", T_STR))   # [StableNode, orient] with `orient` as the Python value (None or a string)
_LEAN_RESERVED = {"end", "at", "from", "do", "then", "else", "fun", "open", "in", "let", "have", "show", "with", "match", "if", "by",
                  "where", "def", "theorem", "instance", "structure", "class", "namespace", "section", "import", "return", "for",
                  "unless", "mut", "some", "none", "true", "false", "st", "Type", "Prop", "Sort"}


def _lt(t):
    """Lean type of a translation type"""
    if t in (T_BOOL, T_ORIENT, T_STRAND):
        return "Bool"
    if t in (T_STR, T_STRING, T_INT, T_NAT, T_SNODE, "Node", "Dict"):
        return t
    if t == T_MERGE:
        return "Option (SNode × Bool)"
    if t[0] == "Opt":
        return "Option %s" % _lt_atom(t[1])
    if t[0] == "List":
        return "List %s" % _lt_atom(t[1])
    if t[0] == "Pair":
        return "%s × %s" % (_lt_atom(t[1]), _lt_atom(t[2]))
    if t[0] == "Dict":
        return "%s → Option %s" % (_lt_atom(t[1]), _lt_atom(t[2]))
    if t[0] == "Set":
        return "List %s" % _lt_atom(t[1])
    raise Untranslatable("type %s" % (t,))


def _lt_atom(t):
    s = _lt(t)
    return s if " " not in s else "(%s)" % s


def _chars(s):
    def one(c):
        if c == "'":
            return "'\\''"
        if c == "\\":
            return "'\\\\'"
        if c == "\t":
            return "'\\t'"
        if c == "\n":
            return "'\\n'"
        if not (32 <= ord(c) < 127):
            raise Untranslatable("character %r in a string constant" % c)
        return "'%s'" % c
    return "[" + ", ".join(one(c) for c in s) + "]"


class _PyLean:
    """typed translation of a small statement language into Lean terms of type `Option _` (`none` = the Python raises).
    Every Python variable is a Lean variable of the same name, re-bound by `let` on assignment; a subscript that can raise
    (`l[0]`, `l[-1]`, `l[i + 1]`, `d[k]`) is bound by a `match … with | none => none | some v =>` in evaluation order."""

    def __init__(self, mod, fields, attrs, loop_names):
        self.mod = mod
        self.fields = fields          # attribute of a StableNode -> (lean projection, type)
        self.attrs = attrs            # (object, attribute) -> (lean variable, type)
        self.loop_names = list(loop_names)
        self.defs = []
        self.k = 0
        self.seps = None
        self.reserved = set()

    # ---- helpers
    def fresh(self):
        self.k += 1
        return "v%d" % self.k

    def bind(self, term, binds):
        for v, t in binds:
            if t == term:
                return v
        v = self.fresh()
        binds.append((v, term))
        return v

    def coerce(self, t, have, want, binds):
        if have == want:
            return t
        if have == T_STRING and want == T_STR:
            return "%s.toList" % t
        if have == T_STR and want == T_STRING:
            return "(String.ofList %s)" % t
        if have == T_NAT and want == T_INT:
            return "(%s : Int)" % t
        if isinstance(want, tuple) and want[0] == "Opt" and not (isinstance(have, tuple) and have[0] == "Opt"):
            return "(some %s)" % self.coerce(t, have, want[1], binds)
        if isinstance(have, tuple) and have[0] == "Opt" and have[1] == want and want == T_INT:
            return self.bind(t, binds)          # None where an int is needed: TypeError
        raise Untranslatable("a value of type %s where %s is needed (%s)" % (have, want, t))

    def ex(self, e, env, binds, expect=None):
        t, ty = self._ex(e, env, binds, expect)
        if expect is not None:
            return self.coerce(t, ty, expect, binds), expect
        return t, ty

    def _const(self, e, expect):
        v = e.value
        base = expect[1] if isinstance(expect, tuple) and expect[0] == "Opt" else expect
        if v is None:
            if isinstance(expect, tuple) and expect[0] == "Opt":
                return "none", expect
            raise Untranslatable("None where %s is expected" % (expect,))
        if isinstance(v, bool):
            return ("true" if v else "false"), T_BOOL
        if isinstance(v, int):
            if base == T_NAT:
                return str(v), T_NAT
            return "(%d : Int)" % v, T_INT
        if isinstance(v, str):
            if base == T_ORIENT:
                if v in (">", "<"):
                    return ("true" if v == ">" else "false"), T_ORIENT
                raise Untranslatable("orientation constant %r" % v)
            if base == T_STRAND:
                if v in ("+", "-"):
                    return ("true" if v == "+" else "false"), T_STRAND
                raise Untranslatable("strand constant %r" % v)
            if base == T_STRING:
                return "(String.ofList %s)" % _chars(v), T_STRING
            return _chars(v), T_STR
        raise Untranslatable("constant %r" % (v,))

    def _split_call(self, e, env, binds):
        """list(filter(None, re.split("(c)|(d)…", S)))"""
        if not (isinstance(e, ast.Call) and ast.unparse(e.func) == "list" and len(e.args) == 1 and not e.keywords):
            return None
        f = e.args[0]
        if not (isinstance(f, ast.Call) and ast.unparse(f.func) == "filter" and len(f.args) == 2 and ast.unparse(f.args[0]) == "None"):
            return None
        s = f.args[1]
        if not (isinstance(s, ast.Call) and ast.unparse(s.func) == "re.split" and len(s.args) == 2 and not s.keywords
                and isinstance(s.args[0], ast.Constant) and isinstance(s.args[0].value, str)):
            raise Untranslatable("path split: %s" % ast.unparse(e))
        seps = []
        for alt in s.args[0].value.split("|"):
            if not (len(alt) == 3 and alt[0] == "(" and alt[2] == ")" and alt[1] not in ".^$*+?{}[]\\|()"):
                raise Untranslatable("split pattern %r" % s.args[0].value)
            seps.append(alt[1])
        if self.seps is not None:
            raise Untranslatable("two path splits")
        self.seps = seps
        arg, _ = self.ex(s.args[1], env, binds, T_STR)
        return "(splitKeep pathSeps %s)" % arg, ("List", T_STR)

    def _ex(self, e, env, binds, expect):
        u = ast.unparse(e)
        if isinstance(e, ast.Constant):
            return self._const(e, expect)
        if isinstance(e, ast.Name):
            if e.id in env:
                return e.id, env[e.id]
            raise Untranslatable("name %s" % e.id)
        if isinstance(e, ast.Attribute) and isinstance(e.value, ast.Name) and (e.value.id, e.attr) in self.attrs:
            v, ty = self.attrs[(e.value.id, e.attr)]
            if v not in env:
                raise Untranslatable("attribute %s" % u)
            return v, env[v]
        if isinstance(e, ast.Attribute):
            o, ty = self.ex(e.value, env, binds)
            if ty == T_SNODE and e.attr in self.fields:
                return "%s.%s" % (o, self.fields[e.attr][0]), self.fields[e.attr][1]
            raise Untranslatable("attribute %s" % u)
        if isinstance(e, ast.Subscript):
            o, ty = self.ex(e.value, env, binds)
            sl = e.slice
            if isinstance(ty, tuple) and ty[0] == "Pair":
                if isinstance(sl, ast.Constant) and sl.value in (0, 1) and not isinstance(sl.value, bool):
                    return "%s.%d" % (o, sl.value + 1), ty[1 + sl.value]
                raise Untranslatable("index of a pair: %s" % u)
            if isinstance(ty, tuple) and ty[0] == "List":
                if isinstance(sl, ast.UnaryOp) and isinstance(sl.op, ast.USub) and isinstance(sl.operand, ast.Constant) and sl.operand.value == 1:
                    return self.bind("%s.getLast?" % o, binds), ty[1]
                if isinstance(sl, ast.Slice):
                    raise Untranslatable("slice %s" % u)
                i, _ = self.ex(sl, env, binds, T_NAT)       # a negative constant is refused by the Nat typing
                return self.bind("%s[%s]?" % (o, i), binds), ty[1]
            if isinstance(ty, tuple) and ty[0] == "Dict":
                k, _ = self.ex(sl, env, binds, ty[1])
                return self.bind("%s %s" % (o, k), binds), ty[2]
            raise Untranslatable("subscript %s" % u)
        if isinstance(e, ast.List):
            if isinstance(expect, tuple) and expect[0] == "Pair" and len(e.elts) == 2:
                a, _ = self.ex(e.elts[0], env, binds, expect[1])
                b, _ = self.ex(e.elts[1], env, binds, expect[2])
                return "(%s, %s)" % (a, b), expect
            if isinstance(expect, tuple) and expect[0] == "List":
                xs = [self.ex(x, env, binds, expect[1])[0] for x in e.elts]
                return "[%s]" % ", ".join(xs), expect
            raise Untranslatable("list display %s where %s is expected" % (u, expect))
        if isinstance(e, ast.BinOp) and type(e.op) in (ast.Add, ast.Sub):
            a, ta = self.ex(e.left, env, binds, T_NAT if expect == T_NAT else None)
            if ta == T_STR and isinstance(e.op, ast.Add):
                b, _ = self.ex(e.right, env, binds, T_STR)
                return "(%s ++ %s)" % (a, b), T_STR
            if ta == T_NAT:
                b, _ = self.ex(e.right, env, binds, T_NAT)
                return "(%s %s %s)" % (a, "+" if isinstance(e.op, ast.Add) else "-", b), T_NAT
            a = self.coerce(a, ta, T_INT, binds)
            b, _ = self.ex(e.right, env, binds, T_INT)
            return "(%s %s %s)" % (a, "+" if isinstance(e.op, ast.Add) else "-", b), T_INT
        if isinstance(e, ast.BoolOp):
            parts = []
            for i, x in enumerate(e.values):
                n = len(binds)
                parts.append(self.ex(x, env, binds, T_BOOL)[0])
                if i > 0 and len(binds) > n:
                    raise Untranslatable("an operand of %s that can raise is evaluated conditionally" % u)
            return "(" + (" && " if isinstance(e.op, ast.And) else " || ").join(parts) + ")", T_BOOL
        if isinstance(e, ast.UnaryOp) and isinstance(e.op, ast.Not):
            a, ta = self.ex(e.operand, env, binds)
            if ta == T_BOOL:
                return "(!%s)" % a, T_BOOL
            if ta == ("Opt", T_STR):
                return "(!truthy %s)" % a, T_BOOL
            raise Untranslatable("truth value of %s" % ast.unparse(e.operand))
        if isinstance(e, ast.Compare) and len(e.ops) == 1:
            l, r, op = e.left, e.comparators[0], type(e.ops[0])
            if op in (ast.In, ast.NotIn):
                a, ta = self.ex(l, env, binds)             # Python evaluates the left operand first
                b, tb = self.ex(r, env, binds)
                if not (isinstance(tb, tuple) and tb[0] == "Set"):
                    raise Untranslatable("membership in %s" % ast.unparse(r))
                a = self.coerce(a, ta, tb[1], binds)
                c = "(%s.contains %s)" % (b, a)
                return (c if op is ast.In else "(!%s)" % c), T_BOOL
            if op in (ast.Is, ast.IsNot) and isinstance(r, ast.Constant) and r.value is None:
                a, ta = self.ex(l, env, binds)
                if isinstance(ta, tuple) and ta[0] == "Opt":
                    return ("%s.isNone" if op is ast.Is else "%s.isSome") % a, T_BOOL
                raise Untranslatable("test %s" % u)
            if isinstance(l, ast.Constant) and not isinstance(r, ast.Constant):
                b, tb = self.ex(r, env, [], None)          # typing pass only
                a, _ = self.ex(l, env, binds, tb)
                b, _ = self.ex(r, env, binds, tb)
                ty = tb
            else:
                a, ty = self.ex(l, env, binds)
                b, _ = self.ex(r, env, binds, ty)
            if op in (ast.Eq, ast.NotEq):
                if ty not in (T_STR, T_STRING, T_INT, T_NAT, T_BOOL, T_ORIENT, T_STRAND, ("Opt", T_STR)):
                    raise Untranslatable("comparison %s" % u)
                return "(%s %s %s)" % (a, "==" if op is ast.Eq else "!=", b), T_BOOL
            sym = {ast.Lt: "<", ast.Gt: ">", ast.LtE: "≤", ast.GtE: "≥"}.get(op)
            if sym and ty in (T_INT, T_NAT):
                return "decide (%s %s %s)" % (a, sym, b), T_BOOL
            raise Untranslatable("comparison %s" % u)
        if isinstance(e, ast.Call) and not e.keywords:
            sp = self._split_call(e, env, binds)
            if sp is not None:
                return sp
            f = ast.unparse(e.func)
            if f == "len" and len(e.args) == 1:
                a, ta = self.ex(e.args[0], env, binds)
                if isinstance(ta, tuple) and ta[0] == "List":
                    return "%s.length" % a, T_NAT
                raise Untranslatable("len of %s" % ast.unparse(e.args[0]))
            if f == "merge_nodes" and len(e.args) == 4 and "merge_nodes" not in env:
                m = find_func(self.mod, "merge_nodes")
                if len(m.args.args) != 4:
                    raise Untranslatable("merge_nodes arity")
                xs = [self.ex(x, env, binds, ty)[0] for x, ty in zip(e.args, (T_SNODE, T_SNODE, T_ORIENT, T_ORIENT))]
                return "(Gaftools.Gen.mergeNodes %s)" % " ".join(xs), T_MERGE
            if isinstance(e.func, ast.Attribute) and e.func.attr == "to_string" and len(e.args) == 1:
                o, to = self.ex(e.func.value, env, binds)
                if to != T_SNODE:
                    raise Untranslatable("to_string of %s" % ast.unparse(e.func.value))
                a, _ = self.ex(e.args[0], env, binds, T_ORIENT)
                return "(toStr %s %s)" % (o, a), T_STR
        raise Untranslatable("expression %s" % u)

    # ---- statements
    @staticmethod
    def wrap(binds, pad, inner):
        """inner: pad -> text"""
        out = []
        for v, t in binds:
            out.append("%smatch %s with\n%s| none => none\n%s| some %s =>" % (pad, t, pad, pad, v))
        return "\n".join(out + [inner(pad)])

    def target_name(self, t):
        """the variable an assignment target updates"""
        if isinstance(t, ast.Name):
            return t.id
        if isinstance(t, ast.Attribute) and isinstance(t.value, ast.Name) and (t.value.id, t.attr) in self.attrs:
            return self.attrs[(t.value.id, t.attr)][0]
        if isinstance(t, ast.Subscript) and isinstance(t.value, ast.Name):
            return t.value.id
        raise Untranslatable("assignment target %s" % ast.unparse(t))

    def assigned(self, stmts):
        out = []

        def add(n):
            if n not in out:
                out.append(n)
        for st in stmts:
            if isinstance(st, ast.Assign):
                for t in st.targets:
                    add(self.target_name(t))
            elif isinstance(st, ast.AugAssign):
                add(self.target_name(st.target))
            elif isinstance(st, ast.Expr) and isinstance(st.value, ast.Call) and isinstance(st.value.func, ast.Attribute) \
                    and st.value.func.attr == "append" and isinstance(st.value.func.value, ast.Name):
                add(st.value.func.value.id)
            elif isinstance(st, ast.If):
                for n in self.assigned(st.body) + self.assigned(st.orelse):
                    add(n)
            elif isinstance(st, (ast.Continue, ast.Pass)) or (isinstance(st, ast.Expr) and isinstance(st.value, ast.Constant)):
                pass
            else:
                raise Untranslatable("statement %s" % ast.unparse(st)[:70])
        return out

    def merge_test(self, test, env):
        """`X is False` / `X == False` / `not X` (-> True) and `X is not False` / `X != False` / `X` (-> False) for the result of merge_nodes"""
        if isinstance(test, ast.Name) and env.get(test.id) == T_MERGE:
            return test.id, False
        if isinstance(test, ast.UnaryOp) and isinstance(test.op, ast.Not) and isinstance(test.operand, ast.Name) and env.get(test.operand.id) == T_MERGE:
            return test.operand.id, True
        if (isinstance(test, ast.Compare) and len(test.ops) == 1 and isinstance(test.left, ast.Name) and env.get(test.left.id) == T_MERGE
                and isinstance(test.comparators[0], ast.Constant) and test.comparators[0].value is False):
            if isinstance(test.ops[0], (ast.Is, ast.Eq)):
                return test.left.id, True
            if isinstance(test.ops[0], (ast.IsNot, ast.NotEq)):
                return test.left.id, False
        return None

    def blk(self, stmts, env, ind, fall, decl):
        """stmts -> Lean text of type `Option _`; `fall(env, ind)` = text for leaving the block (end of the body / `continue`);
        `decl` = declared types of the function's variables (a temporary takes the type of its first value)"""
        pad = " " * ind
        if not stmts:
            return fall(env, ind)
        st, rest = stmts[0], stmts[1:]
        u = ast.unparse(st)
        if (isinstance(st, ast.Expr) and isinstance(st.value, ast.Constant)) or isinstance(st, ast.Pass):
            return self.blk(rest, env, ind, fall, decl)
        if isinstance(st, ast.Continue):
            return fall(env, ind)
        binds = []

        def let(name, ty, term):
            if name in _LEAN_RESERVED or name.startswith("_") or re.fullmatch(r"v\d+", name):
                raise Untranslatable("variable name %s" % name)
            env2 = dict(env)
            env2[name] = ty
            return self.wrap(binds, pad, lambda p: "%slet %s : %s := %s\n%s" % (p, name, _lt(ty), term, self.blk(rest, env2, ind, fall, decl)))
        if isinstance(st, ast.Assign) and len(st.targets) == 1:
            t = st.targets[0]
            name = self.target_name(t)
            if isinstance(t, ast.Subscript):
                # X[-1] = value
                ty = env.get(name)
                if not (isinstance(ty, tuple) and ty[0] == "List" and ast.unparse(t.slice) == "-1"):
                    raise Untranslatable("assignment %s" % u)
                v, _ = self.ex(st.value, env, binds, ty[1])
                binds.append((name, "setLast %s %s" % (name, v)))
                return self.wrap(binds, pad, lambda p: self.blk(rest, env, ind, fall, decl))
            if isinstance(t, ast.Attribute):
                ty = self.attrs[(t.value.id, t.attr)][1]
                v, _ = self.ex(st.value, env, binds, ty)
                return let(name, ty, v)
            if name in self.reserved:
                raise Untranslatable("assignment to %s" % name)
            if name in decl:
                v, _ = self.ex(st.value, env, binds, decl[name])
                return let(name, decl[name], v)
            v, ty = self.ex(st.value, env, binds)
            if name in env and env[name] != ty:
                raise Untranslatable("%s changes its type" % name)
            return let(name, ty, v)
        if isinstance(st, ast.AugAssign) and isinstance(st.op, ast.Add) and isinstance(st.target, ast.Name) and env.get(st.target.id) == T_STR:
            cur = st.target.id
            v, _ = self.ex(st.value, env, binds, T_STR)
            return let(cur, T_STR, "(%s ++ %s)" % (cur, v))
        if (isinstance(st, ast.Expr) and isinstance(st.value, ast.Call) and isinstance(st.value.func, ast.Attribute) and st.value.func.attr == "append"
                and isinstance(st.value.func.value, ast.Name) and len(st.value.args) == 1 and not st.value.keywords):
            name = st.value.func.value.id
            ty = env.get(name)
            if not (isinstance(ty, tuple) and ty[0] == "List"):
                raise Untranslatable("append to %s" % name)
            v, _ = self.ex(st.value.args[0], env, binds, ty[1])
            return let(name, ty, "(%s ++ [%s])" % (name, v))
        if isinstance(st, ast.If):
            mt = self.merge_test(st.test, env)
            if mt is not None:
                name, is_false = mt
                a, b = (st.body, st.orelse) if is_false else (st.orelse, st.body)
                env2 = dict(env)
                env2[name] = T_OIV
                return "%smatch %s with\n%s| none => (\n%s)\n%s| some %s =>\n%s" % (
                    pad, name, pad, self.blk(a + rest, env, ind + 4, fall, decl), pad, name, self.blk(b + rest, env2, ind + 4, fall, decl))
            t = st.test
            if isinstance(t, ast.BoolOp) and len(t.values) >= 2:
                # short-circuit evaluation of an operand that can raise: `if a and b: X else: Y` = `if a: (if b: X else: Y) else: Y`
                later = []
                for x in t.values[1:]:
                    self.ex(x, env, later, T_BOOL)
                if later:
                    tail = t.values[1] if len(t.values) == 2 else ast.BoolOp(op=t.op, values=t.values[1:])
                    if isinstance(t.op, ast.And):
                        new = ast.If(test=t.values[0], body=[ast.If(test=tail, body=st.body, orelse=st.orelse)], orelse=st.orelse)
                    else:
                        new = ast.If(test=t.values[0], body=st.body, orelse=[ast.If(test=tail, body=st.body, orelse=st.orelse)])
                    return self.blk([new] + rest, env, ind, fall, decl)
            c, _ = self.ex(t, env, binds, T_BOOL)
            return self.wrap(binds, pad, lambda p: "%sif %s then\n%s\n%selse\n%s" % (
                p, c, self.blk(st.body + rest, env, ind + 2, fall, decl), p, self.blk(st.orelse + rest, env, ind + 2, fall, decl)))
        if isinstance(st, ast.For):
            return self.loop(st, rest, env, ind, fall, decl)
        raise Untranslatable("statement %s" % u[:70])

    def loop(self, st, rest, env, ind, fall, decl):
        pad = " " * ind
        if not self.loop_names or st.orelse or not isinstance(st.target, ast.Name):
            raise Untranslatable("loop %s" % ast.unparse(st)[:60])
        fname = self.loop_names.pop(0)
        var = st.target.id
        binds = []
        it = st.iter
        if isinstance(it, ast.Call) and ast.unparse(it.func) == "range" and len(it.args) == 1 and not it.keywords:
            n, _ = self.ex(it.args[0], env, binds, T_NAT)
            iter_term, vty = "(List.range %s)" % n, T_NAT
        else:
            iter_term, ity = self.ex(it, env, binds)
            if not (isinstance(ity, tuple) and ity[0] == "List"):
                raise Untranslatable("loop over %s" % ast.unparse(it))
            vty = ity[1]
        if binds:
            raise Untranslatable("loop range can raise: %s" % ast.unparse(it))
        carried = [v for v in self.assigned(st.body) if v in env]
        if not carried or var in env:
            raise Untranslatable("loop state of %s" % fname)
        free = []
        for n in ast.walk(ast.Module(body=st.body, type_ignores=[])):
            if isinstance(n, ast.Name) and isinstance(n.ctx, ast.Load):
                v = n.id
            elif isinstance(n, ast.Attribute) and isinstance(n.value, ast.Name) and (n.value.id, n.attr) in self.attrs:
                v = self.attrs[(n.value.id, n.attr)][0]
            else:
                continue
            if v in env and v not in carried and v not in free:
                free.append(v)
        free.sort(key=lambda v: list(env).index(v))

        def proj(i):
            if len(carried) == 1:
                return "st"
            return "st" + ".2" * i + (".1" if i < len(carried) - 1 else "")

        def pack(e, ind2):
            for v in carried:
                if e.get(v) != env[v]:
                    raise Untranslatable("%s changes its type in the loop" % v)
            return " " * ind2 + "some " + (carried[0] if len(carried) == 1 else "(" + ", ".join(carried) + ")")
        benv = {v: env[v] for v in free + carried}
        benv[var] = vty
        body = self.blk(st.body, benv, 2, pack, decl)
        sty = " × ".join(_lt_atom(env[v]) for v in carried)
        self.defs.append((fname, "def %s %s(st : %s) (%s : %s) : Option (%s) :=\n%s\n%s" % (
            fname, "".join("(%s : %s) " % (v, _lt(env[v])) for v in free), sty, var, _lt(vty), sty,
            "\n".join("  let %s : %s := %s" % (v, _lt(env[v]), proj(i)) for i, v in enumerate(carried)), body)))
        pat = carried[0] if len(carried) == 1 else "(" + ", ".join(carried) + ")"
        env2 = dict(env)
        glue = ""
        for v in carried:
            if env[v] == ("List", T_RAWIV):
                # from here on an orientation is its Bool encoding ('>' = true), the convention of Gen.mergeNodes
                glue += "%slet %s : %s := %s.map (fun x => (x.1, encOrient x.2))\n" % (pad, v, _lt(("List", T_OIV)), v)
                env2[v] = ("List", T_OIV)
        return "%smatch %s.foldlM (%s) %s with\n%s| none => none\n%s| some %s =>\n%s%s" % (
            pad, iter_term, " ".join([fname] + free), pat, pad, pad, pat, glue, self.blk(rest, env2, ind, fall, decl))


def _to_string_def(mod, fields):
    """StableNode.to_string: `return FORMAT % (args)` with %s / %d placeholders"""
    init = find_func(mod, "__init__", cls="StableNode")
    params = [a.arg for a in init.args.args]
    stores = sorted(ast.unparse(st) for st in init.body if not (isinstance(st, ast.Expr) and isinstance(st.value, ast.Constant)))
    if params[1:] != list(fields) or stores != sorted("self.%s = %s" % (f, f) for f in fields):
        raise Untranslatable("StableNode.__init__ does not store %s" % list(fields))
    fn = find_func(mod, "to_string", cls="StableNode")
    args = [a.arg for a in fn.args.args]
    body = [st for st in fn.body if not (isinstance(st, ast.Expr) and isinstance(st.value, ast.Constant))]
    if len(args) != 2 or len(body) != 1 or not isinstance(body[0], ast.Return):
        raise Untranslatable("to_string shape")
    v = body[0].value
    if not (isinstance(v, ast.BinOp) and isinstance(v.op, ast.Mod) and isinstance(v.left, ast.Constant) and isinstance(v.left.value, str)):
        raise Untranslatable("to_string is not a format expression")
    vals = list(v.right.elts) if isinstance(v.right, ast.Tuple) else [v.right]
    tr = _PyLean(mod, fields, {}, [])
    env = {args[0]: T_SNODE, args[1]: T_ORIENT}
    parts, k = [], 0
    for lit, ph in re.findall(r"([^%]+)|(%.)", v.left.value):
        if lit:
            parts.append(_chars(lit))
            continue
        if ph not in ("%s", "%d") or k >= len(vals):
            raise Untranslatable("to_string placeholder %s" % ph)
        binds = []
        t, ty = tr.ex(vals[k], env, binds)
        k += 1
        if binds:
            raise Untranslatable("to_string argument")
        if ph == "%d" and ty == T_INT:
            parts.append("decI %s" % t)
        elif ph == "%s" and ty == T_ORIENT:
            parts.append("(if %s then %s else %s)" % (t, _chars(">"), _chars("<")))
        elif ph == "%s" and ty == T_STRING:
            parts.append("%s.toList" % t)
        elif ph == "%s" and ty == T_STR:
            parts.append(t)
        else:
            raise Untranslatable("to_string prints %s with %s" % (ast.unparse(vals[k - 1]), ph))
    if k != len(vals) or not parts:
        raise Untranslatable("to_string arguments")
    return "def toStr (%s : SNode) (%s : Bool) : Str :=\n  %s" % (args[0], args[1], " ++ ".join(parts))


CONV_LOOP_S_PRELUDE = """/-- `list(filter(None, re.split("(c)|(d)…", s)))` for single-character alternatives: every separator as a string of its own,
    the maximal runs between them, no empty strings -/
def splitKeepAux (seps : List Char) : Str → Str → List Str
  | [], cur => if cur.isEmpty then [] else [cur.reverse]
  | c :: cs, cur =>
    if seps.contains c then (if cur.isEmpty then [] else [cur.reverse]) ++ [c] :: splitKeepAux seps cs []
    else splitKeepAux seps cs (c :: cur)
def splitKeep (seps : List Char) (s : Str) : List Str := splitKeepAux seps s []
/-- truth value of `None` / a string -/
def truthy (o : Option Str) : Bool := match o with | none => false | some s => !s.isEmpty
/-- `l[-1] = v` (IndexError on the empty list) -/
def setLast {α : Type} (l : List α) (v : α) : Option (List α) := if l.isEmpty then none else some (l.dropLast ++ [v])
/-- the Bool encoding of an orientation string ('>' = true), as in Gen.mergeNodes -/
def encOrient (o : Option Str) : Bool := o == some ['>']
"""


def gen_conv_loop_s():
    _, src = src_of("gaftools/conversion.py")
    mod = ast.parse(src)
    fn = find_func(mod, "to_stable")
    args = [a.arg for a in fn.args.args]
    if args != ["gaf_line", "nodes", "ref_contig", "contig_len"]:
        raise Untranslatable("to_stable signature %s" % args)
    rec = args[0]
    fields = {"contig_id": ("contig", T_STRING), "start": ("s", T_INT), "end": ("e", T_INT)}
    to_str = _to_string_def(mod, fields)
    fmt_st, cols = _format_columns(fn, {4, 5, 6, 7, 8})
    if fmt_st not in fn.body:
        raise Untranslatable("the format statement is not at the top level of to_stable")
    at = fn.body.index(fmt_st)
    pre, post = fn.body[:at], fn.body[at + 1:]
    # the flag that makes the CIGAR be written reversed: `if <flag> and "cg:Z:" in gaf_line.tags: … reverse_cigar …`
    flips = [st for st in post if isinstance(st, ast.If) and "reverse_cigar" in "".join(ast.unparse(x) for x in st.body)]
    flip = _only(flips, "CIGAR reversal")
    if not (isinstance(flip.test, ast.BoolOp) and isinstance(flip.test.op, ast.And) and len(flip.test.values) >= 2
            and ast.unparse(flip.test.values[-1]) == "'cg:Z:' in %s.tags" % rec and not flip.orelse):
        raise Untranslatable("CIGAR reversal test: %s" % ast.unparse(flip.test))
    flag = flip.test.values[0] if len(flip.test.values) == 2 else ast.BoolOp(op=ast.And(), values=flip.test.values[:-1])
    attrs = {(rec, "path"): ("path", T_STR), (rec, "path_length"): ("path_length", T_INT), (rec, "path_start"): ("path_start", T_INT),
             (rec, "path_end"): ("path_end", T_INT), (rec, "strand"): ("strand", T_STRAND)}
    env = {"nodes": ("Dict", T_STRING, T_SNODE), "ref_contig": ("Set", T_STRING), "contig_len": ("Dict", T_STRING, T_INT),
           "strand": T_STRAND, "path": T_STR, "path_length": T_INT, "path_start": T_INT, "path_end": T_INT}
    decl = {"reverse_flag": T_BOOL, "new_total": ("Opt", T_INT), "new_start": ("Opt", T_INT), "gaf_nodes": ("List", T_STR),
            "node_list": ("List", T_RAWIV), "stable_coord": T_STR, "orient": ("Opt", T_STR), "new_line": T_STR,
            "out_node": ("List", T_OIV)}
    tr = _PyLean(mod, fields, attrs, ["tokStep", "mergeStep"])
    tr.reserved = set(env)

    def final(e, ind):
        binds = []
        strand, _ = tr.ex(cols[4], e, binds, T_STRAND)
        if ast.unparse(cols[4]) != "%s.strand" % rec:
            raise Untranslatable("column 5 prints %s" % ast.unparse(cols[4]))
        text, _ = tr.ex(cols[5], e, binds, T_STR)
        c = [tr.ex(cols[i], e, binds, T_INT)[0] for i in (6, 7, 8)]
        fl, _ = tr.ex(flag, e, binds, T_BOOL)
        return tr.wrap(binds, " " * ind, lambda p: "%ssome (%s, (⟨%s, %s, %s, %s, %s⟩ : ConvOut))" % (p, text, strand, c[0], c[1], c[2], fl))
    # a local variable may not be used under two types: node_list is re-typed by the encoding step only
    body = tr.blk(pre, env, 2, final, decl)
    if tr.loop_names or tr.seps is None:
        raise Untranslatable("to_stable: the two loops / the path split were not found")
    defs = dict(tr.defs)
    return ("import Gaftools.Model.ConvText\nimport Gaftools.Gen.MergeNodes\n"
            "/-! generated by harness/translate.py from gaftools/conversion.py : to_stable up to the twelve-column format statement, statement by\n"
            "    statement (`none` = the Python raises: KeyError of `nodes[nd]` / `contig_len[…]`, IndexError of `node_list[0]`); `merge_nodes` is\n"
            "    Gen.mergeNodes — do not edit -/\n"
            "set_option linter.unusedVariables false\n"
            "namespace Gaftools.Gen\nopen Gaftools.Gaf Gaftools.Conv Gaftools.ConvText\n\n" + CONV_LOOP_S_PRELUDE + "\n"
            "/-- the characters `re.split` cuts the path at (each kept as a token) -/\n"
            "def pathSeps : List Char := %s\n\n"
            "/-- `StableNode.to_string(orient)` -/\n%s\n\n"
            "/-- the body of the loop over the path tokens; the state is the tuple of the variables it assigns -/\n%s\n\n"
            "/-- the body of the loop that merges consecutive nodes; the state is the tuple of the variables it assigns -/\n%s\n\n"
            "/-- `to_stable` up to the format statement: the path column, and (strand column, columns 7-9, whether the CIGAR is reversed) -/\n"
            "def toStableS (nodes : String → Option SNode) (ref_contig : List String) (contig_len : String → Option Int)\n"
            "    (strand : Bool) (path : Str) (path_length path_start path_end : Int) : Option (Str × ConvOut) :=\n%s\n"
            "end Gaftools.Gen\n" % (_chars("".join(tr.seps)), to_str, defs["tokStep"], defs["mergeStep"], body))


GENERATORS["ConvLoopS"] = gen_conv_loop_s


# ---------------------------------------------------------------------------------------------------------
# GFA.find_component / GFA.all_components / GFA.dfs: every statement of the three functions, in source order (C15, C06, C18)

_SEARCH_RESERVED = {"σ", "nb", "Vs", "fuel", "vis", "r", "fun", "let", "if", "then", "else", "match", "with", "at", "from", "have", "show",
                    "do", "end", "open", "in", "def", "by", "where", "structure", "instance", "theorem", "Type", "Prop", "true", "false",
                    "whileFuel", "insertSet", "decide", "V"}


class _SearchTr:
    """State-passing translation of a small imperative subset of Python.

    The mutable collections of the function are the fields of a Lean structure, threaded as `σ`; the per-node attribute `visited`
    is the field `vis` (the ids whose flag is set).  Representation, decided from the source: a list on which `.pop()` is called is kept
    with its END first (`append` = cons, `pop()` = head/tail), any other list in its natural order (`append` = `++ [x]`), a set as a
    list that `add` extends through `insertSet`.  `for x in e: body` becomes a `foldl` of the translated body over the translated `e`,
    `while c: body` becomes `whileFuel cCond cStep fuel` with the body translated into the definition `cStep`; `continue` ends the
    translated body, `return` ends the translated function.  A local variable is a `let`; it may only be read where every path to
    the read has assigned it in the same function/loop body (otherwise `Untranslatable`)."""

    def __init__(self, mod, fn, struct, prefix, expect, flags, ret, callee=None):
        self.mod, self.fn, self.struct, self.prefix, self.flags, self.ret, self.callee = mod, fn, struct, prefix, flags, ret, callee
        self.params = [a.arg for a in fn.args.args[1:]]
        if (not fn.args.args or fn.args.args[0].arg != "self" or fn.args.vararg or fn.args.kwarg or fn.args.kwonlyargs or fn.args.defaults
                or fn.decorator_list):
            raise Untranslatable("%s: signature" % fn.name)
        self.kinds = self._collections(fn)
        if self.kinds != expect:
            raise Untranslatable("%s: mutable collections %s, expected %s" % (fn.name, self.kinds, expect))
        for n in ast.walk(fn):
            if isinstance(n, (ast.Assign, ast.AugAssign, ast.AnnAssign, ast.For, ast.NamedExpr, ast.comprehension)):
                tg = n.targets if isinstance(n, ast.Assign) else [n.target]
                for t in tg:
                    for x in ast.walk(t):
                        if isinstance(x, ast.Name) and isinstance(x.ctx, ast.Store) and x.id in self.params + ["self"]:
                            raise Untranslatable("%s: parameter %s is assigned" % (fn.name, x.id))
        self.loop = None
        self._helpers = {}

    # -- which names are mutable collections, and how they are represented
    @staticmethod
    def _collection_kind(v):
        if isinstance(v, ast.List):
            return "list"
        if isinstance(v, ast.Call) and isinstance(v.func, ast.Name) and not v.args and not v.keywords and v.func.id in ("list", "set"):
            return v.func.id
        return None

    def _collections(self, fn):
        kinds = {}
        for n in ast.walk(fn):
            if isinstance(n, ast.Assign) and len(n.targets) == 1 and isinstance(n.targets[0], ast.Name):
                k = self._collection_kind(n.value)
                if k:
                    if kinds.setdefault(n.targets[0].id, k) != k:
                        raise Untranslatable("%s is a list and a set" % n.targets[0].id)
        for n in ast.walk(fn):
            if (isinstance(n, ast.Call) and isinstance(n.func, ast.Attribute) and n.func.attr == "pop" and isinstance(n.func.value, ast.Name)
                    and kinds.get(n.func.value.id) == "list"):
                kinds[n.func.value.id] = "stack"
        return kinds

    # -- the small methods of GFA the three functions go through: used only if they are what the translation takes them for
    def helper(self, name, want):
        if name not in self._helpers:
            h = find_func(self.mod, name, cls="GFA")
            body = [ast.unparse(x) for x in h.body if not (isinstance(x, ast.Expr) and isinstance(x.value, ast.Constant))]
            args = [a.arg for a in h.args.args]
            self._helpers[name] = (args, body)
        args, body = self._helpers[name]
        if body != [w % tuple(args[1:]) for w in want] or args[0] != "self":
            raise Untranslatable("GFA.%s is not %s" % (name, want))

    def local(self, name):
        if name in _SEARCH_RESERVED or name in self.kinds or not name.isidentifier() or not name.isascii():
            raise Untranslatable("local name %s" % name)
        return name

    def node_key(self, e, sc):
        """`self.nodes[k]` / `self[k]` -> the translated k (a node outside the graph: KeyError / None, see TieA12)"""
        if isinstance(e, ast.Subscript):
            b = ast.unparse(e.value)
            if b == "self":
                self.helper("__getitem__", ["try:\n    return self.nodes[%s]\nexcept KeyError:\n    return None"])
            if b in ("self", "self.nodes"):
                return self.val(e.slice, sc)
        return None

    def node_list(self, e):
        """expressions that denote the node ids in dict order"""
        u = ast.unparse(e)
        if u in ("self.nodes", "self.nodes.keys()", "list(self.nodes.keys())", "list(self.nodes)"):
            return "Vs"
        return None

    def val(self, e, sc):
        if isinstance(e, ast.Name):
            if e.id == "__fc_result__":
                return "r.1"
            if e.id in self.kinds:
                if e.id not in sc:
                    raise Untranslatable("%s is read before it is assigned" % e.id)
                return "σ.%s" % e.id
            if e.id in sc:
                return self.local(e.id)
            raise Untranslatable("name %s is not in scope" % e.id)
        if isinstance(e, ast.Constant) and isinstance(e.value, int) and not isinstance(e.value, bool) and e.value >= 0:
            return str(e.value)
        if isinstance(e, ast.List):
            return "[" + ", ".join(self.val(x, sc) for x in e.elts) + "]"
        if self.node_list(e) and isinstance(e, ast.Call):
            return self.node_list(e)
        if isinstance(e, ast.Call) and not e.keywords:
            fu = ast.unparse(e.func)
            if fu == "len" and len(e.args) == 1:
                a = e.args[0]
                if ast.unparse(a) == "self":
                    self.helper("__len__", ["return len(self.nodes)"])
                    return "Vs.length"
                if ast.unparse(a) == "self.nodes":
                    return "Vs.length"
                return "%s.length" % self.val(a, sc)
            if fu in ("list", "set") and not e.args:
                return "[]"
            if isinstance(e.func, ast.Attribute) and e.func.attr == "neighbors" and not e.args:
                k = self.node_key(e.func.value, sc)
                if k:
                    return "(nb %s)" % k
        if (isinstance(e, ast.Subscript) and isinstance(e.slice, ast.Constant) and isinstance(e.slice.value, int)
                and not isinstance(e.slice.value, bool) and e.slice.value >= 0 and isinstance(e.value, (ast.Call, ast.Name, ast.List))):
            return "(%s.getD %d \"\")" % (self.val(e.value, sc), e.slice.value)
        raise Untranslatable("%s value: %s" % (self.fn.name, ast.unparse(e)[:70]))

    def cond(self, e, sc):
        if isinstance(e, ast.BoolOp):
            return "(" + (" && " if isinstance(e.op, ast.And) else " || ").join(self.cond(x, sc) for x in e.values) + ")"
        if isinstance(e, ast.UnaryOp) and isinstance(e.op, ast.Not):
            return "(!%s)" % self.cond(e.operand, sc)
        if isinstance(e, ast.Constant) and isinstance(e.value, bool):
            return "true" if e.value else "false"
        if isinstance(e, ast.Name) and e.id in self.kinds:
            return "(!%s.isEmpty)" % self.val(e, sc)
        if isinstance(e, ast.Attribute) and e.attr == "visited" and self.flags:
            k = self.node_key(e.value, sc)
            if k:
                return "(σ.vis.contains %s)" % k
        if isinstance(e, ast.Compare) and len(e.ops) == 1:
            l, r, t = e.left, e.comparators[0], type(e.ops[0])
            if t in (ast.In, ast.NotIn):
                if ast.unparse(r) == "self":
                    self.helper("__contains__", ["return %s in self.nodes"])
                    c = "Vs"
                elif self.node_list(r):
                    c = self.node_list(r)
                elif isinstance(r, ast.Name):
                    c = self.val(r, sc)
                else:
                    raise Untranslatable("%s membership in %s" % (self.fn.name, ast.unparse(r)[:50]))
                c = "(%s.contains %s)" % (c, self.val(l, sc))
                return c if t is ast.In else "(!%s)" % c
            op = {ast.Lt: "<", ast.Gt: ">", ast.LtE: "≤", ast.GtE: "≥", ast.Eq: "=", ast.NotEq: "≠"}.get(t)
            if op:
                return "decide (%s %s %s)" % (self.val(l, sc), op, self.val(r, sc))
        raise Untranslatable("%s test: %s" % (self.fn.name, ast.unparse(e)[:70]))

    def iterable(self, e, sc):
        if self.node_list(e):
            return self.node_list(e)
        if isinstance(e, ast.Name) and e.id in self.kinds:
            raise Untranslatable("loop over the mutable %s" % e.id)
        return self.val(e, sc)

    def collection(self, v, kind, sc):
        k = self._collection_kind(v)
        if k is None or (k == "set") != (kind == "set"):
            raise Untranslatable("%s: %s assigned to a %s" % (self.fn.name, ast.unparse(v)[:50], kind))
        elts = [self.val(x, sc) for x in v.elts] if isinstance(v, ast.List) else []
        if kind == "stack":
            elts.reverse()
        return "[" + ", ".join(elts) + "]"

    def ex(self, stmts, sc, ind, ctx):
        pad = " " * ind
        S = self.struct
        if not stmts:
            if ctx == "func":
                raise Untranslatable("%s may end without a return" % self.fn.name)
            return pad + "σ"
        st, rest = stmts[0], stmts[1:]
        u = ast.unparse(st)
        if isinstance(st, ast.Expr) and isinstance(st.value, ast.Constant):
            return self.ex(rest, sc, ind, ctx)
        if isinstance(st, ast.Continue):
            if ctx != "loop":
                raise Untranslatable("continue outside a loop")
            return pad + "σ"
        if isinstance(st, ast.Return):
            if ctx != "func" or st.value is None:
                raise Untranslatable("%s: %s inside a loop" % (self.fn.name, u[:40]))
            return pad + self.ret(self.val(st.value, sc))

        def upd(field, text, sc2=None):
            return "%slet σ : %s := { σ with %s := %s }\n%s" % (pad, S, field, text, self.ex(rest, sc if sc2 is None else sc2, ind, ctx))
        # a call of the other translated function: it runs first (flags included), the statement then uses its value
        head = st.test if isinstance(st, (ast.If, ast.While)) else st.iter if isinstance(st, ast.For) else st
        calls = [n for n in ast.walk(head) if isinstance(n, ast.Call) and isinstance(n.func, ast.Attribute) and ast.unparse(n.func.value) == "self"
                 and n.func.attr not in ("set_visited",)]
        if calls:
            c = calls[0]
            if (len(calls) != 1 or self.callee is None or c.func.attr != self.callee[0] or len(c.args) != 1 or c.keywords
                    or not isinstance(st, ast.Expr) or not self.flags):
                raise Untranslatable("%s: call %s" % (self.fn.name, ast.unparse(c)[:60]))
            arg = self.val(c.args[0], sc)

            class Repl(ast.NodeTransformer):
                def visit_Call(self, node):
                    if node is c:
                        return ast.Name(id="__fc_result__", ctx=ast.Load())
                    return self.generic_visit(node)
            st2 = ast.fix_missing_locations(Repl().visit(st))
            return ("%slet r := %s nb fuel %s σ.vis\n%slet σ : %s := { σ with vis := r.2 }\n%s"
                    % (pad, self.callee[1], arg, pad, S, self.ex([st2] + rest, sc, ind, ctx)))
        if isinstance(st, ast.If):
            return "%sif %s then\n%s\n%selse\n%s" % (pad, self.cond(st.test, sc), self.ex(st.body + rest, sc, ind + 2, ctx), pad,
                                                     self.ex(st.orelse + rest, sc, ind + 2, ctx))
        if isinstance(st, ast.For) and not st.orelse and isinstance(st.target, ast.Name):
            v = self.local(st.target.id)
            if v in self.params:
                raise Untranslatable("loop variable %s" % v)
            body = self.ex(st.body, sc | {v}, ind + 4, "loop")
            return "%slet σ : %s := %s.foldl (fun (σ : %s) %s =>\n%s) σ\n%s" % (pad, S, self.iterable(st.iter, sc), S, v, body,
                                                                              self.ex(rest, sc, ind, ctx))
        if isinstance(st, ast.While) and not st.orelse:
            if ctx != "func" or self.loop is not None:
                raise Untranslatable("%s: nested or second while" % self.fn.name)
            body_sc = {k for k in self.kinds if k in sc}     # the body sees the collections only: no local survives an iteration
            self.loop = (self.cond(st.test, body_sc), self.ex(st.body, body_sc, 2, "loop"))
            return "%slet σ : %s := whileFuel %sCond (%sStep nb) fuel σ\n%s" % (pad, S, self.prefix, self.prefix, self.ex(rest, sc, ind, ctx))
        if isinstance(st, ast.Assign) and len(st.targets) == 1:
            t, v = st.targets[0], st.value
            if isinstance(t, ast.Name) and t.id in self.kinds:
                return upd(t.id, self.collection(v, self.kinds[t.id], sc), sc | {t.id})
            if isinstance(t, ast.Name):
                x = self.local(t.id)
                if (isinstance(v, ast.Call) and isinstance(v.func, ast.Attribute) and v.func.attr == "pop" and isinstance(v.func.value, ast.Name)
                        and v.func.value.id in self.kinds):
                    q = v.func.value.id
                    if v.args or v.keywords or self.kinds[q] != "stack" or q not in sc:
                        raise Untranslatable("%s: %s" % (self.fn.name, u[:50]))
                    return ("%slet %s := σ.%s.headD \"\"\n%slet σ : %s := { σ with %s := σ.%s.tail }\n%s"
                            % (pad, x, q, pad, S, q, q, self.ex(rest, sc | {x}, ind, ctx)))
                if isinstance(v, ast.Name) and v.id in self.kinds:
                    raise Untranslatable("%s: alias of the mutable %s" % (self.fn.name, v.id))
                return "%slet %s := %s\n%s" % (pad, x, self.val(v, sc), self.ex(rest, sc | {x}, ind, ctx))
            if isinstance(t, ast.Attribute) and t.attr == "visited" and self.flags and isinstance(v, ast.Constant) and v.value is True:
                k = self.node_key(t.value, sc)
                if k:
                    return upd("vis", "insertSet %s σ.vis" % k)
        if isinstance(st, ast.Expr) and isinstance(st.value, ast.Call) and not st.value.keywords:
            f, args = st.value.func, st.value.args
            if isinstance(f, ast.Attribute) and isinstance(f.value, ast.Name) and f.value.id in self.kinds and len(args) == 1:
                x, kind = f.value.id, self.kinds[f.value.id]
                if x not in sc:
                    raise Untranslatable("%s is used before it is assigned" % x)
                a = self.val(args[0], sc)
                if f.attr == "append" and kind == "stack":
                    return upd(x, "%s :: σ.%s" % (a, x))
                if f.attr == "append" and kind == "list":
                    return upd(x, "σ.%s ++ [%s]" % (x, a))
                if f.attr == "add" and kind == "set":
                    return upd(x, "insertSet %s σ.%s" % (a, x))
            if u == "self.set_visited(False)" and self.flags:
                self.helper("set_visited", ["for n in self.nodes.values():\n    n.visited = %s"])
                return upd("vis", "[]")
        raise Untranslatable("%s statement: %s" % (self.fn.name, u[:70]))

    def function(self, ind=2):
        return self.ex(self.fn.body, set(self.params), ind, "func")

    def loop_defs(self):
        if self.loop is None:
            raise Untranslatable("%s: no while loop" % self.fn.name)
        return ("/-- the test of the `while` of `%s` -/\ndef %sCond (σ : %s) : Bool := %s\n\n"
                "/-- its body, one iteration (`x = l.pop()` of an empty list, an IndexError, cannot happen under the test) -/\n"
                "def %sStep (nb : V → List V) (σ : %s) : %s :=\n%s\n"
                % (self.fn.name, self.prefix, self.struct, self.loop[0], self.prefix, self.struct, self.struct, self.loop[1]))


SEARCH_HEADER = """import Gaftools.Model.Algo
/-! %s -/
namespace Gaftools.Gen.Search
open Gaftools.Algo

/-- `while c: body`, at most `fuel` iterations (the theorems are about every large enough `fuel`) -/
def whileFuel {α : Type} (c : α → Bool) (body : α → α) : Nat → α → α
  | 0, s => s
  | n + 1, s => if c s then whileFuel c body n (body s) else s

/-- the mutable state of `find_component`: `queue` with its END first, the set `cc`, the ids whose `visited` flag is set -/
structure FcSt where
  queue : List V
  cc : List V
  vis : List V

/-- the mutable state of `all_components` -/
structure AcSt where
  connected_comp : List (List V)
  vis : List V

/-- the mutable state of `dfs`: `stack` with its END first -/
structure DfsSt where
  stack : List V
  dfs_out : List V
  ordered_dfs_out : List V

"""


def gen_search():
    try:
        return _gen_search()
    except (Untranslatable, SyntaxError, OSError, KeyError, IndexError):
        raise
    except Exception as e:  # a shape the translator did not foresee is never an alarm
        raise Untranslatable("translator: %s: %s" % (type(e).__name__, e))


def _gen_search():
    _, src = src_of("gaftools/gfa.py")
    mod = ast.parse(src)
    fc = _SearchTr(mod, find_func(mod, "find_component", cls="GFA"), "FcSt", "fc", {"queue": "stack", "cc": "set"}, True,
                   lambda v: "(%s, σ.vis)" % v)
    ac = _SearchTr(mod, find_func(mod, "all_components", cls="GFA"), "AcSt", "ac", {"connected_comp": "list"}, True,
                   lambda v: "(%s, σ.vis)" % v, callee=("find_component", "findComponent"))
    df = _SearchTr(mod, find_func(mod, "dfs", cls="GFA"), "DfsSt", "dfs", {"stack": "stack", "dfs_out": "set", "ordered_dfs_out": "list"}, False,
                   lambda v: v)
    if len(fc.params) != 1 or ac.params or len(df.params) != 1:
        raise Untranslatable("parameters of the three functions")
    fc_fn, ac_fn, df_fn = fc.function(), ac.function(), df.function()
    if ac.loop is not None:
        raise Untranslatable("all_components: while loop")
    return (SEARCH_HEADER % ("generated by harness/translate.py from gaftools/gfa.py : GFA.find_component, GFA.all_components, GFA.dfs, statement by\n"
                             "    statement; `nb n` = `self.nodes[n].neighbors()`, `Vs` = the keys of `self.nodes` in dict order — do not edit")
            + fc.loop_defs()
            + "\n/-- `find_component(%s)` with the flags `vis` set on entry: the returned set and the flags on exit -/\n" % fc.params[0]
            + "def findComponent (nb : V → List V) (fuel : Nat) (%s : V) (vis : List V) : List V × List V :=\n" % fc.local(fc.params[0])
            + "  let σ : FcSt := { queue := [], cc := [], vis := vis }\n" + fc_fn + "\n\n"
            + "/-- `all_components()` with the flags `vis` set on entry: the returned list and the flags on exit -/\n"
            + "def allComponents (nb : V → List V) (fuel : Nat) (Vs : List V) (vis : List V) : List (List V) × List V :=\n"
            + "  let σ : AcSt := { connected_comp := [], vis := vis }\n" + ac_fn + "\n\n"
            + df.loop_defs()
            + "\n/-- `dfs(%s)` -/\n" % df.params[0]
            + "def dfs (nb : V → List V) (fuel : Nat) (Vs : List V) (%s : V) : List V :=\n" % df.local(df.params[0])
            + "  let σ : DfsSt := { stack := [], dfs_out := [], ordered_dfs_out := [] }\n" + df_fn + "\n"
            + "end Gaftools.Gen.Search\n")


GENERATORS["Search"] = gen_search


# ---------------------------------------------------------------------------------------------------------
# Node.to_gfa_line / GFA.sort_bo_no / GFA.write_gfa: every statement of the three functions, in source order (C07, C06, C18)

W_STR, W_STRING, W_NAT, W_INT, W_BOOL, W_SIDE, W_PYV = "Str", "String", "Nat", "Int", "Bool", "Side", "PyV"
W_GFA, W_NODES, W_ETAGS, W_NODE, W_NTAGS = "GFA", "Nodes", "EdgeTags", "Node", "NodeTags"
W_ADJ = ("Tup", (W_STRING, W_SIDE, W_NAT))
W_EKEY = ("Tup", (W_STRING, W_SIDE, W_STRING, W_SIDE))
W_TAGITEM = ("Tup", (W_STRING, ("Tup", (W_STRING, W_STRING))))
_WG_RESERVED = _LEAN_RESERVED | {"g", "tagv", "old", "it", "st", "Str", "PyV", "Node", "Graph"}

WRITE_GFA_PRELUDE = """import Gaftools.Model.GfaText
/-! %s -/
set_option linter.unusedVariables false
namespace Gaftools.Gen.WriteGfa
open Gaftools.Gfa

abbrev Str := List Char

/-- an element of a list handed to `str.join`: a string, or an integer (`edge_tags` holds the list `[0]` for a link without tags) -/
inductive PyV where
  | str (s : Str)
  | int (i : Int)
deriving DecidableEq, Repr

/-- `sep.join(l)`; `none` = TypeError (an element is not a string) -/
def pyJoin (sep : Str) : List PyV → Option Str
  | [] => some []
  | [PyV.str x] => some x
  | PyV.str x :: y :: r => (pyJoin sep (y :: r)).map (fun t => x ++ sep ++ t)
  | PyV.int _ :: _ => none

/-- the Python list stored in `edge_tags` for the model's tag list (`Graph.edgeTags`: "the `[0]` marker = `[]`") -/
def pyTags (v : List String) : List PyV := if v.isEmpty then [PyV.int 0] else v.map (fun s => PyV.str s.toList)
/-- `self.edge_tags[k]` (`none` = KeyError) -/
def edgeTagsPy (g : Graph) (k : EdgeKey) : Option (List PyV) := (edgeTagsGet g k).map pyTags
/-- `str(n)` of a non-negative integer -/
def strNat (n : Nat) : Str := Nat.toDigits 10 n
/-- `self.tags.items()` of a node: `(name, (type, value))` in insertion order -/
def tagItems (n : Node) : List (String × String × String) := n.tags.map (fun t => (t.name, t.ty, t.val))

/-- a Python dict as an association list in insertion order -/
def dictHas {κ ν : Type} [BEq κ] (d : List (κ × ν)) (k : κ) : Bool := d.any (·.1 == k)
def dictGet {κ ν : Type} [BEq κ] (d : List (κ × ν)) (k : κ) : Option ν := (d.find? (·.1 == k)).map (·.2)
def dictSet {κ ν : Type} [BEq κ] (d : List (κ × ν)) (k : κ) (v : ν) : List (κ × ν) :=
  if d.any (·.1 == k) then d.map (fun e => if e.1 == k then (k, v) else e) else d ++ [(k, v)]

/-- stable insertion by an integer key -/
def insKey {α : Type} (x : Int × α) : List (Int × α) → List (Int × α)
  | [] => [x]
  | y :: ys => if x.1 ≤ y.1 then x :: y :: ys else y :: insKey x ys
/-- `sorted(l, key=…)` once the keys `ks` of the elements are computed (stable) -/
def sortedBy {α : Type} (ks : List Int) (l : List α) : List α := ((ks.zip l).foldr insKey []).map (·.2)
/-- `sorted(l)` of integers -/
def pySorted (l : List Int) : List Int := sortedBy l l

"""


def _wt(t):
    """Lean type of a translation type"""
    if t in (W_BOOL, W_SIDE):
        return "Bool"
    if t in (W_STR, W_STRING, W_NAT, W_INT, W_PYV, W_NODE):
        return t
    if isinstance(t, tuple) and t[0] == "Opt":
        return "Option %s" % _wt_atom(t[1])
    if isinstance(t, tuple) and t[0] == "List":
        return "List %s" % _wt_atom(t[1])
    if isinstance(t, tuple) and t[0] == "Tup":
        return " × ".join(_wt_atom(x) if i < len(t[1]) - 1 else _wt_tail(x) for i, x in enumerate(t[1]))
    if isinstance(t, tuple) and t[0] == "Dict":
        return "List (%s × %s)" % (_wt_atom(t[1]), _wt_tail(t[2]))
    raise Untranslatable("type %s" % (t,))


def _wt_atom(t):
    s = _wt(t)
    return s if " " not in s else "(%s)" % s


def _wt_tail(t):
    # the last component of a product needs no parentheses when it is a product itself
    s = _wt(t)
    if isinstance(t, tuple) and t[0] == "Tup":
        return s
    return s if " " not in s else "(%s)" % s


def _lean_string(s):
    out = []
    for c in s:
        if c == '"':
            out.append('\\"')
        elif c == "\\":
            out.append("\\\\")
        elif c == "\t":
            out.append("\\t")
        elif c == "\n":
            out.append("\\n")
        elif 32 <= ord(c) < 127:
            out.append(c)
        else:
            raise Untranslatable("character %r in a string constant" % c)
    return '"%s"' % "".join(out)


def _tup_proj(term, i, n):
    if i == 0:
        return "%s.1" % term
    return term + ".2" * i + (".1" if i < n - 1 else "")


class _WgTr:
    """typed translation of the statements of one method into a Lean term of type `Option _` (`none` = the Python raises).
    A Python variable is a Lean variable of the same name, re-bound by `let` on assignment; an operation that can raise
    (`d[k]`, `l[0]`, `sep.join(l)`, a call of another translated method) is bound by `match … with | none => none | some v =>`
    in evaluation order; the body of a `for` loop becomes a definition of its own over the variables it assigns."""

    def __init__(self, cls, fname, lean_name, ctx, self_type, methods, out_name=None):
        self.cls = cls                  # the ClassDef (for called methods)
        self.fname = fname
        self.lean_name = lean_name
        self.ctx = ctx                  # [(lean variable, lean type)] passed to every definition
        self.self_type = self_type      # W_GFA or W_NODE
        self.methods = methods          # python method name -> (lean name, parameter types, defaults, result type)
        self.out_name = out_name        # the parameter holding the file content before the call (write_gfa)
        self.defs = []
        self.k = 0
        self.nloops = 0

    # ---- helpers
    def fresh(self):
        self.k += 1
        return "v%d" % self.k

    def bind(self, term, binds):
        for v, t in binds:
            if t == term:
                return v
        v = self.fresh()
        binds.append((v, term))
        return v

    def ctx_args(self):
        return " ".join(v for v, _ in self.ctx)

    def ctx_params(self):
        return "".join("(%s : %s) " % (v, t) for v, t in self.ctx)

    def coerce(self, t, have, want):
        if have == want or want is None:
            return t
        if have == W_STRING and want == W_STR:
            return "%s.toList" % t
        if have == W_STR and want == W_PYV:
            return "(PyV.str %s)" % t
        if have == W_STRING and want == W_PYV:
            return "(PyV.str %s.toList)" % t
        if have == ("List", W_STR) and want == ("List", W_PYV):
            return "(%s.map PyV.str)" % t
        if have == W_NAT and want == W_INT:
            return "(%s : Int)" % t
        raise Untranslatable("a value of type %s where %s is needed (%s)" % (have, want, t))

    def ex(self, e, env, binds, expect=None):
        t, ty = self._ex(e, env, binds, expect)
        if expect is not None:
            return self.coerce(t, ty, expect), expect
        return t, ty

    def _const(self, e, expect):
        v = e.value
        if v is None:
            if isinstance(expect, tuple) and expect[0] == "Opt":
                return "none", expect
            raise Untranslatable("None where %s is expected" % (expect,))
        if isinstance(v, bool):
            return ("true" if v else "false"), W_BOOL
        if isinstance(v, int):
            if expect == W_SIDE:
                if v in (0, 1):
                    return ("true" if v == 1 else "false"), W_SIDE
                raise Untranslatable("side constant %r" % v)
            if expect == W_PYV:
                return "(PyV.int %d)" % v, W_PYV
            if expect == W_NAT and v >= 0:
                return str(v), W_NAT
            return "(%d : Int)" % v, W_INT
        if isinstance(v, str):
            if expect == W_STRING:
                return _lean_string(v), W_STRING
            return _chars(v), W_STR
        raise Untranslatable("constant %r" % (v,))

    def _tag_value(self, e, env, binds):
        """`self[n].tags[K][1]` / `self.nodes[n].tags[K][1]`: the value of tag K of node n (`none`: no such node, no such tag)"""
        if not (isinstance(e, ast.Subscript) and isinstance(e.slice, ast.Constant) and e.slice.value == 1 and not isinstance(e.slice.value, bool)):
            return None
        d = e.value
        if not (isinstance(d, ast.Subscript) and isinstance(d.slice, ast.Constant) and isinstance(d.slice.value, str)):
            return None
        a = d.value
        if not (isinstance(a, ast.Attribute) and a.attr == "tags" and isinstance(a.value, ast.Subscript)):
            return None
        o, to = self.ex(a.value.value, env, binds)
        if to not in (W_GFA, W_NODES):
            raise Untranslatable("tag value %s" % ast.unparse(e))
        k, _ = self.ex(a.value.slice, env, binds, W_STRING)
        return self.bind("tagv %s %s" % (_lean_string(d.slice.value), k), binds), W_INT

    def _ex(self, e, env, binds, expect):
        u = ast.unparse(e)
        if isinstance(e, ast.Constant):
            return self._const(e, expect)
        if isinstance(e, ast.Name):
            if e.id == "self":
                return ("g" if self.self_type == W_GFA else "self"), self.self_type
            if e.id in env:
                return e.id, env[e.id]
            raise Untranslatable("name %s" % e.id)
        if isinstance(e, ast.JoinedStr):
            parts = []
            for p in e.values:
                if isinstance(p, ast.Constant) and isinstance(p.value, str):
                    parts.append(_chars(p.value))
                elif isinstance(p, ast.FormattedValue) and p.conversion == -1 and p.format_spec is None:
                    t, ty = self.ex(p.value, env, binds)
                    if ty == W_STRING:
                        parts.append("%s.toList" % t)
                    elif ty == W_STR:
                        parts.append(t)
                    elif ty == W_NAT:
                        parts.append("strNat %s" % t)
                    else:
                        raise Untranslatable("f-string prints %s" % ast.unparse(p.value))
                else:
                    raise Untranslatable("f-string %s" % u)
            return "(" + " ++ ".join(parts or ["[]"]) + ")", W_STR
        tv = self._tag_value(e, env, binds)
        if tv is not None:
            return tv
        if isinstance(e, ast.Attribute):
            o, to = self.ex(e.value, env, binds)
            if to == W_GFA and e.attr == "nodes":
                return o, W_NODES
            if to == W_GFA and e.attr == "edge_tags":
                return o, W_ETAGS
            if to == W_NODE:
                if e.attr == "start":
                    return "%s.startAdj" % o, ("List", W_ADJ)
                if e.attr == "end":
                    return "%s.endAdj" % o, ("List", W_ADJ)
                if e.attr in ("seq", "id"):
                    return "%s.%s" % (o, e.attr), W_STRING
                if e.attr == "tags":
                    return o, W_NTAGS
            raise Untranslatable("attribute %s" % u)
        if isinstance(e, ast.Subscript):
            o, ty = self.ex(e.value, env, binds)
            sl = e.slice
            if ty == W_NODES:
                k, _ = self.ex(sl, env, binds, W_STRING)
                return self.bind("%s.find %s" % (o, k), binds), W_NODE
            if ty == W_ETAGS:
                k, _ = self.ex(sl, env, binds, W_EKEY)
                return self.bind("edgeTagsPy %s %s" % (o, k), binds), ("List", W_PYV)
            if isinstance(ty, tuple) and ty[0] == "Tup":
                if isinstance(sl, ast.Constant) and isinstance(sl.value, int) and not isinstance(sl.value, bool) and 0 <= sl.value < len(ty[1]):
                    return _tup_proj(o, sl.value, len(ty[1])), ty[1][sl.value]
                raise Untranslatable("index of a tuple: %s" % u)
            if isinstance(ty, tuple) and ty[0] == "List":
                if isinstance(sl, ast.Constant) and isinstance(sl.value, int) and not isinstance(sl.value, bool) and sl.value >= 0:
                    return self.bind("%s[%d]?" % (o, sl.value), binds), ty[1]
                raise Untranslatable("subscript %s" % u)
            if isinstance(ty, tuple) and ty[0] == "Dict":
                k, _ = self.ex(sl, env, binds, ty[1])
                return self.bind("dictGet %s %s" % (o, k), binds), ty[2]
            raise Untranslatable("subscript %s" % u)
        if isinstance(e, ast.Tuple):
            if isinstance(expect, tuple) and expect[0] == "Tup" and len(expect[1]) == len(e.elts):
                xs = [self.ex(x, env, binds, ty)[0] for x, ty in zip(e.elts, expect[1])]
                return "(%s)" % ", ".join(xs), expect
            raise Untranslatable("tuple %s where %s is expected" % (u, expect))
        if isinstance(e, ast.List):
            if isinstance(expect, tuple) and expect[0] == "List":
                xs = [self.ex(x, env, binds, expect[1])[0] for x in e.elts]
                return "[%s]" % ", ".join(xs), expect
            raise Untranslatable("list display %s where %s is expected" % (u, expect))
        if isinstance(e, ast.BinOp) and isinstance(e.op, ast.Add):
            if isinstance(expect, tuple) and expect[0] == "List":
                a, _ = self.ex(e.left, env, binds, expect)
                b, _ = self.ex(e.right, env, binds, expect)
                return "(%s ++ %s)" % (a, b), expect
            a, ta = self.ex(e.left, env, binds)
            if ta == W_STR:
                b, _ = self.ex(e.right, env, binds, W_STR)
                return "(%s ++ %s)" % (a, b), W_STR
            if isinstance(ta, tuple) and ta[0] == "List":
                b, _ = self.ex(e.right, env, binds, ta)
                return "(%s ++ %s)" % (a, b), ta
            raise Untranslatable("sum %s" % u)
        if isinstance(e, ast.BoolOp):
            parts = []
            for i, x in enumerate(e.values):
                n = len(binds)
                parts.append(self.cond(x, env, binds))
                if i > 0 and len(binds) > n:
                    raise Untranslatable("an operand of %s that can raise is evaluated conditionally" % u)
            return "(" + (" && " if isinstance(e.op, ast.And) else " || ").join(parts) + ")", W_BOOL
        if isinstance(e, ast.UnaryOp) and isinstance(e.op, ast.Not):
            return "(!%s)" % self.cond(e.operand, env, binds), W_BOOL
        if isinstance(e, ast.Compare) and len(e.ops) == 1:
            l, r, op = e.left, e.comparators[0], type(e.ops[0])
            if op in (ast.In, ast.NotIn):
                a, ta = self.ex(l, env, binds)             # Python evaluates the left operand first
                b, tb = self.ex(r, env, binds)
                if tb == W_NODES:
                    c = "(%s.has %s)" % (b, self.coerce(a, ta, W_STRING))
                elif isinstance(tb, tuple) and tb[0] == "List" and tb[1] in (W_STRING, W_INT):
                    c = "(%s.contains %s)" % (b, self.coerce(a, ta, tb[1]))
                elif isinstance(tb, tuple) and tb[0] == "Dict":
                    c = "(dictHas %s %s)" % (b, self.coerce(a, ta, tb[1]))
                else:
                    raise Untranslatable("membership in %s" % ast.unparse(r))
                return (c if op is ast.In else "(!%s)" % c), W_BOOL
            if op in (ast.Is, ast.IsNot) and isinstance(r, ast.Constant):
                a, ta = self.ex(l, env, binds)
                if r.value is None and isinstance(ta, tuple) and ta[0] == "Opt":
                    return ("%s.isNone" if op is ast.Is else "%s.isSome") % a, W_BOOL
                if isinstance(r.value, bool) and ta == W_BOOL:
                    return "(%s %s %s)" % (a, "==" if op is ast.Is else "!=", "true" if r.value else "false"), W_BOOL
                raise Untranslatable("test %s" % u)
            if op in (ast.Eq, ast.NotEq):
                a, ty = self.ex(l, env, binds)
                b, _ = self.ex(r, env, binds, ty)
                if ty not in (W_STR, W_STRING, W_INT, W_NAT, W_BOOL, W_SIDE, W_PYV):
                    raise Untranslatable("comparison %s" % u)
                return "(%s %s %s)" % (a, "==" if op is ast.Eq else "!=", b), W_BOOL
            raise Untranslatable("comparison %s" % u)
        if isinstance(e, ast.Call):
            return self._call(e, env, binds, expect)
        raise Untranslatable("expression %s" % u)

    def _call(self, e, env, binds, expect):
        u = ast.unparse(e)
        f = ast.unparse(e.func)
        if f == "sorted" and len(e.args) == 1:
            l, tl = self.ex(e.args[0], env, binds)
            if not (isinstance(tl, tuple) and tl[0] == "List"):
                raise Untranslatable("sorted of %s" % ast.unparse(e.args[0]))
            if not e.keywords:
                if tl[1] != W_INT:
                    raise Untranslatable("sorted of %s" % (tl,))
                return "(pySorted %s)" % l, tl
            if len(e.keywords) == 1 and e.keywords[0].arg == "key" and isinstance(e.keywords[0].value, ast.Lambda):
                lam = e.keywords[0].value
                if len(lam.args.args) != 1 or lam.args.defaults or lam.args.vararg or lam.args.kwarg or lam.args.kwonlyargs:
                    raise Untranslatable("sort key %s" % ast.unparse(lam))
                x = lam.args.args[0].arg
                if x in _WG_RESERVED or x in env:
                    raise Untranslatable("variable name %s" % x)
                env2 = dict(env)
                env2[x] = tl[1]
                kb = []
                kt, _ = self.ex(lam.body, env2, kb, W_INT)
                keys = self.bind("%s.mapM (fun %s => %s)" % (l, x, self.opt_term(kb, kt)), binds)
                return "(sortedBy %s %s)" % (keys, l), tl
            raise Untranslatable("call %s" % u)
        if e.keywords:
            raise Untranslatable("call %s" % u)
        if f == "str" and len(e.args) == 1:
            a, ta = self.ex(e.args[0], env, binds)
            if ta == W_STRING:
                return "%s.toList" % a, W_STR
            if ta == W_NAT:
                return "(strNat %s)" % a, W_STR
            if ta == W_STR:
                return a, W_STR
            raise Untranslatable("str of %s" % ast.unparse(e.args[0]))
        if f == "int" and len(e.args) == 1:
            a, ta = self.ex(e.args[0], env, binds)
            if ta == W_INT:
                return a, W_INT
            raise Untranslatable("int of %s" % ast.unparse(e.args[0]))
        if f == "dict" and not e.args:
            if isinstance(expect, tuple) and expect[0] == "Dict":
                return "[]", expect
            raise Untranslatable("dict() where %s is expected" % (expect,))
        if f == "open" and len(e.args) == 2 and self.out_name and ast.unparse(e.args[0]) == self.out_name \
                and isinstance(e.args[1], ast.Constant) and isinstance(e.args[1].value, str):
            mode = e.args[1].value
            if mode in ("w", "w+"):
                return "[]", W_STR                       # the file is truncated
            if mode in ("a", "a+"):
                return "(old.getD [])", W_STR            # what the file holds (nothing when it does not exist)
            raise Untranslatable("open mode %r" % mode)
        if f == "os.path.exists" and len(e.args) == 1 and self.out_name and ast.unparse(e.args[0]) == self.out_name:
            return "old.isSome", W_BOOL
        if isinstance(e.func, ast.Attribute):
            m = e.func.attr
            if m == "join" and isinstance(e.func.value, ast.Constant) and isinstance(e.func.value.value, str) and len(e.args) == 1:
                l, _ = self.ex(e.args[0], env, binds, ("List", W_PYV))
                return self.bind("pyJoin %s %s" % (_chars(e.func.value.value), l), binds), W_STR
            o, to = self.ex(e.func.value, env, binds)
            if m == "keys" and to == W_NODES and not e.args:
                return "(%s.nodes.map (·.id))" % o, ("List", W_STRING)
            if m == "items" and not e.args:
                if to == W_NTAGS:
                    return "(tagItems %s)" % o, ("List", W_TAGITEM)
                if isinstance(to, tuple) and to[0] == "Dict":
                    return o, ("List", ("Tup", (to[1], to[2])))
            owner = {W_GFA: "GFA", W_NODE: "Node"}.get(to)
            if owner and (owner, m) in self.methods:
                lean, ptypes, defaults, rty = self.methods[(owner, m)]
                if len(e.args) > len(ptypes):
                    raise Untranslatable("call %s" % u)
                xs = [self.ex(a, env, binds, ty)[0] for a, ty in zip(e.args, ptypes)]
                for i in range(len(e.args), len(ptypes)):
                    if defaults[i] is None:
                        raise Untranslatable("call %s: missing argument" % u)
                    xs.append(defaults[i])
                head = lean + " " + (self.ctx_args() if to == W_GFA else o)
                return self.bind(" ".join([head] + xs), binds), rty
        raise Untranslatable("call %s" % u)

    def cond(self, e, env, binds):
        """truth value of an expression"""
        if isinstance(e, (ast.Compare, ast.BoolOp)) or (isinstance(e, ast.UnaryOp) and isinstance(e.op, ast.Not)):
            return self.ex(e, env, binds, W_BOOL)[0]
        t, ty = self.ex(e, env, binds)
        if ty == W_BOOL:
            return t
        if isinstance(ty, tuple) and ty[0] in ("List", "Dict"):
            return "(!%s.isEmpty)" % t
        raise Untranslatable("truth value of %s" % ast.unparse(e))

    @staticmethod
    def opt_term(binds, value):
        """one-line term of type Option: the bindings, then `some value`"""
        if len(binds) == 1 and binds[0][0] == value:
            return "(%s)" % binds[0][1]
        t = "some %s" % value
        for v, b in reversed(binds):
            t = "match %s with | none => none | some %s => (%s)" % (b, v, t)
        return "(%s)" % t

    @staticmethod
    def wrap(binds, pad, inner):
        out = []
        for v, t in binds:
            out.append("%smatch %s with\n%s| none => none\n%s| some %s =>" % (pad, t, pad, pad, v))
        return "\n".join(out + [inner(pad)])

    # ---- statements
    @staticmethod
    def skip(st):
        """statements without an effect on the result: doc strings, `pass`, logging, `f.close()`"""
        if isinstance(st, ast.Pass) or (isinstance(st, ast.Expr) and isinstance(st.value, ast.Constant)):
            return True
        if isinstance(st, ast.Expr) and isinstance(st.value, ast.Call):
            f = ast.unparse(st.value.func)
            if f in ("logging.warning", "logging.info", "logging.debug", "logging.error", "logger.warning", "logger.info", "logger.debug"):
                return True
            if f.endswith(".close") and not st.value.args:
                return True
        return False

    def target_name(self, t):
        if isinstance(t, ast.Name):
            return t.id
        if isinstance(t, ast.Subscript) and isinstance(t.value, ast.Name):
            return t.value.id
        raise Untranslatable("assignment target %s" % ast.unparse(t))

    def assigned(self, stmts):
        out = []

        def add(n):
            if n not in out:
                out.append(n)
        for st in stmts:
            if self.skip(st) or isinstance(st, ast.Continue):
                continue
            if isinstance(st, ast.Assign):
                for t in st.targets:
                    add(self.target_name(t))
            elif isinstance(st, ast.Expr) and isinstance(st.value, ast.Call) and isinstance(st.value.func, ast.Attribute) \
                    and st.value.func.attr in ("append", "write"):
                add(self.target_name(st.value.func.value))
            elif isinstance(st, ast.If):
                for n in self.assigned(st.body) + self.assigned(st.orelse):
                    add(n)
            elif isinstance(st, ast.Try):
                for n in self.assigned(st.body) + [x for h in st.handlers for x in self.assigned(h.body)]:
                    add(n)
            elif isinstance(st, ast.For):
                inner = [t.id for t in ([st.target] if isinstance(st.target, ast.Name) else getattr(st.target, "elts", [])) if isinstance(t, ast.Name)]
                for n in self.assigned(st.body):
                    if n not in inner:
                        add(n)
            else:
                raise Untranslatable("statement %s" % ast.unparse(st)[:70])
        return out

    def check_name(self, name):
        if name in _WG_RESERVED or name.startswith("_") or re.fullmatch(r"v\d+", name) or not re.fullmatch(r"[A-Za-z][A-Za-z0-9_]*", name):
            raise Untranslatable("variable name %s" % name)

    def single_assign(self, st, env):
        """the variable when `st` is an `if` all of whose branches are one assignment to the same variable (a missing branch keeps it)"""
        def leaves(s):
            if isinstance(s, ast.If):
                b = [x for x in s.body if not self.skip(x)]
                o = [x for x in s.orelse if not self.skip(x)]
                if len(b) != 1 or len(o) > 1:
                    return None
                lb = leaves(b[0])
                lo = leaves(o[0]) if o else {None}
                if lb is None or lo is None:
                    return None
                return lb | lo
            if isinstance(s, ast.Assign) and len(s.targets) == 1 and isinstance(s.targets[0], ast.Name):
                return {s.targets[0].id}
            return None
        ls = leaves(st)
        if ls is None:
            return None
        names = ls - {None}
        if len(names) != 1:
            return None
        name = next(iter(names))
        if None in ls and name not in env:
            return None
        return name

    def ite_value(self, s, name, ty, env, tb):
        """("pure", term) or ("opt", term of type Option) for the value `name` has after `s`; only the outermost test may bind (`tb`:
        it is evaluated in any case)"""
        if isinstance(s, ast.Assign):
            b = []
            v, _ = self.ex(s.value, env, b, ty)
            return ("pure", v) if not b else ("opt", self.opt_term(b, v))
        body = [x for x in s.body if not self.skip(x)]
        orelse = [x for x in s.orelse if not self.skip(x)]
        if tb is None:
            tb2 = []
            c = self.cond(s.test, env, tb2)
            if tb2:
                raise _NotSimple()
        else:
            c = self.cond(s.test, env, tb)
        a = self.ite_value(body[0], name, ty, env, None)
        b = self.ite_value(orelse[0], name, ty, env, None) if orelse else ("pure", name)
        if a[0] == "pure" and b[0] == "pure":
            return ("pure", "(if %s then %s else %s)" % (c, a[1], b[1]))
        return ("opt", "(if %s then %s else %s)" % (c, a[1] if a[0] == "opt" else "(some %s)" % a[1], b[1] if b[0] == "opt" else "(some %s)" % b[1]))

    def blk(self, stmts, env, ind, fall, decl):
        """stmts -> Lean text of type `Option _`; `fall(env, ind)` = text for leaving the block (end of the body / `continue`)"""
        pad = " " * ind
        if not stmts:
            return fall(env, ind)
        st, rest = stmts[0], stmts[1:]
        u = ast.unparse(st)
        if self.skip(st):
            return self.blk(rest, env, ind, fall, decl)
        if isinstance(st, ast.Continue):
            return fall(env, ind)
        binds = []

        def let(name, ty, term):
            self.check_name(name)
            if name in env and env[name] != ty:
                raise Untranslatable("%s changes its type" % name)
            env2 = dict(env)
            env2[name] = ty
            return self.wrap(binds, pad, lambda p: "%slet %s : %s := %s\n%s" % (p, name, _wt(ty), term, self.blk(rest, env2, ind, fall, decl)))
        if isinstance(st, ast.Return):
            if self.ret_type is None or st.value is None:
                raise Untranslatable("return in %s" % self.fname)
            v, _ = self.ex(st.value, env, binds, self.ret_type)
            return self.wrap(binds, pad, lambda p: "%ssome %s" % (p, v))
        if isinstance(st, ast.Assign) and len(st.targets) == 1:
            t = st.targets[0]
            name = self.target_name(t)
            if isinstance(t, ast.Subscript):
                ty = env.get(name)
                if not (isinstance(ty, tuple) and ty[0] == "Dict"):
                    raise Untranslatable("assignment %s" % u)
                v, _ = self.ex(st.value, env, binds, ty[2])          # the value is evaluated before the key
                k, _ = self.ex(t.slice, env, binds, ty[1])
                return let(name, ty, "dictSet %s %s %s" % (name, k, v))
            ty = decl.get(name, env.get(name))
            v, tv = self.ex(st.value, env, binds, ty)
            return let(name, tv, v)
        if isinstance(st, ast.Expr) and isinstance(st.value, ast.Call) and isinstance(st.value.func, ast.Attribute) \
                and len(st.value.args) == 1 and not st.value.keywords:
            m, recv = st.value.func.attr, st.value.func.value
            if m == "append" and isinstance(recv, ast.Name):
                ty = env.get(recv.id)
                if not (isinstance(ty, tuple) and ty[0] == "List"):
                    raise Untranslatable("append to %s" % recv.id)
                v, _ = self.ex(st.value.args[0], env, binds, ty[1])
                return let(recv.id, ty, "(%s ++ [%s])" % (recv.id, v))
            if m == "append" and isinstance(recv, ast.Subscript) and isinstance(recv.value, ast.Name):
                name = recv.value.id
                ty = env.get(name)
                if not (isinstance(ty, tuple) and ty[0] == "Dict" and isinstance(ty[2], tuple) and ty[2][0] == "List"):
                    raise Untranslatable("statement %s" % u[:70])
                cur, _ = self.ex(recv, env, binds)                    # d[k]: KeyError when absent
                k, _ = self.ex(recv.slice, env, binds, ty[1])
                v, _ = self.ex(st.value.args[0], env, binds, ty[2][1])
                return let(name, ty, "dictSet %s %s (%s ++ [%s])" % (name, k, cur, v))
            if m == "write" and isinstance(recv, ast.Name) and env.get(recv.id) == W_STR and decl.get(recv.id) == W_STR and recv.id == self.file_var:
                v, _ = self.ex(st.value.args[0], env, binds, W_STR)
                return let(recv.id, W_STR, "(%s ++ %s)" % (recv.id, v))
        if isinstance(st, ast.Try):
            # try: x = D[k]  except KeyError: x = E
            if (len(st.body) == 1 and isinstance(st.body[0], ast.Assign) and len(st.body[0].targets) == 1 and isinstance(st.body[0].targets[0], ast.Name)
                    and isinstance(st.body[0].value, ast.Subscript) and len(st.handlers) == 1 and not st.orelse and not st.finalbody
                    and isinstance(st.handlers[0].type, ast.Name) and st.handlers[0].type.id == "KeyError"
                    and len(st.handlers[0].body) == 1 and isinstance(st.handlers[0].body[0], ast.Assign)
                    and len(st.handlers[0].body[0].targets) == 1 and ast.unparse(st.handlers[0].body[0].targets[0]) == st.body[0].targets[0].id):
                name = st.body[0].targets[0].id
                ty = decl.get(name, env.get(name))
                tb = []
                v, tv = self.ex(st.body[0].value, env, tb, ty)
                if len(tb) != 1 or tb[0][0] != v or not (tb[0][1].startswith("edgeTagsPy ") or tb[0][1].startswith("dictGet ")):
                    raise Untranslatable("try body %s" % ast.unparse(st.body[0]))
                hb = []
                h, _ = self.ex(st.handlers[0].body[0].value, env, hb, tv)
                if hb:
                    raise Untranslatable("except body %s" % ast.unparse(st.handlers[0].body[0]))
                return let(name, tv, "(match %s with | some %s => %s | none => %s)" % (tb[0][1], v, v, h))
            raise Untranslatable("statement %s" % u[:70])
        if isinstance(st, ast.If):
            t = st.test
            # `if X is None: X = E` for an optional parameter
            if (isinstance(t, ast.Compare) and len(t.ops) == 1 and isinstance(t.ops[0], ast.Is) and isinstance(t.left, ast.Name)
                    and isinstance(t.comparators[0], ast.Constant) and t.comparators[0].value is None
                    and isinstance(env.get(t.left.id), tuple) and env[t.left.id][0] == "Opt"):
                name = t.left.id
                body = [x for x in st.body if not self.skip(x)]
                if not (len(body) == 1 and not st.orelse and isinstance(body[0], ast.Assign) and ast.unparse(body[0].targets[0]) == name):
                    raise Untranslatable("statement %s" % u[:70])
                ty = env[name][1]
                v, _ = self.ex(body[0].value, env, binds, ty)
                if binds:
                    raise Untranslatable("default of %s can raise" % name)
                env2 = dict(env)
                env2[name] = ty
                w = self.fresh()
                return "%slet %s : %s := (match %s with | none => %s | some %s => %s)\n%s" % (
                    pad, name, _wt(ty), name, v, w, w, self.blk(rest, env2, ind, fall, decl))
            name = self.single_assign(st, env)
            if name is not None:
                ty = decl.get(name, env.get(name))
                if ty is not None:
                    try:
                        k0 = self.k
                        kind, v = self.ite_value(st, name, ty, env, binds)
                        if kind == "opt":
                            self.check_name(name)
                            if name in env and env[name] != ty:
                                raise Untranslatable("%s changes its type" % name)
                            env2 = dict(env)
                            env2[name] = ty
                            return self.wrap(binds, pad, lambda p: "%smatch %s with\n%s| none => none\n%s| some %s =>\n%s" % (
                                p, v, p, p, name, self.blk(rest, env2, ind, fall, decl)))
                        return let(name, ty, v)
                    except _NotSimple:
                        self.k = k0
                        binds = []
            if isinstance(t, ast.BoolOp):
                later = []
                for x in t.values[1:]:
                    self.cond(x, env, later)
                if later:
                    raise Untranslatable("an operand of `%s` that can raise is evaluated conditionally" % ast.unparse(t))
            c = self.cond(t, env, binds)
            return self.wrap(binds, pad, lambda p: "%sif %s then\n%s\n%selse\n%s" % (
                p, c, self.blk(st.body + rest, env, ind + 2, fall, decl), p, self.blk(st.orelse + rest, env, ind + 2, fall, decl)))
        if isinstance(st, ast.For):
            return self.loop(st, rest, env, ind, fall, decl)
        raise Untranslatable("statement %s" % u[:70])

    def loop(self, st, rest, env, ind, fall, decl):
        pad = " " * ind
        if st.orelse:
            raise Untranslatable("loop %s" % ast.unparse(st)[:60])
        self.nloops += 1
        fname = "%sFor%d" % (self.lean_name, self.nloops)
        binds = []
        iter_term, ity = self.ex(st.iter, env, binds)
        if not (isinstance(ity, tuple) and ity[0] == "List"):
            raise Untranslatable("loop over %s" % ast.unparse(st.iter))
        vty = ity[1]
        if isinstance(st.target, ast.Name):
            targets = [(st.target.id, vty, "it")]
        elif isinstance(st.target, ast.Tuple) and all(isinstance(x, ast.Name) for x in st.target.elts) \
                and isinstance(vty, tuple) and vty[0] == "Tup" and len(vty[1]) == len(st.target.elts):
            targets = [(x.id, vty[1][i], _tup_proj("it", i, len(vty[1]))) for i, x in enumerate(st.target.elts)]
        else:
            raise Untranslatable("loop target %s" % ast.unparse(st.target))
        tnames = [t[0] for t in targets]
        for n in tnames:
            self.check_name(n)
        carried = [v for v in self.assigned(st.body) if v in env and v not in tnames]
        if not carried:
            raise Untranslatable("loop %s assigns nothing" % fname)
        if any(v in tnames for v in self.assigned(st.body)):
            raise Untranslatable("the loop variable is assigned in %s" % fname)
        # a loop over the items of a dict may only replace the value of the current key
        if isinstance(st.iter, ast.Call) and isinstance(st.iter.func, ast.Attribute) and st.iter.func.attr == "items" \
                and isinstance(st.iter.func.value, ast.Name) and st.iter.func.value.id in carried:
            dname = st.iter.func.value.id
            for n in ast.walk(ast.Module(body=st.body, type_ignores=[])):
                if isinstance(n, ast.Name) and n.id == tnames[1]:
                    raise Untranslatable("the value of an item of %s is used while %s is assigned" % (dname, dname))
                if isinstance(n, ast.Subscript) and isinstance(n.value, ast.Name) and n.value.id == dname and isinstance(n.ctx, (ast.Store, ast.Del)) \
                        and ast.unparse(n.slice) != tnames[0]:
                    raise Untranslatable("%s changes its keys while its items are visited" % dname)
                if isinstance(n, ast.For) and n is not st:
                    raise Untranslatable("nested loop while the items of %s are visited" % dname)
        free = []
        for n in ast.walk(ast.Module(body=st.body, type_ignores=[])):
            if isinstance(n, ast.Name) and n.id in env and n.id not in carried and n.id not in tnames and n.id not in free:
                free.append(n.id)
        free.sort(key=lambda v: list(env).index(v))

        def proj(i):
            return "st" if len(carried) == 1 else _tup_proj("st", i, len(carried))

        def pack(e, ind2):
            for v in carried:
                if e.get(v) != env[v]:
                    raise Untranslatable("%s changes its type in the loop" % v)
            return " " * ind2 + "some " + (carried[0] if len(carried) == 1 else "(" + ", ".join(carried) + ")")
        benv = {v: env[v] for v in free + carried}
        for n, ty, _ in targets:
            benv[n] = ty
        body = self.blk(st.body, benv, 2, pack, decl)
        sty = " × ".join(_wt_atom(env[v]) for v in carried)
        self.defs.append((fname, "def %s %s%s(st : %s) (it : %s) : Option (%s) :=\n%s\n%s\n%s" % (
            fname, self.ctx_params(), "".join("(%s : %s) " % (v, _wt(env[v])) for v in free), sty, _wt(vty), sty,
            "\n".join("  let %s : %s := %s" % (v, _wt(env[v]), proj(i)) for i, v in enumerate(carried)),
            "\n".join("  let %s : %s := %s" % (n, _wt(ty), p) for n, ty, p in targets), body)))
        pat = carried[0] if len(carried) == 1 else "(" + ", ".join(carried) + ")"
        env2 = {k: v for k, v in env.items() if k not in tnames}
        call = " ".join([fname] + [v for v, _ in self.ctx] + free)
        return self.wrap(binds, pad, lambda p: "%smatch %s.foldlM (%s) %s with\n%s| none => none\n%s| some %s =>\n%s" % (
            p, iter_term, call, pat, p, p, pat, self.blk(rest, env2, ind, fall, decl)))

    def function(self, fn, env, decl, ret_type, file_var=None, final=None):
        self.ret_type = ret_type
        self.file_var = file_var

        def fall(e, ind):
            if final is None:
                raise Untranslatable("%s can end without a return" % self.fname)
            return final(e, ind)
        return self.blk(fn.body, env, 2, fall, decl)


class _NotSimple(Exception):
    pass


def _wg_params(fn, want):
    args = [a.arg for a in fn.args.args]
    if args != want or fn.args.vararg or fn.args.kwarg or fn.args.kwonlyargs or fn.args.posonlyargs:
        raise Untranslatable("%s signature %s" % (fn.name, args))
    d = [None] * (len(args) - len(fn.args.defaults)) + list(fn.args.defaults)
    return d


def _wg_final(env, ind):
    """write_gfa returns nothing: the result is what the file holds"""
    if env.get("f") != W_STR:
        raise Untranslatable("write_gfa: no file was opened")
    return " " * ind + "some f"


def gen_write_gfa():
    try:
        return _gen_write_gfa()
    except (Untranslatable, SyntaxError, OSError, KeyError, IndexError):
        raise
    except Exception as e:  # a shape the translator did not foresee is never an alarm
        raise Untranslatable("translator: %s: %s" % (type(e).__name__, e))


def _gen_write_gfa():
    _, src = src_of("gaftools/gfa.py")
    mod = ast.parse(src)
    # `self[n]` must be `self.nodes[n]` (None instead of KeyError: the attribute access that follows raises in both cases)
    gi = find_func(mod, "__getitem__", cls="GFA")
    gib = [ast.unparse(x) for x in gi.body if not (isinstance(x, ast.Expr) and isinstance(x.value, ast.Constant))]
    key = gi.args.args[1].arg if len(gi.args.args) == 2 else "?"
    if gib != ["try:\n    return self.nodes[%s]\nexcept KeyError:\n    return None" % key]:
        raise Untranslatable("GFA.__getitem__ is not the lookup in self.nodes")
    # ---- Node.to_gfa_line
    tg = find_func(mod, "to_gfa_line", cls="Node")
    d = _wg_params(tg, ["self", "with_seq"])
    if not (isinstance(d[1], ast.Constant) and isinstance(d[1].value, bool)):
        raise Untranslatable("default of with_seq")
    with_seq_default = "true" if d[1].value else "false"
    methods = {("Node", "to_gfa_line"): ("toGfaLine", [W_BOOL], [with_seq_default], W_STR)}
    t1 = _WgTr(mod, "to_gfa_line", "toGfaLine", [("self", "Node")], W_NODE, {})
    b1 = t1.function(tg, {"with_seq": W_BOOL}, {"seq": W_STR, "tags": ("List", W_STR)}, W_STR)
    # ---- GFA.sort_bo_no
    ctx = [("g", "Graph"), ("tagv", "String → String → Option Int")]
    sb = find_func(mod, "sort_bo_no", cls="GFA")
    _wg_params(sb, ["self", "set_of_nodes"])
    methods[("GFA", "sort_bo_no")] = ("sortBoNo", [("List", W_STRING)], [None], ("List", W_STRING))
    t2 = _WgTr(mod, "sort_bo_no", "sortBoNo", ctx, W_GFA, {})
    b2 = t2.function(sb, {"set_of_nodes": ("List", W_STRING)},
                     {"separate_bubbles": ("Dict", W_INT, ("List", W_STRING)), "bo_ids": ("List", W_INT), "sorted_set_of_nodes": ("List", W_STRING)},
                     ("List", W_STRING))
    # ---- GFA.write_gfa
    wg = find_func(mod, "write_gfa", cls="GFA")
    d = _wg_params(wg, ["self", "set_of_nodes", "output_file", "append", "order_bo"])
    if [ast.unparse(x) if x is not None else None for x in d[1:]] != ["None", ast.unparse(d[2]) if d[2] is not None else None, "False", "False"]:
        raise Untranslatable("defaults of write_gfa")
    t3 = _WgTr(mod, "write_gfa", "writeGfa", ctx, W_GFA, methods, out_name="output_file")
    b3 = t3.function(wg, {"set_of_nodes": ("Opt", ("List", W_STRING)), "append": W_BOOL, "order_bo": W_BOOL},
                     {"f": W_STR, "edges": ("List", W_STR), "tags": ("List", W_PYV), "overlap": W_STR, "edge": W_STR, "line": W_STR,
                      "sorted_set_of_nodes": ("List", W_STRING)},
                     None, file_var="f", final=_wg_final)
    head = ("generated by harness/translate.py from gaftools/gfa.py : Node.to_gfa_line, GFA.sort_bo_no, GFA.write_gfa, statement by statement\n"
            "    (`none` = the Python raises; `g` = the graph object: `self.nodes` / `self.edge_tags`, sets in the enumeration of the model;\n"
            "    `tagv K n` = the integer `self.nodes[n].tags[K][1]` as `order_gfa` stores it; `old` = the content of `output_file` before the\n"
            "    call, `none` when it does not exist; the result of `writeGfa` = its content afterwards) — do not edit")
    return (WRITE_GFA_PRELUDE % head
            + "".join(dd + "\n\n" for _, dd in t1.defs)
            + "/-- `Node.to_gfa_line(with_seq)` -/\ndef toGfaLine (self : Node) (with_seq : Bool) : Option Str :=\n" + b1 + "\n\n"
            + "".join(dd + "\n\n" for _, dd in t2.defs)
            + "/-- `GFA.sort_bo_no(set_of_nodes)` -/\ndef sortBoNo %s(set_of_nodes : List String) : Option (List String) :=\n" % t2.ctx_params() + b2 + "\n\n"
            + "".join(dd + "\n\n" for _, dd in t3.defs)
            + "/-- `GFA.write_gfa(set_of_nodes, output_file, append, order_bo)` -/\n"
            + "def writeGfa %s(set_of_nodes : Option (List String)) (old : Option Str) (append order_bo : Bool) : Option Str :=\n" % t3.ctx_params()
            + b3 + "\nend Gaftools.Gen.WriteGfa\n")


GENERATORS["WriteGfa"] = gen_write_gfa


# ---------------------------------------------------------------------------------------------------------
# gfa.Node.__init__, GFA.__init__, GFA.add_node, GFA.remove_node, GFA.read_graph: every statement, in source order, as a
# state-passing Lean function on the token level of Model/Gfa.lean (C07, C14, C15; the contig tables of C15Extra / GfaText).
# `add_edge` / `remove_edge` are Gen/Edges.lean (called through `Gfa.addEdge` / `Gfa.removeEdge`, not re-translated).

_GM_RESERVED = {"σ", "err", "nd", "st", "lines", "fun", "let", "if", "then", "else", "match", "with", "at", "from", "have", "show", "do", "end",
                "open", "in", "def", "by", "where", "structure", "instance", "theorem", "Type", "Prop", "true", "false", "some", "none",
                "forE", "nodesSet", "nodeMod", "nodesDel", "tagsHas", "tagsGet", "tagOk", "ctgGet", "ctgSet", "c2nAppend", "callAddEdge",
                "newNode", "addNode", "removeNode", "readGraph", "initSt", "load", "decide", "pyInt", "removeEdge", "addEdge", "tagSet",
                "Tag", "Node", "Graph", "St", "Exc", "TLine", "ETags", "Adj"}

_GM_LEAN = {"String": "String", "Nat": "Nat", "Int": "Int", "Bool": "Bool", "Side": "Bool", "Orient": "Bool", "TagList": "List Tag",
            "TagTok": "Tag", "TagParts": "Tag", "TagVal": "Tag", "Node": "Node", "TagDict": "List Tag", "Adj": "Adj", "AdjList": "List Adj",
            "TLine": "TLine", "TLineS": "TLine", "TLineL": "TLine", "FieldsS": "SegLine", "FieldsL": "LinkLine", "LHead": "LinkLine",
            "LHeadInt": "LinkLine", "ETags": "ETags", "OptInt": "Option Int", "OvRaw": "LinkLine", "OvDigits": "LinkLine"}

# the slots of `Node`: those the model's `Node` stores (Lean field, type) and those it derives (`seq_len` is `seq.length`,
# `visited` lives in the search state of Model/Algo.lean)
_GM_NODE_FIELDS = {"id": ("id", "String"), "seq": ("seq", "String"), "start": ("startAdj", "AdjList"), "end": ("endAdj", "AdjList"),
                   "tags": ("tags", "TagDict")}
_GM_NODE_GHOST = {"seq_len": "Nat", "visited": "Bool"}
_GM_EXC = {"ValueError": "valueError", "AssertionError": "assertionError", "KeyError": "keyError", "AttributeError": "attributeError"}


def _gm_lt(t):
    if isinstance(t, tuple) and t[0] == "List":
        s = _gm_lt(t[1])
        return "List %s" % (s if " " not in s else "(%s)" % s)
    if t in _GM_LEAN:
        return _GM_LEAN[t]
    raise Untranslatable("type %s" % (t,))


def _gm_str(v):
    for c in v:
        if not (32 <= ord(c) < 127) and c not in "\t\n":
            raise Untranslatable("character %r in a string constant" % c)
    return '"%s"' % v.replace("\\", "\\\\").replace('"', '\\"').replace("\t", "\\t").replace("\n", "\\n")


def _gm_char(c):
    if len(c) != 1 or not (32 <= ord(c) < 127) or c in "'\\":
        raise Untranslatable("character constant %r" % c)
    return "'%s'" % c


def _gm_body(fn):
    return [st for st in fn.body if not (isinstance(st, ast.Expr) and isinstance(st.value, ast.Constant))]


def _gm_is_self(e, attr=None):
    """`self` (attr None) or `self.<attr>`"""
    if attr is None:
        return isinstance(e, ast.Name) and e.id == "self"
    return isinstance(e, ast.Attribute) and isinstance(e.value, ast.Name) and e.value.id == "self" and e.attr == attr


class _GM:
    """typed translation of the statements of one method of `GFA` into a Lean term of type `Except Exc _`.  `self` is the Lean
    variable `σ : St`, re-bound whenever the object is mutated; every Python variable is a Lean variable of the same name, re-bound
    by `let` on assignment; a sub-expression that can raise (`self[k].attr` on a missing key, `self.nodes[k]`, `d[k]`, `int(s)`)
    is bound by a `match … with | none => .error … | some v =>` in evaluation order."""

    def __init__(self, lname, params):
        self.lname = lname
        self.params = params            # python parameter -> type
        self.k = 0
        self.loops = 0
        self.defs = []
        self.ghost = {}                 # (variable, slot) -> lean term over the parameters
        self.files = set()              # variables that hold the opened file
        self.reassigned = set()

    # ---- helpers
    def fresh(self):
        self.k += 1
        return "v%d" % self.k

    def bind(self, term, exc, binds):
        for v, t, x in binds:
            if t == term and x == exc:
                return v
        v = self.fresh()
        binds.append((v, term, exc))
        return v

    @staticmethod
    def wrap(binds, pad, inner):
        out = []
        for v, t, x in binds:
            out.append("%smatch %s with\n%s| none => .error .%s\n%s| some %s =>" % (pad, t, pad, x, pad, v))
        return "\n".join(out + [inner])

    def check_name(self, n):
        if n in _GM_RESERVED or n.startswith("_") or re.fullmatch(r"v\d+", n) or not re.fullmatch(r"[A-Za-z][A-Za-z0-9_]*", n):
            raise Untranslatable("variable name %s" % n)
        return n

    def node_item(self, e, env, binds):
        """`self[K]` (GFA.__getitem__: None for an unknown key, so the attribute access that follows raises AttributeError) or
        `self.nodes[K]` (KeyError) -> (bound variable, lean term of K)"""
        if isinstance(e, ast.Subscript) and _gm_is_self(e.value):
            k, _ = self.ex(e.slice, env, binds, "String")
            return self.bind("σ.g.find %s" % k, "attributeError", binds), k
        if isinstance(e, ast.Subscript) and _gm_is_self(e.value, "nodes"):
            k, _ = self.ex(e.slice, env, binds, "String")
            return self.bind("σ.g.find %s" % k, "keyError", binds), k
        return None

    # ---- expressions
    def ex(self, e, env, binds, expect=None):
        t, ty = self._ex(e, env, binds, expect)
        if expect is not None and ty != expect:
            if expect == "OptInt" and ty == "Int":
                return "(some %s)" % t, expect
            raise Untranslatable("a value of type %s where %s is needed (%s)" % (ty, expect, ast.unparse(e)[:60]))
        return t, ty

    def _ex(self, e, env, binds, expect):
        u = ast.unparse(e)
        if isinstance(e, ast.Constant):
            v = e.value
            if isinstance(v, str):
                return _gm_str(v), "String"
            if isinstance(v, int) and not isinstance(v, bool):
                if expect == "Side":
                    if v in (0, 1):
                        return ("true" if v == 1 else "false"), "Side"
                    raise Untranslatable("side constant %d" % v)
                if expect == "Int":
                    return "(%d : Int)" % v, "Int"
                if v >= 0:
                    return str(v), "Nat"
            raise Untranslatable("constant %s" % u)
        if isinstance(e, ast.Name):
            if e.id in env:
                return e.id, env[e.id]
            raise Untranslatable("name %s" % e.id)
        if isinstance(e, ast.Attribute):
            ni = self.node_item(e.value, env, binds)
            if ni is not None:
                o, ty = ni[0], "Node"
            else:
                o, ty = self.ex(e.value, env, binds)
            if ty == "Node" and e.attr in _GM_NODE_FIELDS:
                return "%s.%s" % (o, _GM_NODE_FIELDS[e.attr][0]), _GM_NODE_FIELDS[e.attr][1]
            raise Untranslatable("attribute %s" % u)
        if isinstance(e, ast.Subscript):
            sl = e.slice
            if _gm_is_self(e.value, "contigs"):
                # a `defaultdict(lambda: None)` (checked in GFA.__init__): an absent key reads as None
                k, _ = self.ex(sl, env, binds, "String")
                return "(ctgGet σ.contigs %s)" % k, "OptInt"
            if _gm_is_self(e.value) or _gm_is_self(e.value, "nodes"):
                raise Untranslatable("a node object used as a value: %s" % u)
            o, ty = self.ex(e.value, env, binds)
            idx = sl.value if isinstance(sl, ast.Constant) and isinstance(sl.value, int) and not isinstance(sl.value, bool) else None

            def bounds(s):
                def c(x):
                    if x is None:
                        return None
                    if isinstance(x, ast.Constant) and isinstance(x.value, int):
                        return x.value
                    if isinstance(x, ast.UnaryOp) and isinstance(x.op, ast.USub) and isinstance(x.operand, ast.Constant):
                        return -x.operand.value
                    raise Untranslatable("slice %s" % u)
                if s.step is not None:
                    raise Untranslatable("slice %s" % u)
                return c(s.lower), c(s.upper)
            if ty == "TagDict":
                k, _ = self.ex(sl, env, binds, "String")
                return self.bind("tagsGet %s %s" % (o, k), "keyError", binds), "TagVal"
            if ty == "TagVal" and idx in (0, 1):        # the value of a tags entry is the pair (type, value)
                return "%s.%s" % (o, ("ty", "val")[idx]), "String"
            if ty == "TagParts" and idx in (0, 1, 2):   # [name, type, value]
                return "%s.%s" % (o, ("name", "ty", "val")[idx]), "String"
            if ty == "Adj" and idx in (0, 1, 2):        # (neighbour, side of the neighbour, overlap)
                return "%s.%s" % (o, ("1", "2.1", "2.2")[idx]), ("String", "Side", "Nat")[idx]
            if ty == "FieldsS":                         # ["S", id, sequence, tag …]
                if idx in (1, 2):
                    return "%s.%s" % (o, ("id", "seq")[idx - 1]), "String"
                if isinstance(sl, ast.Slice) and bounds(sl) == (3, None):
                    return "%s.tags" % o, "TagList"
            if ty == "FieldsL" and isinstance(sl, ast.Slice):   # ["L", a, ±, b, ±, overlap, tag …]
                if bounds(sl) == (6, None):
                    return "(ETags.fields %s.tags)" % o, "ETags"
                if bounds(sl) == (1, 6):
                    return o, "LHead"
            if ty in ("LHead", "LHeadInt") and idx in (0, 1, 2, 3):
                return "%s.%s" % (o, ("a", "da", "b", "db")[idx]), ("String", "Orient", "String", "Orient")[idx]
            if ty == "LHead" and idx == 4:
                return o, "OvRaw"
            if ty == "LHeadInt" and idx == 4:
                return "%s.ov" % o, "Nat"
            if ty == "OvRaw" and isinstance(sl, ast.Slice) and bounds(sl) == (None, -1):
                return o, "OvDigits"
            raise Untranslatable("subscript %s" % u)
        if isinstance(e, ast.ListComp):
            g = e.generators[0] if len(e.generators) == 1 else None
            if (g is not None and not g.ifs and not g.is_async and isinstance(g.target, ast.Name) and isinstance(e.elt, ast.Name)
                    and e.elt.id == g.target.id):
                o, ty = self.ex(g.iter, env, binds)
                if ty == "AdjList":                      # a snapshot of the set
                    return o, ty
            raise Untranslatable("comprehension %s" % u)
        if isinstance(e, ast.List):
            if not e.elts and expect in ("TagList",) or (not e.elts and isinstance(expect, tuple) and expect[0] == "List"):
                return "[]", expect
            if expect == "ETags" and len(e.elts) == 1 and isinstance(e.elts[0], ast.Constant) and e.elts[0].value == 0 \
                    and not isinstance(e.elts[0].value, bool):
                return "ETags.zero", "ETags"
            raise Untranslatable("list display %s" % u)
        if isinstance(e, ast.BinOp) and type(e.op) in (ast.Add, ast.Sub):
            a, ta = self.ex(e.left, env, binds, expect if expect in ("Nat", "Int") else None)
            b, _ = self.ex(e.right, env, binds, ta)
            if ta == "Int" or (ta == "Nat" and isinstance(e.op, ast.Add)):      # a difference of naturals may be negative
                return "(%s %s %s)" % (a, "+" if isinstance(e.op, ast.Add) else "-", b), ta
            raise Untranslatable("arithmetic %s" % u)
        if isinstance(e, ast.BoolOp):
            parts = []
            for i, x in enumerate(e.values):
                n = len(binds)
                parts.append(self.ex(x, env, binds, "Bool")[0])
                if i > 0 and len(binds) > n:
                    raise Untranslatable("an operand of %s that can raise is evaluated conditionally" % u)
            return "(" + (" && " if isinstance(e.op, ast.And) else " || ").join(parts) + ")", "Bool"
        if isinstance(e, ast.UnaryOp) and isinstance(e.op, ast.Not):
            a, ta = self.ex(e.operand, env, binds)
            if ta == "Bool":
                return "(!%s)" % a, "Bool"
            if ta == "TagList":
                return "%s.isEmpty" % a, "Bool"
            if ta == "ETags":
                return "(!%s.truthy)" % a, "Bool"
            raise Untranslatable("truth value of %s" % ast.unparse(e.operand))
        if isinstance(e, ast.Compare) and len(e.ops) == 1:
            l, r, op = e.left, e.comparators[0], type(e.ops[0])
            if op in (ast.In, ast.NotIn):
                a, _ = self.ex(l, env, binds, "String")      # Python evaluates the left operand first
                if _gm_is_self(r):                           # GFA.__contains__
                    c = "(σ.g.has %s)" % a
                else:
                    b, tb = self.ex(r, env, binds)
                    if tb != "TagDict":
                        raise Untranslatable("membership in %s" % ast.unparse(r))
                    c = "(tagsHas %s %s)" % (b, a)
                return (c if op is ast.In else "(!%s)" % c), "Bool"
            if op in (ast.Is, ast.IsNot) and isinstance(r, ast.Constant) and r.value is None:
                a, ta = self.ex(l, env, binds)
                if ta == "OptInt":
                    return ("%s.isNone" if op is ast.Is else "%s.isSome") % a, "Bool"
                raise Untranslatable("test %s" % u)
            a, ta = self.ex(l, env, binds)
            b, _ = self.ex(r, env, binds, ta)
            if op in (ast.Eq, ast.NotEq) and ta in ("String", "Nat", "Int", "Bool", "OptInt"):
                return "(%s %s %s)" % (a, "==" if op is ast.Eq else "!=", b), "Bool"
            sym = {ast.Lt: "<", ast.Gt: ">", ast.LtE: "≤", ast.GtE: "≥"}.get(op)
            if sym and ta in ("Nat", "Int"):
                return "decide (%s %s %s)" % (a, sym, b), "Bool"
            raise Untranslatable("comparison %s" % u)
        if isinstance(e, ast.Call) and not e.keywords:
            f = ast.unparse(e.func)
            if f == "str" and len(e.args) == 1:
                a, ta = self.ex(e.args[0], env, binds)
                if ta == "String":
                    return a, ta
            if f == "len" and len(e.args) == 1:
                a, ta = self.ex(e.args[0], env, binds)
                if ta == "String":
                    return "%s.length" % a, "Nat"
                if ta == "FieldsS":          # the three fixed fields and the tags
                    return "(3 + %s.tags.length)" % a, "Nat"
                if ta == "FieldsL":
                    return "(6 + %s.tags.length)" % a, "Nat"
                if isinstance(ta, tuple) or ta in ("TagList", "AdjList"):
                    return "%s.length" % a, "Nat"
            if f == "int" and len(e.args) == 1:
                a, ta = self.ex(e.args[0], env, binds)
                if ta == "String":
                    return self.bind("Gaftools.TextLayer.pyInt %s.toList" % a, "valueError", binds), "Int"
                if ta == "OvDigits":         # token level: the number in front of the last character of the overlap field
                    return "%s.ov" % a, "Nat"
            if f == "is_correct_tag" and len(e.args) == 1:
                a, ta = self.ex(e.args[0], env, binds)
                if ta == "TagTok":
                    return "(tagOk %s)" % a, "Bool"
            if isinstance(e.func, ast.Attribute):
                m = e.func.attr
                if m == "startswith" and len(e.args) == 1 and isinstance(e.args[0], ast.Constant) and isinstance(e.args[0].value, str):
                    a, ta = self.ex(e.func.value, env, binds)
                    if ta == "TLine" and len(e.args[0].value) == 1:
                        return "(%s.first == some %s)" % (a, _gm_char(e.args[0].value)), "Bool"
                if m == "split" and len(e.args) == 2 and ast.unparse(e.args[0]) == "':'" and ast.unparse(e.args[1]) == "2":
                    a, ta = self.ex(e.func.value, env, binds)
                    if ta == "TagTok":       # token level: a tag IS its three parts
                        return a, "TagParts"
                if m == "split" and len(e.args) == 1 and ast.unparse(e.args[0]) == "'\\t'" and isinstance(e.func.value, ast.Call) \
                        and isinstance(e.func.value.func, ast.Attribute) and e.func.value.func.attr == "strip" and not e.func.value.args \
                        and not e.func.value.keywords:
                    a, ta = self.ex(e.func.value.func.value, env, binds)
                    if ta == "TLineS":
                        return "%s.seg" % a, "FieldsS"
                    if ta == "TLineL":
                        return "%s.link" % a, "FieldsL"
        raise Untranslatable("expression %s" % u)

    # ---- statements
    def assigned(self, stmts):
        out = []

        def add(n):
            if n not in out:
                out.append(n)
        for st in stmts:
            if isinstance(st, ast.Assign):
                for t in st.targets:
                    while isinstance(t, (ast.Subscript, ast.Attribute)):
                        t = t.value
                    if isinstance(t, ast.Name):
                        add(t.id)
            elif isinstance(st, ast.AugAssign):
                raise Untranslatable("statement %s" % ast.unparse(st)[:70])
            elif isinstance(st, ast.Expr) and isinstance(st.value, ast.Call) and isinstance(st.value.func, ast.Attribute) \
                    and st.value.func.attr == "append" and isinstance(st.value.func.value, ast.Name):
                add(st.value.func.value.id)
            elif isinstance(st, ast.If):
                for n in self.assigned(st.body) + self.assigned(st.orelse):
                    add(n)
            elif isinstance(st, ast.For):
                for n in self.assigned(st.body) + self.assigned(st.orelse):
                    add(n)
            elif isinstance(st, ast.Try):
                for n in self.assigned(st.body):
                    add(n)
        return out

    def plain_assigns(self, stmts, env):
        """[(name, value)] if the statements only assign existing local names"""
        out = []
        for st in stmts:
            if not (isinstance(st, ast.Assign) and len(st.targets) == 1 and isinstance(st.targets[0], ast.Name) and st.targets[0].id in env):
                return None
            out.append((st.targets[0].id, st.value))
        return out

    def io_only(self, st):
        """a statement of the file-opening prologue / epilogue: it mentions only the path, the modules used to open it and the
        opened file, and assigns nothing but the opened file"""
        loads = {n.id for n in ast.walk(st) if isinstance(n, ast.Name) and not isinstance(n.ctx, ast.Store)}
        if not loads <= (self.tracked | self.files):
            return False
        for n in ast.walk(st):
            if isinstance(n, (ast.AugAssign, ast.AnnAssign, ast.NamedExpr, ast.For, ast.While, ast.Delete)):
                return False
            if isinstance(n, ast.Assign) and not (len(n.targets) == 1 and isinstance(n.targets[0], ast.Name) and n.targets[0].id not in self.params
                                                  and isinstance(n.value, ast.Call) and ast.unparse(n.value.func) in ("open", "gzip.open")):
                return False
        return True

    def blk(self, stmts, env, ind, fall):
        pad = " " * ind
        if not stmts:
            return fall(env, ind)
        st, rest = stmts[0], stmts[1:]
        u = ast.unparse(st)
        if (isinstance(st, ast.Expr) and isinstance(st.value, ast.Constant)) or isinstance(st, ast.Pass):
            return self.blk(rest, env, ind, fall)
        if isinstance(st, ast.Expr) and isinstance(st.value, ast.Call) and ast.unparse(st.value.func).startswith("logging."):
            return self.blk(rest, env, ind, fall)        # a log line
        if isinstance(st, ast.Continue):
            return fall(env, ind)
        if self.tracked is not None and not isinstance(st, ast.For) and self.io_only(st):
            for n in ast.walk(st):
                if isinstance(n, ast.Assign):
                    self.files.add(n.targets[0].id)
            return self.blk(rest, env, ind, fall)
        binds = []

        def cont(env2=None):
            return self.blk(rest, env if env2 is None else env2, ind, fall)

        def let(name, ty, term):
            self.check_name(name)
            env2 = dict(env)
            env2[name] = ty
            return self.wrap(binds, pad, "%slet %s : %s := %s\n%s" % (pad, name, _gm_lt(ty), term, cont(env2)))

        def upd(text):
            return self.wrap(binds, pad, "%slet σ : St := { σ with %s }\n%s" % (pad, text, cont()))
        if isinstance(st, ast.Raise):
            if isinstance(st.exc, ast.Call) and isinstance(st.exc.func, ast.Name) and st.exc.func.id in _GM_EXC:
                return "%s.error .%s" % (pad, _GM_EXC[st.exc.func.id])
            raise Untranslatable("statement %s" % u[:70])
        if isinstance(st, ast.Assert):
            c, _ = self.ex(st.test, env, binds, "Bool")
            return self.wrap(binds, pad, "%sif %s then\n%s\n%selse\n%s  .error .assertionError" % (pad, c, self.blk(rest, env, ind + 2, fall), pad, pad))
        if isinstance(st, ast.Try):
            # `try: … except E: raise E(…)`: the exception passes through with its class
            for h in st.handlers:
                if not (isinstance(h.type, ast.Name) and len(h.body) == 1 and isinstance(h.body[0], ast.Raise) and isinstance(h.body[0].exc, ast.Call)
                        and ast.unparse(h.body[0].exc.func) == h.type.id):
                    raise Untranslatable("exception handler %s" % ast.unparse(h)[:60])
            if st.orelse or st.finalbody:
                raise Untranslatable("statement %s" % u[:70])
            return self.blk(st.body + rest, env, ind, fall)
        if isinstance(st, ast.Delete) and len(st.targets) == 1:
            t = st.targets[0]
            if isinstance(t, ast.Subscript) and _gm_is_self(t.value, "nodes"):
                k, _ = self.ex(t.slice, env, binds, "String")
                return self.wrap(binds, pad, "%sif (σ.g.has %s) then\n%s  let σ : St := { σ with g := nodesDel σ.g %s }\n%s\n%selse\n%s  .error .keyError" % (
                    pad, k, pad, k, self.blk(rest, env, ind + 2, fall), pad, pad))
            raise Untranslatable("statement %s" % u[:70])
        if isinstance(st, ast.Assign) and len(st.targets) == 1:
            t = st.targets[0]
            if isinstance(t, ast.Name):
                self.check_name(t.id)
                want = None
                if t.id in env and env[t.id] in ("TagList", "ETags") or t.id in env and isinstance(env[t.id], tuple):
                    want = env[t.id]
                if t.id in self.decl:
                    want = self.decl[t.id]
                if isinstance(st.value, ast.Call) and isinstance(st.value.func, ast.Name) and st.value.func.id == "Node" and len(st.value.args) == 1 \
                        and not st.value.keywords:
                    a, _ = self.ex(st.value.args[0], env, binds, "String")
                    for slot in _GM_NODE_GHOST:
                        self.ghost[(t.id, slot)] = self.node_ghost[slot]
                    self.node_key[t.id] = a
                    self.node_ind[t.id] = ind
                    return let(t.id, "Node", "newNode %s" % a)
                v, ty = self.ex(st.value, env, binds, want)
                if ty in ("OvRaw", "OvDigits"):
                    raise Untranslatable("assignment %s" % u)
                return let(t.id, ty, v)
            if isinstance(t, ast.Attribute) and isinstance(t.value, ast.Name) and env.get(t.value.id) == "Node":
                var = t.value.id
                if var not in self.node_key:
                    raise Untranslatable("assignment %s" % u)
                if t.attr in _GM_NODE_GHOST:
                    v, _ = self.ex(st.value, env, binds, _GM_NODE_GHOST[t.attr])
                    if binds:
                        raise Untranslatable("assignment %s" % u)
                    for n in ast.walk(st.value):
                        if isinstance(n, ast.Name) and n.id in env and (n.id not in self.params or n.id in self.reassigned):
                            raise Untranslatable("%s depends on a local variable" % ast.unparse(t))
                    if ind != self.node_ind.get(var):
                        raise Untranslatable("%s is assigned conditionally" % ast.unparse(t))
                    self.ghost[(var, t.attr)] = v
                    return cont()
                if t.attr in _GM_NODE_FIELDS and t.attr != "id":
                    fld, fty = _GM_NODE_FIELDS[t.attr]
                    if fty != "String":
                        raise Untranslatable("assignment %s" % u)
                    v, _ = self.ex(st.value, env, binds, fty)
                    return let(var, "Node", "{ %s with %s := %s }" % (var, fld, v))
                raise Untranslatable("assignment %s" % u)
            if isinstance(t, ast.Subscript) and _gm_is_self(t.value):
                # GFA.__setitem__: `self.nodes[key] = value` for a Node
                if not (isinstance(st.value, ast.Name) and env.get(st.value.id) == "Node" and st.value.id in self.node_key):
                    raise Untranslatable("assignment %s" % u)
                k, _ = self.ex(t.slice, env, binds, "String")
                if self.node_key[st.value.id] != k:
                    raise Untranslatable("a node is stored under a key that is not its id: %s" % u)
                env2 = dict(env)
                del env2[st.value.id]                     # the object now lives in the graph; the local name may not be used again
                return self.wrap(binds, pad, "%slet σ : St := { σ with g := nodesSet σ.g %s %s }\n%s" % (pad, k, st.value.id, cont(env2)))
            if isinstance(t, ast.Subscript) and _gm_is_self(t.value, "contigs"):
                k, _ = self.ex(t.slice, env, binds, "String")
                v, _ = self.ex(st.value, env, binds, "Int")
                return upd("contigs := ctgSet σ.contigs %s %s" % (k, v))
            if isinstance(t, ast.Subscript) and isinstance(t.value, ast.Attribute) and t.value.attr == "tags":
                ni = self.node_item(t.value.value, env, binds)
                if ni is not None and isinstance(st.value, ast.Tuple) and len(st.value.elts) == 2:
                    # tags[name] = (type, value)
                    k, _ = self.ex(t.slice, env, binds, "String")
                    a, _ = self.ex(st.value.elts[0], env, binds, "String")
                    b, _ = self.ex(st.value.elts[1], env, binds, "String")
                    return upd("g := nodeMod σ.g %s (fun nd => { nd with tags := tagSet nd.tags ⟨%s, %s, %s⟩ })" % (ni[1], k, a, b))
            if isinstance(t, ast.Subscript) and isinstance(t.value, ast.Name) and env.get(t.value.id) == "LHead" \
                    and isinstance(t.slice, ast.Constant) and t.slice.value == 4:
                v, ty = self.ex(st.value, env, binds)
                if ty != "Nat" or v != "%s.ov" % t.value.id or binds:
                    raise Untranslatable("assignment %s" % u)
                env2 = dict(env)
                env2[t.value.id] = "LHeadInt"
                return cont(env2)
            raise Untranslatable("assignment %s" % u)
        if isinstance(st, ast.Expr) and isinstance(st.value, ast.Call) and not st.value.keywords and isinstance(st.value.func, ast.Attribute):
            c = st.value
            f, m = c.func.value, c.func.attr
            if m == "append" and len(c.args) == 1 and isinstance(f, ast.Name) and isinstance(env.get(f.id), tuple):
                v, _ = self.ex(c.args[0], env, binds, env[f.id][1])
                return let(f.id, env[f.id], "%s ++ [%s]" % (f.id, v))
            if m == "append" and len(c.args) == 1 and isinstance(f, ast.Subscript) and _gm_is_self(f.value, "contig_to_nodes"):
                k, _ = self.ex(f.slice, env, binds, "String")
                v, _ = self.ex(c.args[0], env, binds, "String")
                return upd("c2n := c2nAppend σ.c2n %s %s" % (k, v))
            if _gm_is_self(f) and m == "add_node" and len(c.args) == 3 and not any(isinstance(a, ast.Starred) for a in c.args):
                a = [self.ex(x, env, binds, ty)[0] for x, ty in zip(c.args, ("String", "String", "TagList"))]
                return self.wrap(binds, pad, "%smatch addNode σ %s with\n%s| .error err => .error err\n%s| .ok σ =>\n%s" % (pad, " ".join(a), pad, pad, cont()))
            if _gm_is_self(f) and m == "remove_edge" and len(c.args) == 1 and isinstance(c.args[0], ast.Tuple) and len(c.args[0].elts) == 5:
                a = [self.ex(x, env, binds, ty)[0] for x, ty in zip(c.args[0].elts, ("String", "Side", "String", "Side", "Nat"))]
                return upd("g := removeEdge σ.g %s" % " ".join(a))
            if _gm_is_self(f) and m == "add_edge":
                args = []
                for x in c.args:
                    if isinstance(x, ast.Starred):
                        o, ty = self.ex(x.value, env, binds)
                        if ty != "LHeadInt":
                            raise Untranslatable("call %s" % u[:70])
                        args += [("%s.a" % o, "String"), ("%s.da" % o, "Orient"), ("%s.b" % o, "String"), ("%s.db" % o, "Orient"), ("%s.ov" % o, "Nat")]
                    else:
                        args.append(self.ex(x, env, binds))
                if [ty for _, ty in args] != ["String", "Orient", "String", "Orient", "Nat", "ETags"]:
                    raise Untranslatable("call %s" % u[:70])
                return upd("g := callAddEdge σ.g %s" % " ".join(a for a, _ in args))
            raise Untranslatable("call %s" % u[:70])
        if isinstance(st, ast.If):
            a1 = self.plain_assigns(st.body, env)
            a2 = self.plain_assigns(st.orelse, env)
            if a1 is not None and a2 is not None and len(a1) == 1 and len(a2) <= 1 and (not a2 or a2[0][0] == a1[0][0]):
                name = a1[0][0]
                c, _ = self.ex(st.test, env, binds, "Bool")
                n = len(binds)
                x, tx = self.ex(a1[0][1], env, binds, env[name])
                y = self.ex(a2[0][1], env, binds, env[name])[0] if a2 else name
                if len(binds) == n:
                    return let(name, env[name], "if %s then %s else %s" % (c, x, y))
                binds = []
            t = st.test
            if isinstance(t, ast.BoolOp) and len(t.values) >= 2:
                # short-circuit evaluation of an operand that can raise: `if a and b: X else: Y` = `if a: (if b: X else: Y) else: Y`
                first = []
                self.ex(t.values[0], env, first, "Bool")
                later = list(first)
                for x in t.values[1:]:
                    self.ex(x, env, later, "Bool")
                if len(later) > len(first):
                    tail = t.values[1] if len(t.values) == 2 else ast.BoolOp(op=t.op, values=t.values[1:])
                    if isinstance(t.op, ast.And):
                        new = ast.If(test=t.values[0], body=[ast.If(test=tail, body=st.body, orelse=st.orelse)], orelse=st.orelse)
                    else:
                        new = ast.If(test=t.values[0], body=st.body, orelse=[ast.If(test=tail, body=st.body, orelse=st.orelse)])
                    return self.blk([new] + rest, env, ind, fall)
            c, _ = self.ex(t, env, binds, "Bool")
            env_then = env
            if (isinstance(t, ast.Call) and isinstance(t.func, ast.Attribute) and t.func.attr == "startswith" and isinstance(t.func.value, ast.Name)
                    and env.get(t.func.value.id) == "TLine" and ast.unparse(t.args[0]) in ("'S'", "'L'")):
                # inside the branch the line is known to be an S (an L) record
                env_then = dict(env)
                env_then[t.func.value.id] = "TLine" + t.args[0].value
            return self.wrap(binds, pad, "%sif %s then\n%s\n%selse\n%s" % (
                pad, c, self.blk(st.body + rest, env_then, ind + 2, fall), pad, self.blk(st.orelse + rest, env, ind + 2, fall)))
        if isinstance(st, ast.For):
            return self.loop(st, rest, env, ind, fall)
        raise Untranslatable("statement %s" % u[:70])

    def loop(self, st, rest, env, ind, fall):
        pad = " " * ind
        if st.orelse or not isinstance(st.target, ast.Name) or st.target.id in env:
            raise Untranslatable("loop %s" % ast.unparse(st)[:60])
        self.loops += 1
        fname = "%sLoop%d" % (self.lname, self.loops)
        var = self.check_name(st.target.id)
        binds = []
        if isinstance(st.iter, ast.Name) and st.iter.id in self.files:
            it, vty = "lines", "TLine"
            if self.lines_used:
                raise Untranslatable("the file is read twice")
            self.lines_used = True
        else:
            it, ity = self.ex(st.iter, env, binds)
            if ity == "AdjList":
                vty = "Adj"
            elif ity == "TagList":
                vty = "TagTok"
            elif isinstance(ity, tuple) and ity[0] == "List":
                vty = ity[1]
            else:
                raise Untranslatable("loop over %s" % ast.unparse(st.iter))
        carried = [v for v in self.assigned(st.body) if v in env and v != var]
        free = []
        for n in ast.walk(ast.Module(body=st.body, type_ignores=[])):
            if isinstance(n, ast.Name) and n.id in env and n.id not in carried and n.id != var and n.id not in free:
                free.append(n.id)
        free.sort(key=lambda v: list(env).index(v))
        sty = " × ".join(["St"] + [("(%s)" % _gm_lt(env[v]) if " " in _gm_lt(env[v]) else _gm_lt(env[v])) for v in carried])

        def proj(i):          # component i of St × T1 × … × Tn
            n = len(carried) + 1
            if n == 1:
                return "st"
            return "st" + ".2" * i + (".1" if i < n - 1 else "")

        def pack(e, ind2):
            for v in carried:
                if e.get(v) != env[v]:
                    raise Untranslatable("%s changes its type in the loop" % v)
            return " " * ind2 + ".ok " + ("σ" if not carried else "(" + ", ".join(["σ"] + carried) + ")")
        benv = {v: env[v] for v in free + carried}
        benv[var] = vty
        saved = self.k
        body = self.blk(st.body, benv, 2, pack)
        unpack = ["  let σ : St := %s" % proj(0)] + ["  let %s : %s := %s" % (v, _gm_lt(env[v]), proj(i + 1)) for i, v in enumerate(carried)]
        self.defs.append((fname, "/-- the body of `for %s in %s:` of `%s`; the state is the object and the variables the body assigns -/\n"
                          "def %s %s(st : %s) (%s : %s) : Except Exc (%s) :=\n%s\n%s" % (
                              var, ast.unparse(st.iter), self.pyname, fname, "".join("(%s : %s) " % (v, _gm_lt(env[v])) for v in free), sty, var,
                              _gm_lt(vty), sty, "\n".join(unpack), body)))
        pat = "σ" if not carried else "(" + ", ".join(["σ"] + carried) + ")"
        return self.wrap(binds, pad, "%smatch forE %s %s (%s) with\n%s| .error err => .error err\n%s| .ok %s =>\n%s" % (
            pad, it, pat, " ".join([fname] + free), pad, pad, pat, self.blk(rest, env, ind, fall)))

    def function(self, fn, pyname, decl=None, tracked=None, node_ghost=None):
        self.pyname = pyname
        self.decl = decl or {}
        self.tracked = tracked
        self.node_ghost = node_ghost or {}
        self.node_key = {}
        self.node_ind = {}
        self.lines_used = False
        for n in ast.walk(fn):
            if isinstance(n, ast.Assign):
                for t in n.targets:
                    if isinstance(t, ast.Name):
                        self.reassigned.add(t.id)
            if isinstance(n, (ast.While, ast.With, ast.Return, ast.Global, ast.Nonlocal, ast.Lambda, ast.Yield, ast.YieldFrom, ast.Break)):
                raise Untranslatable("%s: %s" % (pyname, type(n).__name__))
        env = dict(self.params)
        for p in env:
            self.check_name(p)
        body = _gm_body(fn)
        return self.blk(body, env, 2, lambda e, ind: " " * ind + ".ok σ")


GFAMUTATE_PRELUDE = """/-- the Python exception classes these methods can end in -/
inductive Exc where
  | valueError
  | assertionError
  | keyError
  | attributeError
deriving Repr, DecidableEq, Inhabited

/-- the `GFA` object: `nodes` and `edge_tags` (= `Graph`), `contigs` (a `defaultdict(lambda: None)`: an absent key reads as `None`;
    name ↦ rank in insertion order), `contig_to_nodes` (a `defaultdict(list)`) -/
structure St where
  g : Graph
  contigs : List (String × Int)
  c2n : List (String × List String)
deriving Repr, DecidableEq, Inhabited

/-- a line of the file on the token level: its first character (`none`: the empty string) and what `line.strip().split("\\t")`
    gives, read as an S record (`["S", id, sequence, tag …]`) and as an L record (`["L", a, ±, b, ±, overlap, tag …]`; "+" = `true`,
    `ov` = `int(field[:-1])`) -/
structure TLine where
  first : Option Char
  seg : SegLine
  link : LinkLine
deriving Repr, DecidableEq, Inhabited

/-- the value of `e_tags`: the tag fields of the L line, or the marker `[0]` -/
inductive ETags where
  | fields (l : List String)
  | zero
deriving Repr, DecidableEq, Inhabited

/-- truth value of the list -/
def ETags.truthy : ETags → Bool
  | .fields l => !l.isEmpty
  | .zero => true

/-- as `Graph.edgeTags` holds it (`[0]` = `[]`, see Model/Gfa.lean) -/
def ETags.enc : ETags → List String
  | .fields l => l
  | .zero => []

/-- `for x in xs: body` where the body can raise -/
def forE {σ α ε : Type} : List α → σ → (σ → α → Except ε σ) → Except ε σ
  | [], s, _ => .ok s
  | x :: r, s, body =>
    match body s x with
    | .error e => .error e
    | .ok s' => forE r s' body

/-- `self.nodes[key] = value` -/
def nodesSet (g : Graph) (key : String) (v : Node) : Graph :=
  { g with nodes := if g.nodes.any (·.id == key) then g.nodes.map (fun m => if m.id == key then v else m) else g.nodes ++ [v] }

/-- a mutation of the node object stored under `key` -/
def nodeMod (g : Graph) (key : String) (f : Node → Node) : Graph :=
  { g with nodes := g.nodes.map (fun m => if m.id == key then f m else m) }

/-- `del self.nodes[key]` -/
def nodesDel (g : Graph) (key : String) : Graph := { g with nodes := g.nodes.filter (·.id != key) }

/-- `name in tags` / `tags[name]` for the `tags` dict of a node (name ↦ (type, value)) -/
def tagsHas (d : List Tag) (k : String) : Bool := d.any (·.name == k)
def tagsGet (d : List Tag) (k : String) : Option Tag := d.find? (·.name == k)

/-- `is_correct_tag(tag)`: on the token level a `Tag` stands for a string that passed (text level: `GfaText.parseTag`) -/
def tagOk (_ : Tag) : Bool := true

/-- `self.contigs[k]` (read) / `self.contigs[k] = v` -/
def ctgGet (d : List (String × Int)) (k : String) : Option Int := (d.find? (·.1 == k)).map (·.2)
def ctgSet (d : List (String × Int)) (k : String) (v : Int) : List (String × Int) :=
  if d.any (·.1 == k) then d.map (fun e => if e.1 == k then (k, v) else e) else d ++ [(k, v)]

/-- `self.contig_to_nodes[k].append(v)` -/
def c2nAppend (d : List (String × List String)) (k v : String) : List (String × List String) :=
  if d.any (·.1 == k) then d.map (fun e => if e.1 == k then (e.1, e.2 ++ [v]) else e) else d ++ [(k, [v])]

/-- `self.add_edge(a, da, b, db, ov, tags)`: `Gfa.addEdge` is tied to the source by Gen/Edges.lean (`TieA.addEdge_gen`); it files the
    tags always, the source does so `if tags:` -/
def callAddEdge (g : Graph) (a : String) (da : Bool) (b : String) (db : Bool) (ov : Nat) (t : ETags) : Graph :=
  if t.truthy then addEdge g ⟨a, da, b, db, ov, t.enc⟩ else { addEdge g ⟨a, da, b, db, ov, t.enc⟩ with edgeTags := g.edgeTags }
"""

GFAMUTATE_HEAD = ("import Gaftools.Model.Gfa\nimport Gaftools.Model.TextLayer\n"
                  "/-! %s -/\n"
                  "set_option linter.unusedVariables false\n"
                  "namespace Gaftools.Gen.GfaMutate\nopen Gaftools.Gfa\n\n")


def _gm_expect_body(cls_fn, want, what):
    got = [ast.unparse(x) for x in _gm_body(cls_fn)]
    if got != want:
        raise Untranslatable("%s is not what the translation assumes: %s" % (what, got))


def gen_gfa_mutate():
    try:
        return _gen_gfa_mutate()
    except (Untranslatable, SyntaxError, OSError, KeyError, IndexError):
        raise
    except Exception as e:  # a shape the translator did not foresee is never an alarm
        raise Untranslatable("translator: %s: %s" % (type(e).__name__, e))


def _gen_gfa_mutate():
    _, src = src_of("gaftools/gfa.py")
    mod = ast.parse(src)
    # -- the container protocol of GFA the three methods go through
    _gm_expect_body(find_func(mod, "__contains__", cls="GFA"), ["return key in self.nodes"], "GFA.__contains__")
    _gm_expect_body(find_func(mod, "__getitem__", cls="GFA"), ["try:\n    return self.nodes[key]\nexcept KeyError:\n    return None"], "GFA.__getitem__")
    _gm_expect_body(find_func(mod, "__setitem__", cls="GFA"),
                    ["if isinstance(value, Node):\n    self.nodes[key] = value\nelse:\n    raise ValueError('the object given to set should be a Node object')"],
                    "GFA.__setitem__")
    if [a.arg for a in find_func(mod, "remove_edge", cls="GFA").args.args] != ["self", "edge"]:
        raise Untranslatable("remove_edge signature")
    if [a.arg for a in find_func(mod, "add_edge", cls="GFA").args.args] != ["self", "node1", "node1_dir", "node2", "node2_dir", "overlap", "tags"]:
        raise Untranslatable("add_edge signature")
    # -- Node.__init__: one assignment per slot
    ni = find_func(mod, "__init__", cls="Node")
    if [a.arg for a in ni.args.args] != ["self", ni.args.args[1].arg] or len(ni.args.args) != 2:
        raise Untranslatable("Node.__init__ signature")
    ident = ni.args.args[1].arg
    fields, ghost = {}, {}
    for st in _gm_body(ni):
        if not (isinstance(st, ast.Assign) and len(st.targets) == 1 and isinstance(st.targets[0], ast.Attribute)
                and isinstance(st.targets[0].value, ast.Name) and st.targets[0].value.id == "self"):
            raise Untranslatable("Node.__init__: %s" % ast.unparse(st)[:60])
        slot, v = st.targets[0].attr, st.value
        u = ast.unparse(v)
        if slot in fields or slot in ghost:
            raise Untranslatable("Node.__init__ assigns %s twice" % slot)
        if slot in _GM_NODE_FIELDS:
            fld, ty = _GM_NODE_FIELDS[slot]
            if ty == "String" and isinstance(v, ast.Name) and v.id == ident:
                fields[fld] = "identifier"
            elif ty == "String" and isinstance(v, ast.Constant) and isinstance(v.value, str):
                fields[fld] = _gm_str(v.value)
            elif ty == "AdjList" and u == "set()":
                fields[fld] = "[]"
            elif ty == "TagDict" and u in ("dict()", "{}"):
                fields[fld] = "[]"
            else:
                raise Untranslatable("Node.__init__: %s" % ast.unparse(st)[:60])
        elif slot == "seq_len" and isinstance(v, ast.Constant) and isinstance(v.value, int) and not isinstance(v.value, bool) and v.value >= 0:
            ghost[slot] = str(v.value)
        elif slot == "visited" and isinstance(v, ast.Constant) and isinstance(v.value, bool):
            ghost[slot] = "true" if v.value else "false"
        else:
            raise Untranslatable("Node.__init__: %s" % ast.unparse(st)[:60])
    if set(fields) != {"id", "seq", "startAdj", "endAdj", "tags"} or set(ghost) != set(_GM_NODE_GHOST):
        raise Untranslatable("Node.__init__ does not set every slot")
    if fields["id"] != "identifier":
        raise Untranslatable("Node.__init__: id")
    new_node = "{ " + ", ".join("%s := %s" % (f, fields[f]) for f in ("id", "seq", "startAdj", "endAdj", "tags")) + " }"
    # -- GFA.__init__: the empty object, and the call of read_graph
    gi = find_func(mod, "__init__", cls="GFA")
    init, loads = {}, False
    want_init = {"nodes": ("dict()",), "edge_tags": ("dict()",), "contigs": ("defaultdict(lambda: None)",), "contig_to_nodes": ("defaultdict(lambda: [])", "defaultdict(list)")}
    for st in _gm_body(gi):
        if isinstance(st, ast.Assign) and len(st.targets) == 1 and isinstance(st.targets[0], ast.Attribute) and _gm_is_self(st.targets[0].value):
            slot = st.targets[0].attr
            if slot in want_init:
                if ast.unparse(st.value) not in want_init[slot] or slot in init:
                    raise Untranslatable("GFA.__init__: %s" % ast.unparse(st)[:60])
                init[slot] = "[]"
            elif slot != "low_memory":
                raise Untranslatable("GFA.__init__: %s" % ast.unparse(st)[:60])
        elif isinstance(st, ast.If) and ast.unparse(st.test) == "graph_file" and not st.orelse:
            calls = [x for x in st.body if isinstance(x, ast.Expr)]
            if len(calls) != 1 or ast.unparse(calls[0]) != "self.read_graph(gfa_file_path=graph_file, low_memory=low_memory)" or calls[0] is not st.body[-1]:
                raise Untranslatable("GFA.__init__: the call of read_graph")
            if set(init) != set(want_init):
                raise Untranslatable("GFA.__init__: read_graph is called before the object is set up")
            loads = True
        else:
            raise Untranslatable("GFA.__init__: %s" % ast.unparse(st)[:60])
    if set(init) != set(want_init) or not loads:
        raise Untranslatable("GFA.__init__")
    # -- add_node
    fn = find_func(mod, "add_node", cls="GFA")
    if [a.arg for a in fn.args.args] != ["self", "node_id", "seq", "tags"] or fn.args.vararg or fn.args.kwarg or fn.args.kwonlyargs:
        raise Untranslatable("add_node signature")
    an = _GM("addNode", {"node_id": "String", "seq": "String", "tags": "TagList"})
    an_body = an.function(fn, "add_node", node_ghost=ghost)
    if len(an.node_key) != 1:
        raise Untranslatable("add_node creates %d nodes" % len(an.node_key))
    nv = list(an.node_key)[0]
    # -- remove_node
    fn = find_func(mod, "remove_node", cls="GFA")
    if [a.arg for a in fn.args.args] != ["self", "n_id"]:
        raise Untranslatable("remove_node signature")
    rn = _GM("removeNode", {"n_id": "String"})
    rn_body = rn.function(fn, "remove_node")
    # -- read_graph
    fn = find_func(mod, "read_graph", cls="GFA")
    if [a.arg for a in fn.args.args] != ["self", "gfa_file_path", "low_memory"]:
        raise Untranslatable("read_graph signature")
    rg = _GM("readGraph", {"low_memory": "Bool"})
    # a list that starts empty and receives the loop variable of a `for`: the lines kept for the second pass
    kept = {}
    for loop in [n for n in ast.walk(fn) if isinstance(n, ast.For) and isinstance(n.target, ast.Name)]:
        for n in ast.walk(loop):
            if (isinstance(n, ast.Call) and isinstance(n.func, ast.Attribute) and n.func.attr == "append" and isinstance(n.func.value, ast.Name)
                    and len(n.args) == 1 and isinstance(n.args[0], ast.Name) and n.args[0].id == loop.target.id):
                kept[n.func.value.id] = ("List", "TLineL")
            if (isinstance(loop.iter, ast.Name) and isinstance(n, ast.Call) and isinstance(n.func, ast.Attribute) and n.func.attr == "strip"
                    and isinstance(n.func.value, ast.Name) and n.func.value.id == loop.target.id):
                kept.setdefault(loop.iter.id, ("List", "TLineL"))      # … or is read as lines in the second pass
    rg_body = rg.function(fn, "read_graph", decl=kept,
                          tracked={"gfa_file_path", "os", "gzip", "sys", "logging", "open", "ValueError", "FileNotFoundError"})
    if not rg.lines_used or rg.loops != 2:
        raise Untranslatable("read_graph: the loop over the file and the loop over the links were not found")

    def defs(tr):
        return "".join(d + "\n\n" for _, d in tr.defs)
    return (GFAMUTATE_HEAD % ("generated by harness/translate.py from gaftools/gfa.py : Node.__init__, GFA.__init__, GFA.add_node, GFA.remove_node,\n"
                              "    GFA.read_graph — every statement in source order, on the token level of Model/Gfa.lean (an S line is `(id, seq, tags)` with the\n"
                              "    tags already split at their first two ':', an L line `(a, ±, b, ±, overlap, tags)`); `.error` = the Python raises — do not edit")
            + GFAMUTATE_PRELUDE
            + "\n/-- `Node(%s)`: the slots the model stores -/\n" % ident
            + "def newNode (identifier : String) : Node := %s\n" % new_node
            + "/-- … and the two it derives: `seq_len`, `visited` -/\n"
            + "def newNodeSeqLen : Nat := %s\ndef newNodeVisited : Bool := %s\n\n" % (ghost["seq_len"], ghost["visited"])
            + "/-- `GFA()` before anything is read -/\n"
            + "def initSt : St := { g := { nodes := %s, edgeTags := %s }, contigs := %s, c2n := %s }\n\n" % (
                init["nodes"], init["edge_tags"], init["contigs"], init["contig_to_nodes"])
            + defs(an)
            + "/-- `add_node(node_id, seq, tags)` (`tags=None` is the empty list) -/\n"
            + "def addNode (σ : St) (node_id seq : String) (tags : List Tag) : Except Exc St :=\n" + an_body + "\n\n"
            + "/-- the derived slots of the node `add_node` stores -/\n"
            + "def addNodeSeqLen (node_id seq : String) (tags : List Tag) : Nat := %s\n" % an.ghost[(nv, "seq_len")]
            + "def addNodeVisited (node_id seq : String) (tags : List Tag) : Bool := %s\n\n" % an.ghost[(nv, "visited")]
            + defs(rn)
            + "/-- `remove_node(n_id)` -/\n"
            + "def removeNode (σ : St) (n_id : String) : Except Exc St :=\n" + rn_body + "\n\n"
            + defs(rg)
            + "/-- `read_graph(path, low_memory)`; `lines` = what iterating over the opened file yields -/\n"
            + "def readGraph (σ : St) (lines : List TLine) (low_memory : Bool) : Except Exc St :=\n" + rg_body + "\n\n"
            + "/-- `GFA(graph_file, low_memory)` -/\n"
            + "def load (lines : List TLine) (low_memory : Bool) : Except Exc St := readGraph initSt lines low_memory\n"
            + "end Gaftools.Gen.GfaMutate\n")


GENERATORS["GfaMutate"] = gen_gfa_mutate


# ---------------------------------------------------------------------------------------------------------
# phase.add_phase_info: the loop that reads the haplotag TSV (C20), statement by statement; class Node's constructor;
# utils.reverse_cigar (C02) statement by statement; utils.is_file_gzipped (the magic number)

T_NODE, T_PDICT = "Node", "Dict"
_NODE_FIELDS = ("chr_name", "haplotype", "phase_set")

PHASE_TSV_HEADER = """import Gaftools.Model.Stat
/-! %s -/
set_option linter.unusedVariables false
namespace Gaftools.Gen.PhaseTsv
open Gaftools.Gaf Gaftools.Stat

/-- an object of class `Node` of phase.py (the translator checks that these are exactly the attributes `__init__` stores) -/
structure Node where
  chr_name : Str
  haplotype : Str
  phase_set : Str
deriving DecidableEq, Repr

/-- the dictionary `phase` (insertion ordered): `k in d`, `d[k]` (`none` = KeyError), `d[k] = v` -/
abbrev Dict := List (Str × Node)
def dHas (d : Dict) (k : Str) : Bool := d.any (·.1 == k)
def dGet (d : Dict) (k : Str) : Option Node := (d.find? (·.1 == k)).map (·.2)
def dSet (d : Dict) (k : Str) (v : Node) : Dict :=
  if dHas d k then d.map (fun e => if e.1 == k then (e.1, v) else e) else d ++ [(k, v)]

/-- `s.rstrip(chars)` -/
def rstripSet (chars : List Char) (s : Str) : Str := (s.reverse.dropWhile (fun c => chars.contains c)).reverse

/-- `range(start, stop, step)` -/
def pyRange (start stop step : Int) : List Int :=
  if step > 0 then (List.range ((stop - start + step - 1) / step).toNat).map (fun (i : Nat) => start + step * (i : Int))
  else if step < 0 then (List.range ((start - stop + (-step) - 1) / (-step)).toNat).map (fun (i : Nat) => start + step * (i : Int))
  else []

/-- `l[i]` for an integer that may be negative (counted from the end); `none` = IndexError -/
def pyIdx {α : Type} (l : List α) (i : Int) : Option α :=
  if i ≥ 0 then l[i.toNat]? else if -i ≤ (l.length : Int) then l[l.length - (-i).toNat]? else none

"""


class _TsvTr(_PyLean):
    """_PyLean plus: `str.rstrip` / `split` / `startswith`, `str()`, the digit-run split, a dictionary str -> Node that is assigned to,
    the constructor of Node, integer ranges with a step, subscripts by an integer that may be negative"""

    def __init__(self, mod, loop_names, node_params=None):
        _PyLean.__init__(self, mod, {}, {}, loop_names)
        self.node_params = node_params

    def _ex(self, e, env, binds, expect):
        u = ast.unparse(e)
        if isinstance(e, ast.Dict) and not e.keys and expect in (None, T_PDICT):
            return "[]", T_PDICT
        if isinstance(e, ast.UnaryOp) and isinstance(e.op, ast.USub) and isinstance(e.operand, ast.Constant) \
                and isinstance(e.operand.value, int) and not isinstance(e.operand.value, bool):
            return "(-%d : Int)" % e.operand.value, T_INT
        if isinstance(e, ast.ListComp):
            # ["".join(x) for _, x in itertools.groupby(S, key=str.isdigit)]
            g = e.generators[0] if len(e.generators) == 1 else None
            if (g is not None and not g.ifs and not g.is_async and isinstance(g.target, ast.Tuple) and len(g.target.elts) == 2
                    and all(isinstance(x, ast.Name) for x in g.target.elts) and g.target.elts[0].id != g.target.elts[1].id
                    and ast.unparse(e.elt) == "''.join(%s)" % g.target.elts[1].id
                    and isinstance(g.iter, ast.Call) and ast.unparse(g.iter.func) == "itertools.groupby" and len(g.iter.args) == 1
                    and len(g.iter.keywords) == 1 and g.iter.keywords[0].arg == "key" and ast.unparse(g.iter.keywords[0].value) == "str.isdigit"):
                a, _ = self.ex(g.iter.args[0], env, binds, T_STR)
                return "(groupDigits %s)" % a, ("List", T_STR)
            raise Untranslatable("comprehension %s" % u)
        if isinstance(e, ast.Subscript):
            sl = e.slice
            neg1 = isinstance(sl, ast.UnaryOp) and isinstance(sl.op, ast.USub) and isinstance(sl.operand, ast.Constant) and sl.operand.value == 1
            if not isinstance(sl, (ast.Constant, ast.Slice)) and not neg1:
                _, ty = self.ex(e.value, env, [], None)
                if isinstance(ty, tuple) and ty[0] == "List":
                    _, ti = self.ex(sl, env, [], None)
                    if ti == T_INT:
                        o, _ = self.ex(e.value, env, binds)
                        i, _ = self.ex(sl, env, binds, T_INT)
                        return self.bind("pyIdx %s %s" % (o, i), binds), ty[1]
            _, ty = self.ex(e.value, env, [], None)
            if ty == T_PDICT:
                o, _ = self.ex(e.value, env, binds)
                k, _ = self.ex(sl, env, binds, T_STR)
                return self.bind("dGet %s %s" % (o, k), binds), T_NODE
        if isinstance(e, ast.Attribute) and e.attr in _NODE_FIELDS:
            _, ty = self.ex(e.value, env, [], None)
            if ty == T_NODE:
                o, _ = self.ex(e.value, env, binds)
                return "%s.%s" % (o, e.attr), T_STR
        if isinstance(e, ast.Compare) and len(e.ops) == 1 and type(e.ops[0]) in (ast.In, ast.NotIn):
            _, tb = self.ex(e.comparators[0], env, [], None)
            if tb == T_PDICT:
                a, _ = self.ex(e.left, env, binds, T_STR)          # Python evaluates the left operand first
                b, _ = self.ex(e.comparators[0], env, binds)
                c = "(dHas %s %s)" % (b, a)
                return (c if isinstance(e.ops[0], ast.In) else "(!%s)" % c), T_BOOL
        if isinstance(e, ast.Call) and not e.keywords:
            f = e.func
            fu = ast.unparse(f)
            if fu == "dict" and not e.args and "dict" not in env and expect in (None, T_PDICT):
                return "[]", T_PDICT
            if fu == "str" and len(e.args) == 1 and "str" not in env:
                a, ta = self.ex(e.args[0], env, binds)
                if ta == T_STR:
                    return a, T_STR
                raise Untranslatable("str() of %s" % ast.unparse(e.args[0]))
            if fu == "range" and len(e.args) in (2, 3) and "range" not in env:
                xs = [self.ex(x, env, binds, T_INT)[0] for x in e.args] + (["(1 : Int)"] if len(e.args) == 2 else [])
                return "(pyRange %s)" % " ".join(xs), ("List", T_INT)
            if fu == "Node" and "Node" not in env and self.node_params is not None:
                if len(e.args) != len(self.node_params):
                    raise Untranslatable("Node(...) with %d arguments" % len(e.args))
                xs = [self.ex(x, env, binds, T_STR)[0] for x in e.args]
                return "(nodeInit %s)" % " ".join(xs), T_NODE
            if isinstance(f, ast.Attribute) and f.attr in ("rstrip", "split", "startswith"):
                _, to = self.ex(f.value, env, [], None)
                if to == T_STR:
                    o, _ = self.ex(f.value, env, binds, T_STR)
                    cs = [a.value for a in e.args if isinstance(a, ast.Constant) and isinstance(a.value, str)]
                    if len(cs) != len(e.args):
                        raise Untranslatable("argument of %s" % u)
                    if f.attr == "rstrip" and not cs:
                        return "(Gaftools.Gaf.rstrip %s)" % o, T_STR
                    if f.attr == "rstrip" and len(cs) == 1:
                        return "(rstripSet %s %s)" % (_chars(cs[0]), o), T_STR
                    if f.attr == "split" and len(cs) == 1 and len(cs[0]) == 1:
                        return "(%s.splitOn %s)" % (o, _chars(cs[0])[1:-1]), ("List", T_STR)
                    if f.attr == "startswith" and len(cs) == 1:
                        return "(List.isPrefixOf %s %s)" % (_chars(cs[0]), o), T_BOOL
                    raise Untranslatable("string method %s" % u)
        return _PyLean._ex(self, e, env, binds, expect)

    def blk(self, stmts, env, ind, fall, decl):
        if stmts:
            st, rest = stmts[0], stmts[1:]
            if isinstance(st, ast.Import) and all(a.asname is None and a.name not in env for a in st.names):
                return self.blk(rest, env, ind, fall, decl)
            if (isinstance(st, ast.Assign) and len(st.targets) == 1 and isinstance(st.targets[0], ast.Subscript)
                    and isinstance(st.targets[0].value, ast.Name) and env.get(st.targets[0].value.id) == T_PDICT):
                # D[key] = value: the value is evaluated first, then the key
                name = st.targets[0].value.id
                binds = []
                v, _ = self.ex(st.value, env, binds, T_NODE)
                k, _ = self.ex(st.targets[0].slice, env, binds, T_STR)
                pad = " " * ind
                return self.wrap(binds, pad, lambda p: "%slet %s : %s := (dSet %s %s %s)\n%s" % (
                    p, name, _lt(T_PDICT), name, k, v, self.blk(rest, env, ind, fall, decl)))
        return _PyLean.blk(self, stmts, env, ind, fall, decl)


def _no_doc(stmts):
    return [st for st in stmts if not (isinstance(st, ast.Expr) and isinstance(st.value, ast.Constant))]


def _node_init(mod):
    """class Node: a plain record whose constructor stores its parameters"""
    cls = _only([n for n in mod.body if isinstance(n, ast.ClassDef) and n.name == "Node"], "class Node")
    if cls.bases or cls.keywords or cls.decorator_list or [n.name for n in _no_doc(cls.body) if isinstance(n, ast.FunctionDef)] != ["__init__"] \
            or len(_no_doc(cls.body)) != 1:
        raise Untranslatable("class Node is not a plain record")
    init = find_func(mod, "__init__", cls="Node")
    a = init.args
    if a.vararg or a.kwarg or a.kwonlyargs or a.posonlyargs or a.defaults or init.decorator_list or len(a.args) < 1:
        raise Untranslatable("Node.__init__ signature")
    self_name, params = a.args[0].arg, [x.arg for x in a.args[1:]]
    stores = []
    for st in _no_doc(init.body):
        if not (isinstance(st, ast.Assign) and len(st.targets) == 1 and isinstance(st.targets[0], ast.Attribute)
                and isinstance(st.targets[0].value, ast.Name) and st.targets[0].value.id == self_name
                and isinstance(st.value, ast.Name) and st.value.id in params):
            raise Untranslatable("Node.__init__ statement: %s" % ast.unparse(st)[:60])
        stores.append((st.targets[0].attr, st.value.id))
    if sorted(f for f, _ in stores) != sorted(_NODE_FIELDS):
        raise Untranslatable("Node stores %s" % [f for f, _ in stores])
    for x in params:
        if x in _LEAN_RESERVED or x.startswith("_"):
            raise Untranslatable("parameter name %s" % x)
    return params, "def nodeInit (%s : Str) : Node :=\n  { %s }" % (" ".join(params), ", ".join("%s := %s" % fv for fv in stores))


def _gen_tsv_loop(mod):
    fn = find_func(mod, "add_phase_info")
    a = fn.args
    if a.vararg or a.kwarg or a.kwonlyargs or a.posonlyargs or a.defaults:
        raise Untranslatable("add_phase_info signature")
    fparams = [x.arg for x in a.args]
    body = _no_doc(fn.body)
    # the files opened for reading in text mode, by variable
    files = {}
    for st in body:
        if (isinstance(st, ast.Assign) and len(st.targets) == 1 and isinstance(st.targets[0], ast.Name) and isinstance(st.value, ast.Call)
                and ast.unparse(st.value.func) == "open"):
            c = st.value
            mode = c.args[1].value if len(c.args) == 2 and isinstance(c.args[1], ast.Constant) else ("r" if len(c.args) == 1 else None)
            if not c.keywords and mode in ("r", "rt") and isinstance(c.args[0], ast.Name) and c.args[0].id in fparams:
                files[st.targets[0].id] = st
    loops = [st for st in body if isinstance(st, ast.For) and isinstance(st.iter, ast.Name) and st.iter.id in files]
    loop = _only(loops, "loop over the lines of a file opened for reading")
    fvar = loop.iter.id
    at = body.index(loop)
    pre, post = body[:at], body[at + 1:]
    tr = _TsvTr(mod, ["tsvBody"], node_params=_node_init(mod)[0])
    carried = tr.assigned(loop.body)
    # what precedes the loop: the open(), log calls, and the initial values of the variables the loop updates
    inits = []
    for st in pre:
        u = ast.unparse(st)
        if st is files[fvar]:
            continue
        if isinstance(st, ast.Expr) and isinstance(st.value, ast.Call) and isinstance(st.value.func, ast.Attribute) \
                and isinstance(st.value.func.value, ast.Name) and st.value.func.value.id == "logger":
            if any(isinstance(n, ast.Name) and n.id in carried + [fvar] for n in ast.walk(st)):
                raise Untranslatable("log call reads the loop state: %s" % u[:60])
            continue
        if isinstance(st, ast.Assign) and len(st.targets) == 1 and isinstance(st.targets[0], ast.Name) and st.targets[0].id != fvar:
            inits.append(st)
            continue
        raise Untranslatable("before the TSV loop: %s" % u[:60])
    if sum(1 for st in pre if isinstance(st, ast.Assign) and any(ast.unparse(t) == fvar for t in st.targets)) != 1:
        raise Untranslatable("%s is assigned more than once" % fvar)
    state = [v for v in carried if any(st.targets[0].id == v for st in inits)]
    if len(state) != 1:
        raise Untranslatable("the TSV loop updates %s" % state)
    dname = state[0]
    # afterwards the dictionary is only looked at (`k in D`, `D[k]`); the file variable is only closed
    for st in post:
        for n in ast.walk(st):
            for c in ast.iter_child_nodes(n):
                if isinstance(c, ast.Name) and c.id == dname:
                    ok = (isinstance(n, ast.Compare) and len(n.ops) == 1 and isinstance(n.ops[0], (ast.In, ast.NotIn)) and n.comparators[0] is c) \
                        or (isinstance(n, ast.Subscript) and n.value is c and isinstance(n.ctx, ast.Load))
                    if not ok:
                        raise Untranslatable("the dictionary is used after the loop in %s" % ast.unparse(n)[:60])
                if isinstance(c, ast.Name) and c.id == fvar and not (
                        isinstance(n, ast.Attribute) and n.attr == "close" and isinstance(n.ctx, ast.Load)):
                    raise Untranslatable("the TSV file is used after the loop in %s" % ast.unparse(n)[:60])
    if fvar in _LEAN_RESERVED or fvar.startswith("_"):
        raise Untranslatable("variable name %s" % fvar)
    env = {fvar: ("List", T_STR)}
    tr.reserved = set(env)

    def final(e, ind):
        if e.get(dname) != T_PDICT:
            raise Untranslatable("%s is not a dictionary" % dname)
        return "%ssome %s" % (" " * ind, dname)
    text = tr.blk(inits + [loop], env, 2, final, {})
    if tr.loop_names:
        raise Untranslatable("the TSV loop was not reached")
    return dict(tr.defs)["tsvBody"], "def tsvLoop (%s : List Str) : Option Dict :=\n%s" % (fvar, text)


def _gen_reverse_cigar(umod):
    fn = find_func(umod, "reverse_cigar")
    a = fn.args
    if a.vararg or a.kwarg or a.kwonlyargs or a.posonlyargs or a.defaults or len(a.args) != 1:
        raise Untranslatable("reverse_cigar signature")
    cg = a.args[0].arg
    if cg in _LEAN_RESERVED or cg.startswith("_"):
        raise Untranslatable("parameter name %s" % cg)
    body = _no_doc(fn.body)
    if not body or not isinstance(body[-1], ast.Return) or body[-1].value is None or any(isinstance(n, ast.Return) for st in body[:-1] for n in ast.walk(st)):
        raise Untranslatable("reverse_cigar does not end with its only return")
    tr = _TsvTr(umod, ["revCigarBody"])
    tr.reserved = {cg}

    def final(e, ind):
        binds = []
        v, _ = tr.ex(body[-1].value, e, binds, T_STR)
        return tr.wrap(binds, " " * ind, lambda p: "%ssome %s" % (p, v))
    text = tr.blk(body[:-1], {cg: T_STR}, 2, final, {})
    if tr.loop_names:
        raise Untranslatable("reverse_cigar has no loop")
    return dict(tr.defs)["revCigarBody"], "def reverseCigar (%s : Str) : Option Str :=\n%s" % (cg, text)


def _gen_is_gzipped(umod):
    fn = find_func(umod, "is_file_gzipped")
    if len(fn.args.args) != 1 or fn.args.defaults or fn.args.vararg or fn.args.kwarg:
        raise Untranslatable("is_file_gzipped signature")
    src = fn.args.args[0].arg
    w = _only(_no_doc(fn.body), "statement of is_file_gzipped")
    if not (isinstance(w, ast.With) and len(w.items) == 1 and isinstance(w.items[0].optional_vars, ast.Name)
            and ast.unparse(w.items[0].context_expr) == "open(%s, 'rb')" % src):
        raise Untranslatable("is_file_gzipped does not open its argument in binary mode")
    f = w.items[0].optional_vars.id
    r = _only(_no_doc(w.body), "statement under the with of is_file_gzipped")
    if not (isinstance(r, ast.Return) and isinstance(r.value, ast.Compare) and len(r.value.ops) == 1 and isinstance(r.value.ops[0], (ast.Eq, ast.NotEq))):
        raise Untranslatable("is_file_gzipped: %s" % ast.unparse(r)[:60])
    l, rt = r.value.left, r.value.comparators[0]
    if isinstance(l, ast.Constant):
        l, rt = rt, l
    if not (isinstance(l, ast.Call) and ast.unparse(l.func) == "%s.read" % f and len(l.args) == 1 and not l.keywords
            and isinstance(l.args[0], ast.Constant) and isinstance(l.args[0].value, int) and not isinstance(l.args[0].value, bool)
            and l.args[0].value >= 0 and isinstance(rt, ast.Constant) and isinstance(rt.value, bytes)):
        raise Untranslatable("is_file_gzipped compares %s" % ast.unparse(r.value)[:60])
    return "def isFileGzipped (bytes : List UInt8) : Bool := (bytes.take %d %s [%s])" % (
        l.args[0].value, "==" if isinstance(r.value.ops[0], ast.Eq) else "!=", ", ".join("0x%02x" % b for b in rt.value))


_PHASE_TSV_DOCS = (
    "/-- `Node.__init__`: which parameter is stored in which attribute -/\n%s\n\n"
    "/-- the body of the loop over the lines of the haplotag TSV; the state is the dictionary (`none` = the Python raises: IndexError of\n"
    "    `line_elements[k]`) -/\n%s\n\n"
    "/-- `add_phase_info` from the empty dictionary to the end of that loop -/\n%s\n\n"
    "/-- the body of the loop of `utils.reverse_cigar` -/\n%s\n\n"
    "/-- `utils.reverse_cigar` -/\n%s\n\n"
    "/-- `utils.is_file_gzipped`: the test on the first bytes of the file -/\n%s\n"
    "end Gaftools.Gen.PhaseTsv\n")


def gen_phase_tsv():
    _, psrc = src_of("gaftools/cli/phase.py")
    _, usrc = src_of("gaftools/utils.py")
    mod, umod = ast.parse(psrc), ast.parse(usrc)
    node_def = _node_init(mod)[1]
    tsv_body, tsv_loop = _gen_tsv_loop(mod)
    rc_body, rc_fn = _gen_reverse_cigar(umod)
    gz = _gen_is_gzipped(umod)
    return (PHASE_TSV_HEADER % ("generated by harness/translate.py from gaftools/cli/phase.py (class Node, add_phase_info up to the end of the loop over\n"
                                "    the TSV lines, statement by statement) and gaftools/utils.py (reverse_cigar statement by statement, is_file_gzipped) — do not edit")
            + _PHASE_TSV_DOCS % (node_def, tsv_body, tsv_loop, rc_body, rc_fn, gz))


GENERATORS["PhaseTsv"] = gen_phase_tsv


# ---------------------------------------------------------------------------------------------------------
# realign.realign_gaf: the sequential part — how the records are cut into batches and the batches into rounds, the priority of a
# record, what a worker puts for a batch, the drain of the priority queue, the leftover batch and the leftover round (C11)

_RB_HEADER = """import Gaftools.Model.Realign
/-! %s -/
namespace Gaftools.Gen.RealignBatch
open Gaftools.Realign
set_option linter.unusedVariables false

/-- an element of a batch: the tuple appended to `seq_batch`, reduced to (the record: its position in the input, its priority);
    the other components of the tuple are computed from the record alone -/
abbrev Item := Nat × Nat

/-- `mp.Process(target=wfa_alignment, args=(batch, align_queue))` and whether `start()` has been called on it -/
structure Proc where
  batch : List Item
  started : Bool
deriving DecidableEq, Repr

/-- the variables of `realign_gaf` the batching is about.  `p_queue`: the priorities of the objects in the `PriorityQueue` (a
    bag, kept in arrival order); `out`: the calls of `output.write`, each object written named by its priority; `runs` (ghost):
    the value of `processes` at every execution of a collector loop -/
structure St where
  processes : List Proc
  seq_batch : List Item
  priority_counter : Nat
  p_queue : List Nat
  runs : List (List Proc)
  out : List Nat
deriving DecidableEq, Repr

def minOf : Nat → List Nat → Nat
  | m, [] => m
  | m, x :: xs => minOf (if x < m then x else m) xs

/-- `PriorityQueue.get()`: the smallest entry and the queue without it (`none`: the queue is empty, the call blocks for ever) -/
def pqGet : List Nat → Option (Nat × List Nat)
  | [] => none
  | x :: xs => some (minOf x xs, (x :: xs).erase (minOf x xs))

"""


def gen_realign_batch():
    try:
        return _gen_realign_batch()
    except (Untranslatable, SyntaxError, OSError, KeyError, IndexError):
        raise
    except Exception as e:  # a shape the translator did not foresee is never an alarm
        raise Untranslatable("translator: %s: %s" % (type(e).__name__, e))


def _gen_realign_batch():
    _, src = src_of("gaftools/cli/realign.py")
    mod = ast.parse(src)
    fn = find_func(mod, "realign_gaf")
    wk = find_func(mod, "wfa_alignment")
    params = [a.arg for a in fn.args.args]
    for need in ("output", "cores"):
        if need not in params:
            raise Untranslatable("realign_gaf has no parameter %s" % need)

    def is_doc(st):
        return isinstance(st, ast.Expr) and isinstance(st.value, ast.Constant)

    def names_in(e):
        return {n.id for n in ast.walk(e) if isinstance(n, ast.Name)}

    # -- the class of the objects put on the queues: ordered dataclass, the first field is the sort key
    cls = _only([n for n in mod.body if isinstance(n, ast.ClassDef) and n.name == "PriorityAlignment"], "class PriorityAlignment")
    deco = [ast.unparse(d) for d in cls.decorator_list]
    if deco != ["dataclass(order=True)"]:
        raise Untranslatable("PriorityAlignment is not an ordered dataclass: %s" % deco)
    fields = [st.target.id for st in cls.body if isinstance(st, ast.AnnAssign) and isinstance(st.target, ast.Name)]
    if len(fields) != 2:
        raise Untranslatable("fields of PriorityAlignment: %s" % fields)
    key_field, text_field = fields

    def ctor_key(call):
        """the expression given to the sort key in `PriorityAlignment(...)`"""
        if not (isinstance(call, ast.Call) and ast.unparse(call.func) == "PriorityAlignment"):
            raise Untranslatable("not a PriorityAlignment: %s" % ast.unparse(call)[:60])
        got = dict(zip(fields, call.args))
        for kw in call.keywords:
            got[kw.arg] = kw.value
        if set(got) != set(fields):
            raise Untranslatable("arguments of PriorityAlignment")
        return got[key_field]

    # -- the statements of realign_gaf: before the loop over the records, the loop, after it
    body = [st for st in fn.body if not is_doc(st)]
    loop = _only([st for st in body if isinstance(st, ast.For)], "top-level for loop of realign_gaf")
    if not (isinstance(loop.target, ast.Name) and ast.unparse(loop.iter).endswith(".read_file()") and not loop.orelse):
        raise Untranslatable("loop over the records: %s" % ast.unparse(loop.iter))
    rec = loop.target.id
    at = body.index(loop)
    pre, post = body[:at], body[at + 1:]
    STATE = ("processes", "seq_batch", "priority_counter", "p_queue")
    INTS = ("batch_size", "cores")
    derived = set()             # locals of one iteration that are computed from the record alone
    lets = {}                   # integer locals introduced by an assignment: name -> lean name
    collectors = {}             # the collector loops: line -> (initial value of n_sentinels, inside the loop over the records)
    proc_ctors = set()

    def val(e):
        """integer-valued expressions (Lean type Int)"""
        u = ast.unparse(e)
        if isinstance(e, ast.Name) and (e.id in INTS or e.id in lets):
            return e.id
        if isinstance(e, ast.Constant) and isinstance(e.value, int) and not isinstance(e.value, bool):
            return "(%d : Int)" % e.value
        if isinstance(e, ast.Call) and ast.unparse(e.func) == "len" and len(e.args) == 1 and not e.keywords:
            a = ast.unparse(e.args[0])
            if a in ("seq_batch", "processes"):
                return "(σ.%s.length : Int)" % a
            if a == "p_queue.queue":
                return "(σ.p_queue.length : Int)"
        if isinstance(e, ast.BinOp) and type(e.op) in (ast.Add, ast.Sub):
            return "(%s %s %s)" % (val(e.left), "+" if isinstance(e.op, ast.Add) else "-", val(e.right))
        raise Untranslatable("realign_gaf value: %s" % u[:70])

    def cond(e):
        if isinstance(e, ast.BoolOp):
            return "(" + (" && " if isinstance(e.op, ast.And) else " || ").join(cond(x) for x in e.values) + ")"
        if isinstance(e, ast.UnaryOp) and isinstance(e.op, ast.Not):
            return "(!%s)" % cond(e.operand)
        if isinstance(e, ast.Name) and e.id in ("seq_batch", "processes"):
            return "(!σ.%s.isEmpty)" % e.id
        if isinstance(e, ast.Compare) and len(e.ops) == 1:
            l, r, t = val(e.left), val(e.comparators[0]), type(e.ops[0])
            if t is ast.NotEq:
                return "(%s != %s)" % (l, r)
            if t is ast.Eq:
                return "(%s == %s)" % (l, r)
            op = {ast.Lt: "<", ast.Gt: ">", ast.LtE: "≤", ast.GtE: "≥"}.get(t)
            if op:
                return "decide (%s %s %s)" % (l, op, r)
        raise Untranslatable("realign_gaf test: %s" % ast.unparse(e)[:70])

    def skip_call(u):
        return (u.startswith("logger.") or u.startswith("logging.") or u.startswith("step_timer.") or u.startswith("tracemalloc.")
                or u in ("gaf_file.close", "fastafile.close", "print"))

    def proc_of(e):
        """mp.Process(target=wfa_alignment, args=(<batch>, align_queue))"""
        if not (isinstance(e, ast.Call) and ast.unparse(e.func) in ("mp.Process", "multiprocessing.Process", "Process") and not e.args):
            raise Untranslatable("appended to processes: %s" % ast.unparse(e)[:60])
        kw = {k.arg: k.value for k in e.keywords}
        if set(kw) != {"target", "args"} or ast.unparse(kw["target"]) != wk.name:
            raise Untranslatable("Process keywords: %s" % sorted(map(str, kw)))
        a = kw["args"]
        if not (isinstance(a, ast.Tuple) and [ast.unparse(x) for x in a.elts] == ["seq_batch", "align_queue"] and len(wk.args.args) == 2):
            raise Untranslatable("Process args: %s" % ast.unparse(a))
        proc_ctors.add(e.lineno)
        return "(⟨σ.seq_batch, false⟩ : Proc)"

    tuple_shape = {}

    def item_of(e):
        """the tuple appended to seq_batch: the record, things computed from the record alone, the priority counter"""
        if not isinstance(e, ast.Tuple):
            raise Untranslatable("appended to seq_batch: %s" % ast.unparse(e)[:60])
        kinds = []
        for x in e.elts:
            if isinstance(x, ast.Name) and x.id == rec:
                kinds.append("rec")
            elif isinstance(x, ast.Name) and x.id == "priority_counter":
                kinds.append("prio")
            elif isinstance(x, ast.Name) and x.id in derived:
                kinds.append("data")
            else:
                raise Untranslatable("component of the batch tuple: %s" % ast.unparse(x)[:60])
        if [k for k in kinds if k != "data"] != ["rec", "prio"]:
            raise Untranslatable("batch tuple is not (record, …, priority): %s" % kinds)
        tuple_shape[e.lineno] = kinds
        return "(%s, σ.priority_counter)" % rec

    def has_continue(stmts):
        for x in stmts:
            if isinstance(x, ast.Continue):
                return True
            if isinstance(x, ast.If) and (has_continue(x.body) or has_continue(x.orelse)):
                return True
        return False

    def ex(stmts, ind, in_loop, top_loop):
        pad = " " * ind
        if not stmts:
            return pad + "σ"
        st, rest = stmts[0], stmts[1:]
        u = ast.unparse(st)

        def upd(text):
            return "%slet σ : St := { σ with %s }\n%s" % (pad, text, ex(rest, ind, in_loop, top_loop))
        if is_doc(st) or isinstance(st, ast.Pass):
            return ex(rest, ind, in_loop, top_loop)
        if isinstance(st, ast.Continue):
            if not in_loop:
                raise Untranslatable("continue outside a loop")
            return pad + "σ"
        if isinstance(st, ast.If):
            s0 = dict(lets)

            def branch(b, i):
                lets.clear()
                lets.update(s0)
                try:
                    return ex(b, i, in_loop, top_loop)
                finally:
                    lets.clear()
                    lets.update(s0)
            c = cond(st.test)
            if has_continue(st.body) or has_continue(st.orelse):       # the rest of the iteration belongs to the branches
                return "%sif %s then\n%s\n%selse\n%s" % (pad, c, branch(st.body + rest, ind + 2), pad, branch(st.orelse + rest, ind + 2))
            return "%slet σ : St :=\n%s  if %s then\n%s\n%s  else\n%s\n%s" % (pad, pad, c, branch(st.body, ind + 4), pad, branch(st.orelse, ind + 4),
                                                                           ex(rest, ind, in_loop, top_loop))
        if isinstance(st, ast.For) and not st.orelse and isinstance(st.target, ast.Name):
            v = st.target.id
            if ast.unparse(st.iter) == "processes" and len(st.body) == 1:
                b = ast.unparse(st.body[0])
                if b == "%s.start()" % v:
                    return upd("processes := σ.processes.map (fun p => { p with started := true })")
                if b == "%s.join()" % v:
                    return ex(rest, ind, in_loop, top_loop)
            if (isinstance(st.iter, ast.Call) and ast.unparse(st.iter.func) == "range" and len(st.iter.args) == 1 and not st.iter.keywords
                    and v not in names_in(ast.Module(body=st.body, type_ignores=[]))):
                s0 = dict(lets)
                inner = ex(st.body, ind + 4, True, False)
                lets.clear()
                lets.update(s0)
                return "%slet σ : St := (List.range (%s).toNat).foldl (fun (σ : St) _ =>\n%s) σ\n%s" % (
                    pad, val(st.iter.args[0]), inner, ex(rest, ind, in_loop, top_loop))
            raise Untranslatable("for loop: %s" % u[:70])
        if isinstance(st, ast.Assign) and len(st.targets) == 1 and isinstance(st.targets[0], ast.Name):
            t, v = st.targets[0].id, st.value
            if t in ("processes", "seq_batch") and isinstance(v, ast.List) and not v.elts:
                return upd("%s := []" % t)
            if t == "p_queue" and ast.unparse(v) in ("queue.PriorityQueue()", "PriorityQueue()"):
                return upd("p_queue := []")
            if t == "align_queue" and ast.unparse(v) in ("mp.Queue()", "multiprocessing.Queue()"):
                return ex(rest, ind, in_loop, top_loop)            # a fresh, empty queue: `init` of the model has `chan := []`
            if t == "priority_counter" and isinstance(v, ast.Constant) and isinstance(v.value, int) and not isinstance(v.value, bool) and v.value >= 0:
                return upd("priority_counter := %d" % v.value)
            if t == "n_sentinels" and isinstance(v, ast.Constant) and isinstance(v.value, int) and not isinstance(v.value, bool) and v.value >= 0:
                # n_sentinels = 0 / while n_sentinels != len(processes): …   — the collector loop, tied in Gen/Collector.lean
                if not (rest and isinstance(rest[0], ast.While)):
                    raise Untranslatable("n_sentinels is not set just before the collector loop")
                w = rest[0]
                wu = ast.unparse(w)
                if not ({"n_sentinels", "processes"} <= names_in(w.test) and "align_queue.get(" in wu and "p_queue.put(" in wu and not w.orelse):
                    raise Untranslatable("shape of the collector loop")
                collectors[w.lineno] = (v.value, top_loop)
                return ("%slet σ : St := { σ with p_queue := σ.p_queue ++ coll σ.runs.length σ.processes, runs := σ.runs ++ [σ.processes] }\n%s"
                        % (pad, ex(rest[1:], ind, in_loop, top_loop)))
            if t in STATE or t in INTS or t == "n_sentinels" or t == rec:
                raise Untranslatable("assignment: %s" % u[:70])
            if isinstance(v, ast.Call) and ast.unparse(v.func) == "len":
                text = val(v)
                lets[t] = t
                return "%slet %s : Int := %s\n%s" % (pad, t, text, ex(rest, ind, in_loop, top_loop))
            if top_loop and not (names_in(v) & (set(STATE) | set(INTS) | {"n_sentinels", "align_queue", "output"})):
                derived.add(t)                                      # data of the record (sequence of the path, of the read, …)
                return ex(rest, ind, in_loop, top_loop)
            raise Untranslatable("assignment: %s" % u[:70])
        if isinstance(st, ast.AugAssign) and isinstance(st.target, ast.Name) and st.target.id == "priority_counter" and isinstance(st.op, ast.Add) \
                and isinstance(st.value, ast.Constant) and isinstance(st.value.value, int) and not isinstance(st.value.value, bool) and st.value.value >= 0:
            return upd("priority_counter := σ.priority_counter + %d" % st.value.value)
        if isinstance(st, ast.Expr) and isinstance(st.value, ast.Call):
            c = st.value
            f = ast.unparse(c.func)
            if skip_call(f):
                return ex(rest, ind, in_loop, top_loop)
            if f == "seq_batch.append" and len(c.args) == 1 and not c.keywords and top_loop:
                return upd("seq_batch := σ.seq_batch ++ [%s]" % item_of(c.args[0]))
            if f == "processes.append" and len(c.args) == 1 and not c.keywords:
                return upd("processes := σ.processes ++ [%s]" % proc_of(c.args[0]))
            if f == "output.write" and len(c.args) == 1 and not c.keywords:
                a = c.args[0]
                if isinstance(a, ast.Attribute) and a.attr == text_field and ast.unparse(a.value) == "p_queue.get()":
                    return ("%smatch pqGet σ.p_queue with\n%s| none => σ\n%s| some r =>\n%s  let σ : St := { σ with p_queue := r.2 }\n"
                            "%s  let σ : St := { σ with out := σ.out ++ [r.1] }\n%s" % (pad, pad, pad, pad, pad, ex(rest, ind + 2, in_loop, top_loop)))
        raise Untranslatable("realign_gaf statement: %s" % u[:70])

    # -- before the loop: the initial values, the batch size (a constant, replaced under the verification hook)
    init_lines, batch_default, hook, seen = [], None, None, set()
    for st in pre:
        u = ast.unparse(st)
        if isinstance(st, ast.Assign) and len(st.targets) == 1 and isinstance(st.targets[0], ast.Name) and st.targets[0].id == "batch_size":
            if not (isinstance(st.value, ast.Constant) and isinstance(st.value.value, int) and not isinstance(st.value.value, bool)) or batch_default is not None:
                raise Untranslatable("batch_size: %s" % u)
            batch_default = st.value.value
            continue
        if isinstance(st, ast.If) and "batch_size" in names_in(st):
            m = re.fullmatch(r"if os\.environ\.get\('GAFTOOLS_VERIF'\) == '1':\n    batch_size = int\(os\.environ\.get\('(\w+)', batch_size\)\)", u)
            if not m or hook is not None or batch_default is None:
                raise Untranslatable("batch_size: %s" % u[:80])
            hook = m.group(1)
            continue
        if isinstance(st, ast.Assign) and len(st.targets) == 1 and isinstance(st.targets[0], ast.Name) and st.targets[0].id not in STATE + ("align_queue",):
            if names_in(st.value) & (set(STATE) | {"batch_size", "cores", "output", "align_queue"}):
                raise Untranslatable("before the loop: %s" % u[:70])
            continue                                                # fastafile, step_timer, graph_obj, gaf_file: opened / loaded
        t = ex([st], 2, False, False)
        if isinstance(st, ast.Assign):
            seen.add(st.targets[0].id)
        if t.strip() != "σ":
            init_lines.append(t.rsplit("\n", 1)[0])
    if batch_default is None:
        raise Untranslatable("batch_size is not set before the loop")
    if not {"processes", "seq_batch", "priority_counter"} <= seen:
        raise Untranslatable("not initialised before the loop: %s" % sorted({"processes", "seq_batch", "priority_counter"} - seen))
    if hook:
        bs = "  let batch_size : Int := %d\n  if verif then\n    let batch_size : Int := env.getD batch_size\n    batch_size\n  else\n    batch_size" % batch_default
    else:
        bs = "  let batch_size : Int := %d\n  batch_size" % batch_default
    lets.clear()
    step = ex(loop.body, 2, True, True)
    lets.clear()
    left = ex(post, 2, False, False)
    collectors = [collectors[k] for k in sorted(collectors)]
    if [c[1] for c in collectors] != [True, False]:
        raise Untranslatable("collector loops: expected one in the loop over the records and one after it, found %s" % collectors)
    if len(proc_ctors) != 2 or len(tuple_shape) != 1:
        raise Untranslatable("expected one append to seq_batch and two to processes")
    kinds = list(tuple_shape.values())[0]

    # -- the worker: what it puts on the queue for a batch
    wb = [st for st in wk.body if not is_doc(st)]
    wparams = [a.arg for a in wk.args.args]
    if not (len(wb) == 2 and isinstance(wb[0], ast.For) and ast.unparse(wb[0].iter) == wparams[0] and isinstance(wb[0].target, ast.Tuple)
            and all(isinstance(x, ast.Name) for x in wb[0].target.elts) and not wb[0].orelse):
        raise Untranslatable("wfa_alignment is not `for <tuple> in <batch>: …` + one statement")
    unpack = [x.id for x in wb[0].target.elts]
    if len(unpack) != len(kinds):
        raise Untranslatable("the worker unpacks %d components, the batch tuple has %d" % (len(unpack), len(kinds)))
    qu = wparams[1]
    nconds = [0]
    key_kinds = set()

    def is_put(st):
        return isinstance(st, ast.Expr) and isinstance(st.value, ast.Call) and ast.unparse(st.value.func) == "%s.put" % qu

    def has_put(node):
        return any(isinstance(n, ast.Call) and ast.unparse(n.func).startswith(qu + ".") for n in ast.walk(node))

    def msg(e):
        if isinstance(e, ast.Constant) and e.value is None:
            return "Msg.sentinel"
        k = ctor_key(e)
        if not (isinstance(k, ast.Name) and k.id in unpack):
            raise Untranslatable("priority of a result: %s" % ast.unparse(k)[:60])
        if any(isinstance(n, (ast.Assign, ast.AugAssign)) and k.id in names_in(n.target if isinstance(n, ast.AugAssign) else ast.Tuple(elts=n.targets))
               for n in ast.walk(wb[0])):
            raise Untranslatable("the worker assigns to %s" % k.id)
        if any(isinstance(n, ast.For) and n is not wb[0] and k.id in names_in(n.target) for n in ast.walk(wb[0])):
            raise Untranslatable("the worker rebinds %s" % k.id)
        kind = kinds[unpack.index(k.id)]
        if kind == "data":
            raise Untranslatable("priority of a result is a datum of the record")
        key_kinds.add(kind)
        return "Msg.item (workerPrio t)"

    def puts(stmts):
        parts = []
        for st in stmts:
            if is_put(st):
                c = st.value
                if len(c.args) != 1 or c.keywords:
                    raise Untranslatable("put: %s" % ast.unparse(st)[:60])
                parts.append("[%s]" % msg(c.args[0]))
            elif isinstance(st, ast.If) and has_put(st):
                i = nconds[0]
                nconds[0] += 1
                parts.append("(if conds %d then %s else %s)" % (i, puts(st.body), puts(st.orelse)))
            elif isinstance(st, (ast.Continue, ast.Break, ast.Return, ast.Raise, ast.Try, ast.With)):
                raise Untranslatable("control flow in the worker: %s" % ast.unparse(st)[:40])
            elif has_put(st):
                raise Untranslatable("a put inside %s" % type(st).__name__)
            elif isinstance(st, ast.If):
                for n in ast.walk(st):
                    if isinstance(n, (ast.Continue, ast.Break, ast.Return, ast.Raise)):
                        raise Untranslatable("control flow in the worker")
        return " ++ ".join(parts) if parts else "[]"
    per_item = puts(wb[0].body)
    tail = puts(wb[1:])
    if len(key_kinds) != 1:
        raise Untranslatable("the results of the worker take their priority from %s" % sorted(key_kinds))
    prio_comp = {"rec": "t.1", "prio": "t.2"}[key_kinds.pop()]
    out = _RB_HEADER % ("generated by harness/translate.py from gaftools/cli/realign.py : realign_gaf without its two collector loops (those are\n"
                        "    `Gen/Collector.lean`), statement by statement, and what `wfa_alignment` puts on the queue — do not edit")
    out += ("/-- `batch_size` at the loop over the records; `verif`: the verification hook is on, `env`: the integer in its variable -/\n"
            "def batchSize (verif : Bool) (env : Option Int) : Int :=\n%s\n\n" % bs)
    out += ("/-- the variables before the first record -/\ndef initSt : St :=\n"
            "  let σ : St := { processes := [], seq_batch := [], priority_counter := 0, p_queue := [], runs := [], out := [] }\n%s\n  σ\n\n"
            % "\n".join(init_lines))
    for (v, top), tag in zip(collectors, ("Main", "Left")):
        out += "/-- `n_sentinels` on entry of the %s collector loop -/\ndef collectorInit%s : Nat := %d\n\n" % (
            {"Main": "in-loop", "Left": "leftover"}[tag], tag, v)
    out += ("/-- the body of `for %s in gaf_file.read_file()`; `coll k ps`: what the `k`-th execution of a collector loop, run on the\n"
            "    processes `ps`, puts into `p_queue` (in arrival order) -/\n"
            "def recStep (batch_size cores : Int) (coll : Nat → List Proc → List Nat) (σ : St) (%s : Nat) : St :=\n%s\n\n" % (rec, rec, step))
    out += ("/-- the statements after the loop: the leftover batch, the leftover round -/\n"
            "def leftover (batch_size cores : Int) (coll : Nat → List Proc → List Nat) (σ : St) : St :=\n%s\n\n" % left)
    out += ("/-- `realign_gaf` on the records `lines` -/\n"
            "def realignGaf (batch_size cores : Int) (coll : Nat → List Proc → List Nat) (lines : List Nat) : St :=\n"
            "  leftover batch_size cores coll (lines.foldl (recStep batch_size cores coll) initSt)\n\n")
    out += ("/-- the component of a batch element that `wfa_alignment` gives to `PriorityAlignment` as `%s` -/\n"
            "def workerPrio (t : Item) : Nat := %s\n\n" % (key_field, prio_comp))
    out += ("/-- what `wfa_alignment` puts on the queue for one element of its batch (`conds i`: the outcome of the `i`-th test on the way) -/\n"
            "def workerPuts (conds : Nat → Bool) (t : Item) : List Msg :=\n  %s\n\n" % per_item)
    out += "/-- … and after the last element -/\ndef workerTail : List Msg := %s\n\n" % tail
    out += ("/-- everything a worker puts, in order -/\n"
            "def workerTodo (conds : Item → Nat → Bool) (batch : List Item) : List Msg :=\n"
            "  batch.flatMap (fun t => workerPuts (conds t) t) ++ workerTail\n"
            "end Gaftools.Gen.RealignBatch\n")
    return out


GENERATORS["RealignBatch"] = gen_realign_batch


# ---------------------------------------------------------------------------------------------------------
# realign.wfa_alignment (the worker) statement by statement, and the statements of realign_gaf that build a batch entry (C12, C11)

_RW_REC = {"query_name": ("qname", "Str"), "query_length": ("qlen", "Nat"), "query_start": ("qs", "Nat"), "query_end": ("qe", "Nat"),
           "strand": ("strand", "Str"), "path": ("path", "Str"), "path_length": ("plen", "Nat"), "path_start": ("ps", "Nat"),
           "path_end": ("pe", "Nat"), "residue_matches": ("nmatch", "Nat"), "alignment_block_length": ("blen", "Nat"),
           "mapping_quality": ("mapq", "Nat"), "tags": ("tags", "Dict"), "cigar": ("cigar", "Str"), "is_primary": ("isPrimary", "Bool")}
_RW_LEAN_T = {"Nat": "Nat", "Int": "Int", "Str": "Str", "Bool": "Bool", "Rec": "Rec", "Dict": "List (Str × Str)", "Wfa": "Wfa",
              "Tuples": "List (Nat × Nat)", "Puts": "List Put", "Put": "Put", "Batch": "List (Rec × Str × Str × Nat)",
              "Entry": "Rec × Str × Str × Nat"}
_RW_ELEM = {"Tuples": ("Nat × Nat", ["Nat", "Nat"]), "Batch": ("Rec × Str × Str × Nat", ["Rec", "Str", "Str", "Nat"])}

_RW_PRELUDE = '''import Gaftools.Model.Cigar
/-! %s -/
set_option linter.unusedVariables false
namespace Gaftools.Gen.Realign
open Gaftools.Gaf

/-- what the foreign aligner hands back for (pattern, text, clip_cigar): `res.cigartuples` (operation code, length) and
    `aligner.cigarstring` -/
structure Wfa where
  cigartuples : List (Nat × Nat)
  cigarstring : Str

/-- `f"{i}"` / `str(i)` of an integer -/
def decI (i : Int) : Str := if i < 0 then '-' :: dec i.natAbs else dec i.toNat
/-- `s.replace(a, b)` for single characters -/
def replaceChar (a b : Char) (s : Str) : Str := s.map (fun c => if c == a then b else c)
/-- `s[a:b]` for non-negative bounds -/
def rwSlice (s : Str) (a b : Nat) : Str := (s.drop a).take (b - a)
/-- what is handed to `qu.put`: `PriorityAlignment(priority, seq)` or `None` -/
abbrev Put := Option (Nat × Str)

'''


class _RwTr:
    """typed statement-by-statement translation: locals are `let`-bound (`v_<name>`), a `for` loop is a fold of a generated step
    function over the variables it carries, `assert False` is `none`"""

    def __init__(self, prefix):
        self.prefix = prefix
        self.defs = []          # generated top-level definitions, in dependency order
        self.def_index = {}     # text of a step function without its name -> name (identical loops share one definition)
        self.names = set()
        self.pin = {}           # first loop target -> variables carried even when the body does not rebind them

    # ---- expressions -----------------------------------------------------------------------------------------
    @staticmethod
    def v(name):
        return "v_" + name

    def to_str(self, lean, t):
        if t == "Str":
            return lean
        if t == "Nat":
            return "(dec %s)" % lean
        if t == "Int":
            return "(decI %s)" % lean
        raise Untranslatable("str() of a %s" % (t,))

    def to_int(self, lean, t):
        if t == "Int":
            return lean
        if t == "Nat":
            return "(%s : Int)" % lean
        raise Untranslatable("a %s where a number is expected" % (t,))

    def read(self, name, env):
        if name not in env:
            raise Untranslatable("name %s read before it is assigned" % name)
        t = env[name]
        if isinstance(t, tuple):
            raise Untranslatable("the object %s used as a value" % name)
        self.reads.add(name)
        return self.v(name), t

    def expr(self, e, env):
        if isinstance(e, ast.Constant):
            if isinstance(e.value, bool):
                return ("true" if e.value else "false"), "Bool"
            if isinstance(e.value, int):
                return "(%d : Int)" % e.value, "Int"
            if isinstance(e.value, str):
                return "(%s : Str)" % _chars(e.value), "Str"
            if e.value is None:
                return "(none : Put)", "Put"
            raise Untranslatable("constant %r" % (e.value,))
        if isinstance(e, ast.Name):
            return self.read(e.id, env)
        if isinstance(e, ast.JoinedStr):
            parts = []
            for p in e.values:
                if isinstance(p, ast.Constant) and isinstance(p.value, str):
                    parts.append("(%s : Str)" % _chars(p.value))
                elif isinstance(p, ast.FormattedValue) and p.conversion == -1 and p.format_spec is None:
                    parts.append(self.to_str(*self.expr(p.value, env)))
                else:
                    raise Untranslatable("f-string piece %s" % ast.dump(p)[:60])
            if not parts:
                return "([] : Str)", "Str"
            return "(" + " ++ ".join(parts) + ")", "Str"
        if isinstance(e, ast.Attribute) and isinstance(e.value, ast.Name):
            t = env.get(e.value.id)
            if t == "Rec" and e.attr in _RW_REC:
                self.reads.add(e.value.id)
                return "%s.%s" % (self.v(e.value.id), _RW_REC[e.attr][0]), _RW_REC[e.attr][1]
            if t == "Wfa" and e.attr == "cigartuples":
                self.reads.add(e.value.id)
                return "%s.cigartuples" % self.v(e.value.id), "Tuples"
            if isinstance(t, tuple) and t[0] == "Aligner" and e.attr == "cigarstring":
                if t[2] is None:
                    raise Untranslatable("%s.cigarstring before the aligner has been called" % e.value.id)
                return "%s.cigarstring" % t[2], "Str"
            raise Untranslatable("attribute %s" % ast.unparse(e))
        if isinstance(e, ast.Subscript):
            u = ast.unparse(e)
            if u in self.items:
                return self.items[u], "Str"
            if isinstance(e.slice, ast.Slice) and e.slice.step is None and e.slice.lower is not None and e.slice.upper is not None:
                s, ts = self.expr(e.value, env)
                a, ta = self.expr(e.slice.lower, env)
                b, tb = self.expr(e.slice.upper, env)
                if (ts, ta, tb) == ("Str", "Nat", "Nat"):
                    return "(rwSlice %s %s %s)" % (s, a, b), "Str"
            raise Untranslatable("subscript %s" % u)
        if isinstance(e, ast.BinOp) and type(e.op) in (ast.Add, ast.Sub):
            l, tl = self.expr(e.left, env)
            r, tr = self.expr(e.right, env)
            if isinstance(e.op, ast.Add) and tl == "Str" and tr == "Str":
                return "(%s ++ %s)" % (l, r), "Str"
            if isinstance(e.op, ast.Add) and tl == "Nat" and tr == "Nat":
                return "(%s + %s)" % (l, r), "Nat"
            return "(%s %s %s)" % (self.to_int(l, tl), "+" if isinstance(e.op, ast.Add) else "-", self.to_int(r, tr)), "Int"
        if isinstance(e, ast.Compare) and len(e.ops) == 1:
            l, tl = self.expr(e.left, env)
            r, tr = self.expr(e.comparators[0], env)
            t = type(e.ops[0])
            if tl == "Str" and tr == "Str" and t in (ast.Eq, ast.NotEq):
                return ("(%s == %s)" if t is ast.Eq else "(%s != %s)") % (l, r), "Bool"
            l, r = self.to_int(l, tl), self.to_int(r, tr)
            if t in (ast.Eq, ast.NotEq):
                return ("(%s == %s)" if t is ast.Eq else "(%s != %s)") % (l, r), "Bool"
            op = {ast.Lt: "<", ast.Gt: ">", ast.LtE: "≤", ast.GtE: "≥"}.get(t)
            if op:
                return "decide (%s %s %s)" % (l, op, r), "Bool"
        if isinstance(e, ast.BoolOp):
            vs = [self.expr(x, env) for x in e.values]
            if all(t == "Bool" for _, t in vs):
                return "(" + (" && " if isinstance(e.op, ast.And) else " || ").join(x for x, _ in vs) + ")", "Bool"
        if isinstance(e, ast.UnaryOp) and isinstance(e.op, ast.Not):
            x, t = self.expr(e.operand, env)
            if t == "Bool":
                return "(!%s)" % x, "Bool"
        if isinstance(e, ast.Call) and not any(k.arg is None for k in e.keywords):
            f = ast.unparse(e.func)
            if f == "str" and len(e.args) == 1 and not e.keywords:
                return self.to_str(*self.expr(e.args[0], env)), "Str"
            if f == "len" and len(e.args) == 1 and not e.keywords:
                x, t = self.expr(e.args[0], env)
                if t == "Str":
                    return "%s.length" % x, "Nat"
            if isinstance(e.func, ast.Attribute) and e.func.attr == "replace" and len(e.args) == 2 and not e.keywords:
                a, b = e.args
                if (isinstance(a, ast.Constant) and isinstance(b, ast.Constant) and isinstance(a.value, str) and isinstance(b.value, str)
                        and len(a.value) == 1 and len(b.value) == 1):
                    s, t = self.expr(e.func.value, env)
                    if t == "Str":
                        return "(replaceChar %s %s %s)" % (_chars(a.value)[1:-1], _chars(b.value)[1:-1], s), "Str"
            if f == self.put_class and len(e.args) == 2 and not e.keywords:
                p, tp = self.expr(e.args[0], env)
                s, ts = self.expr(e.args[1], env)
                if (tp, ts) == ("Nat", "Str"):
                    return "(some (%s, %s) : Put)" % (p, s), "Put"
            if isinstance(e.func, ast.Attribute) and e.func.attr in self.foreign and not e.keywords:
                lean_f, targs, tres = self.foreign[e.func.attr]
                args = [self.expr(a, env) for a in e.args]
                if [t for _, t in args] == targs:
                    self.used_foreign.add(e.func.attr)
                    return "(%s %s)" % (lean_f, " ".join(x for x, _ in args)), tres
        raise Untranslatable("expression %s" % ast.unparse(e)[:80])

    # ---- statements ------------------------------------------------------------------------------------------
    @staticmethod
    def assigned(stmts):
        """names (re)bound by the statements, in order of first appearance; a method call / item assignment that changes an object
        counts as a rebinding of its variable"""
        out = []

        def add(n):
            if n not in out:
                out.append(n)

        def target(t):
            if isinstance(t, ast.Name):
                add(t.id)
            elif isinstance(t, (ast.Tuple, ast.List)):
                for x in t.elts:
                    target(x)
            elif isinstance(t, (ast.Subscript, ast.Attribute)):
                r = t
                while isinstance(r, (ast.Subscript, ast.Attribute)):
                    r = r.value
                if not isinstance(r, ast.Name):
                    raise Untranslatable("assignment target %s" % ast.unparse(t))
                add(r.id)
            else:
                raise Untranslatable("assignment target %s" % ast.unparse(t))

        def walk(ss):
            for s in ss:
                if isinstance(s, ast.Assign):
                    for t in s.targets:
                        target(t)
                elif isinstance(s, (ast.AugAssign, ast.AnnAssign)):
                    target(s.target)
                elif isinstance(s, ast.For):
                    target(s.target)
                    walk(s.body)
                    walk(s.orelse)
                elif isinstance(s, ast.If):
                    walk(s.body)
                    walk(s.orelse)
                elif isinstance(s, ast.Expr) and isinstance(s.value, ast.Call) and isinstance(s.value.func, ast.Attribute):
                    r = s.value.func.value
                    while isinstance(r, (ast.Subscript, ast.Attribute)):
                        r = r.value
                    if isinstance(r, ast.Name):
                        add(r.id)
                elif isinstance(s, (ast.Assert, ast.Pass)) or (isinstance(s, ast.Expr) and isinstance(s.value, ast.Constant)):
                    pass
                else:
                    raise Untranslatable("statement %s" % ast.unparse(s)[:60])
        walk(stmts)
        return out

    @staticmethod
    def can_fail(stmts):
        return any(isinstance(n, (ast.Assert, ast.Raise)) for s in stmts for n in ast.walk(s))

    def let(self, pad, name, t, value, rest):
        return "%slet %s : %s := %s\n%s" % (pad, self.v(name), _RW_LEAN_T[t], value, rest)

    def block(self, stmts, env, ind, result, fallible):
        """`result(env)` is the value of the block when control reaches its end"""
        pad = " " * ind
        if not stmts:
            r = result(env)
            return pad + ("some %s" % r if fallible else r)
        st, rest = stmts[0], stmts[1:]
        env = dict(env)

        def go():
            return self.block(rest, env, ind, result, fallible)
        if isinstance(st, ast.Expr) and isinstance(st.value, ast.Constant):
            return go()
        if isinstance(st, ast.Pass):
            return go()
        if isinstance(st, ast.Assert):
            if isinstance(st.test, ast.Constant) and st.test.value is False:
                return pad + "none"
            c, t = self.expr(st.test, env)
            if t != "Bool":
                raise Untranslatable("assert %s" % ast.unparse(st.test))
            return "%sif %s then\n%s\n%selse\n%s  none" % (pad, c, self.block(rest, env, ind + 2, result, fallible), pad, pad)
        if isinstance(st, ast.If):
            c, t = self.expr(st.test, env)
            if t != "Bool":
                raise Untranslatable("test %s" % ast.unparse(st.test))
            return "%sif %s then\n%s\n%selse\n%s" % (pad, c, self.block(st.body + rest, env, ind + 2, result, fallible), pad,
                                                  self.block(st.orelse + rest, env, ind + 2, result, fallible))
        if isinstance(st, ast.Assign) and len(st.targets) == 1:
            tg = st.targets[0]
            if isinstance(tg, ast.Tuple) and isinstance(st.value, ast.Tuple) and len(tg.elts) == len(st.value.elts) and all(isinstance(x, ast.Name) for x in tg.elts):
                names = [x.id for x in tg.elts]
                if len(set(names)) != len(names) or any(isinstance(n, ast.Name) and n.id in names for v in st.value.elts for n in ast.walk(v)):
                    raise Untranslatable("parallel assignment %s" % ast.unparse(st)[:60])
                seq = [ast.Assign(targets=[x], value=v) for x, v in zip(tg.elts, st.value.elts)]
                return self.block(seq + rest, env, ind, result, fallible)
            if isinstance(tg, ast.Name):
                val = st.value
                # the two foreign calls: constructing the aligner (remembers the pattern), calling it (the result object)
                if isinstance(val, ast.Call) and ast.unparse(val.func) == self.aligner_class:
                    if len(val.args) != 1 or val.keywords:
                        raise Untranslatable("arguments of %s" % ast.unparse(val)[:60])
                    p, tp = self.expr(val.args[0], env)
                    if tp != "Str":
                        raise Untranslatable("pattern of the aligner")
                    env[tg.id] = ("Aligner", p, None)
                    return go()
                if isinstance(val, ast.Call) and isinstance(val.func, ast.Name) and isinstance(env.get(val.func.id), tuple):
                    al = env[val.func.id]
                    kws = {k.arg: k.value for k in val.keywords}
                    if len(val.args) != 1 or set(kws) != {"clip_cigar"} or not (isinstance(kws["clip_cigar"], ast.Constant) and isinstance(kws["clip_cigar"].value, bool)):
                        raise Untranslatable("arguments of the aligner call %s" % ast.unparse(val)[:60])
                    q, tq = self.expr(val.args[0], env)
                    if tq != "Str":
                        raise Untranslatable("text of the aligner call")
                    w = "w_" + val.func.id
                    env[val.func.id] = ("Aligner", al[1], w)
                    env[tg.id] = "Wfa"
                    self.used_foreign.add("wfa")
                    return "%slet %s : Wfa := wfa %s %s %s\n%s" % (pad, w, al[1], q, "true" if kws["clip_cigar"].value else "false",
                                                                 self.let(pad, tg.id, "Wfa", w, go()))
                x, t = self.expr(val, env)
                if t not in _RW_LEAN_T or t in ("Put",):
                    raise Untranslatable("assignment of a %s" % (t,))
                env[tg.id] = t
                return self.let(pad, tg.id, t, x, go())
            if (isinstance(tg, ast.Subscript) and isinstance(tg.value, ast.Attribute) and isinstance(tg.value.value, ast.Name)
                    and env.get(tg.value.value.id) == "Rec" and tg.value.attr == "tags"):
                k, tk = self.expr(tg.slice, env)
                x, tx = self.expr(st.value, env)
                if (tk, tx) != ("Str", "Str"):
                    raise Untranslatable("tag assignment %s" % ast.unparse(st)[:60])
                r = tg.value.value.id
                self.reads.add(r)
                return self.let(pad, r, "Rec", "{ %s with tags := dictSet %s.tags %s %s }" % (self.v(r), self.v(r), k, x), go())
        if isinstance(st, ast.AugAssign) and isinstance(st.target, ast.Name) and type(st.op) in (ast.Add, ast.Sub):
            x, t = self.expr(ast.BinOp(left=ast.Name(id=st.target.id, ctx=ast.Load()), op=st.op, right=st.value), env)
            if t != env.get(st.target.id):
                raise Untranslatable("%s changes the type of %s" % (ast.unparse(st)[:40], st.target.id))
            return self.let(pad, st.target.id, t, x, go())
        if (isinstance(st, ast.Expr) and isinstance(st.value, ast.Call) and isinstance(st.value.func, ast.Attribute) and st.value.func.attr == "put"
                and isinstance(st.value.func.value, ast.Name) and env.get(st.value.func.value.id) == "Puts" and len(st.value.args) == 1 and not st.value.keywords):
            x, t = self.expr(st.value.args[0], env)
            if t != "Put":
                raise Untranslatable("put of a %s" % (t,))
            q = st.value.func.value.id
            self.reads.add(q)
            return self.let(pad, q, "Puts", "%s ++ [%s]" % (self.v(q), x), go())
        if isinstance(st, ast.For) and not st.orelse:
            return self.for_loop(st, rest, env, ind, result, fallible)
        raise Untranslatable("statement %s" % ast.unparse(st)[:70])

    def for_loop(self, st, rest, env, ind, result, fallible):
        pad = " " * ind
        # -- what is iterated, and the names an element is unpacked into
        it = st.iter
        items = {}
        if (isinstance(it, ast.Call) and isinstance(it.func, ast.Attribute) and it.func.attr == "keys" and not it.args and not it.keywords):
            d, td = self.expr(it.func.value, env)
            if td != "Dict" or not isinstance(st.target, ast.Name):
                raise Untranslatable("loop over %s" % ast.unparse(it))
            elem_t, binds = "Str × Str", [(st.target.id, "Str", "x.1")]
            items[ast.unparse(ast.Subscript(value=it.func.value, slice=ast.Name(id=st.target.id, ctx=ast.Load()), ctx=ast.Load()))] = "x.2"
            frozen = {st.target.id} | {n.id for n in ast.walk(it) if isinstance(n, ast.Name)}
            iter_lean = d
        else:
            d, td = self.expr(it, env)
            if td not in _RW_ELEM:
                raise Untranslatable("loop over %s" % ast.unparse(it))
            elem_t, ts = _RW_ELEM[td]
            if not (isinstance(st.target, ast.Tuple) and len(st.target.elts) == len(ts) and all(isinstance(x, ast.Name) for x in st.target.elts)):
                raise Untranslatable("loop target %s" % ast.unparse(st.target))
            proj = ["x.1", "x.2"] if len(ts) == 2 else ["x.1"] + ["x." + "2." * i + "1" for i in range(1, len(ts) - 1)] + ["x." + "2." * (len(ts) - 2) + "2"]
            binds = [(x.id, t, p) for x, t, p in zip(st.target.elts, ts, proj)]
            frozen = {n.id for n in ast.walk(it) if isinstance(n, ast.Name)}
            iter_lean = d
        body_assigned = self.assigned(st.body)
        if items and frozen & set(body_assigned):
            raise Untranslatable("the loop over %s changes what it iterates" % ast.unparse(it))
        # the variables the loop carries, in the order they were first assigned: those its body rebinds, and those the theorems are
        # stated about when they are in scope (a body that no longer updates one of them is a change of logic, not of shape)
        pinned = self.pin.get(binds[0][0], [])
        carried = [n for n in env if (n in body_assigned or (n in pinned and not isinstance(env[n], tuple))) and n not in [b[0] for b in binds]]
        if not carried or any(isinstance(env[n], tuple) for n in carried):
            raise Untranslatable("variables carried by the loop over %s" % ast.unparse(it))
        body_fallible = self.can_fail(st.body)
        if body_fallible and not fallible:
            raise Untranslatable("a loop that can fail in a context that cannot")
        tag = binds[0][0]
        st_name = "%sSt_%s" % (self.prefix[0].upper() + self.prefix[1:], tag)
        # -- the step function: carried variables in, element unpacked, body, carried variables out
        inner_env = {n: env[n] for n in env}
        for n, t, _ in binds:
            inner_env[n] = t
        saved_reads, saved_items = self.reads, self.items
        self.reads, self.items = set(), dict(saved_items, **items)
        if len(carried) == 1:
            res = lambda en: self.v(carried[0])   # noqa: E731
            state_t = _RW_LEAN_T[env[carried[0]]]
        else:
            res = lambda en: "(⟨%s⟩ : %s)" % (", ".join(self.v(n) for n in carried), st_name)   # noqa: E731
            state_t = st_name

        def checked(en):
            for n in carried:
                if en.get(n) != env[n]:
                    raise Untranslatable("the loop changes the type of %s" % n)
            return res(en)
        body = self.block(st.body, inner_env, 2, checked, body_fallible)
        body_reads = self.reads
        self.reads, self.items = saved_reads, saved_items
        free = sorted(n for n in body_reads if n in env and n not in carried and n not in [b[0] for b in binds])
        for n in free:
            if isinstance(env[n], tuple):
                raise Untranslatable("the object %s used inside a loop" % n)
        self.reads |= set(free) | set(carried)
        used = [f for f in sorted(self.used_foreign) if re.search(r"\b%s\b" % self.foreign_lean(f), body)]
        foreign_params = "".join(" " + self.foreign_sig[f] for f in used)
        foreign_args = "".join(" " + self.foreign_lean(f) for f in used)
        head = ""
        if len(carried) == 1:
            state_param = "(%s : %s)" % (self.v(carried[0]), state_t)
        else:
            state_param = "(s : %s)" % st_name
            for n in carried:
                head += "  let %s : %s := s.%s\n" % (self.v(n), _RW_LEAN_T[env[n]], self.v(n))
        for n, t, p in binds:
            head += "  let %s : %s := %s\n" % (self.v(n), _RW_LEAN_T[t], p)
        sig = "%s%s %s (x : %s) : %s :=\n%s%s\n" % (
            foreign_params, "".join(" (%s : %s)" % (self.v(n), _RW_LEAN_T[env[n]]) for n in free), state_param, elem_t,
            ("Option (%s)" % state_t if body_fallible else state_t), head, body)
        struct = ""
        if len(carried) > 1:
            struct = "structure %s where\n%s" % (st_name, "".join("  %s : %s\n" % (self.v(n), _RW_LEAN_T[env[n]]) for n in carried))
        key = (struct, sig)
        if key in self.def_index:
            fname = self.def_index[key]
        else:
            fname = "%sFor_%s" % (self.prefix, tag)
            while fname in self.names:
                fname += "'"
            if struct and st_name in self.names:
                raise Untranslatable("two different loops over %s" % tag)
            self.names.add(fname)
            self.names.add(st_name)
            self.def_index[key] = fname
            doc = "/-- the body of `for %s in %s` -/\n" % (ast.unparse(st.target), ast.unparse(it))
            self.defs.append((("/-- the variables carried by `for %s in %s` -/\n" % (ast.unparse(st.target), ast.unparse(it)) + struct + "\n") if struct else "")
                             + doc + "def " + fname + sig)
        # -- the loop itself
        call = "(%s%s%s)" % (fname, foreign_args, "".join(" " + self.v(n) for n in free)) if (free or foreign_args) else fname
        init = self.v(carried[0]) if len(carried) == 1 else "(⟨%s⟩ : %s)" % (", ".join(self.v(n) for n in carried), st_name)
        after_env = {n: t for n, t in env.items()}
        tail = self.block(rest, after_env, ind, result, fallible)
        if body_fallible:
            out = "%smatch %s.foldlM %s %s with\n%s| none => none\n%s| some s =>\n" % (pad, iter_lean, call, init, pad, pad)
            unpack = [(n, "s" if len(carried) == 1 else "s.%s" % self.v(n)) for n in carried]
        else:
            out = "%slet s : %s := %s.foldl %s %s\n" % (pad, state_t, iter_lean, call, init)
            unpack = [(n, "s" if len(carried) == 1 else "s.%s" % self.v(n)) for n in carried]
        for n, src in unpack:
            out += "%slet %s : %s := %s\n" % (pad, self.v(n), _RW_LEAN_T[env[n]], src)
        return out + tail

    def foreign_lean(self, f):
        return "wfa" if f == "wfa" else self.foreign[f][0]


def _rw_nodoc(stmts):
    return [s for s in stmts if not (isinstance(s, ast.Expr) and isinstance(s.value, ast.Constant))]


def _gen_realign_worker():
    _, src = src_of("gaftools/cli/realign.py")
    mod = ast.parse(src)
    # -- the message class: PriorityAlignment(priority, seq), in that order
    cls = _only([n for n in mod.body if isinstance(n, ast.ClassDef) and n.name == "PriorityAlignment"], "class PriorityAlignment")
    fields = [(s.target.id, ast.unparse(s.annotation)) for s in cls.body if isinstance(s, ast.AnnAssign) and isinstance(s.target, ast.Name)]
    if fields != [("priority", "int"), ("seq", "str")]:
        raise Untranslatable("fields of PriorityAlignment: %s" % fields)
    imports = [ast.unparse(n) for n in mod.body if isinstance(n, ast.ImportFrom) and any(a.name == "WavefrontAligner" for a in n.names)]
    if imports != ["from pywfa.align import WavefrontAligner"]:
        raise Untranslatable("where WavefrontAligner comes from: %s" % imports)

    # -- realign_gaf: what a batch entry is made of (this also fixes the types of the worker's parameters)
    rg = find_func(mod, "realign_gaf")
    appends = [n for n in ast.walk(rg) if isinstance(n, ast.Call) and ast.unparse(n.func) == "seq_batch.append"]
    app = _only(appends, "seq_batch.append in realign_gaf")
    loop = _only([n for n in ast.walk(rg) if isinstance(n, ast.For) and any(isinstance(s, ast.Expr) and s.value is app for s in n.body)],
                 "the loop that fills the batch")
    if not (isinstance(loop.target, ast.Name) and ast.unparse(loop.iter).endswith(".read_file()")):
        raise Untranslatable("the loop that fills the batch: %s" % ast.unparse(loop.iter))
    rec = loop.target.id
    reader = ast.unparse(loop.iter)[:-len(".read_file()")]
    made = [ast.unparse(s.value) for s in ast.walk(rg) if isinstance(s, ast.Assign) and ast.unparse(s.targets[0]) == reader]
    if made != ["GAF(gaf)"]:
        raise Untranslatable("the reader of the records: %s" % made)
    pos = [i for i, s in enumerate(loop.body) if isinstance(s, ast.Expr) and s.value is app][0]
    if not (len(app.args) == 1 and isinstance(app.args[0], ast.Tuple) and len(app.args[0].elts) == 4 and all(isinstance(x, ast.Name) for x in app.args[0].elts)):
        raise Untranslatable("batch entry %s" % ast.unparse(app))
    counter = app.args[0].elts[3].id
    inits = [s for s in rg.body if isinstance(s, ast.Assign) and ast.unparse(s.targets[0]) == counter]
    if [ast.unparse(s.value) for s in inits] != ["0"]:
        raise Untranslatable("initial value of %s" % counter)
    bumps = [ast.unparse(s) for s in ast.walk(rg) if isinstance(s, (ast.AugAssign, ast.Assign)) and counter in [n.id for n in ast.walk(s) if isinstance(n, ast.Name) and isinstance(n.ctx, ast.Store)] and s not in inits]
    if bumps != ["%s += 1" % counter] or ast.unparse(loop.body[pos + 1]) != bumps[0]:
        raise Untranslatable("how %s is counted: %s" % (counter, bumps))
    bt = _RwTr("batch")
    bt.put_class, bt.aligner_class = "PriorityAlignment", "WavefrontAligner"
    bt.foreign = {"extract_path": ("extractPath", ["Str"], "Str"), "fetch": ("fetch", ["Str", "Nat", "Nat"], "Str")}
    bt.foreign_sig = {}
    bt.used_foreign, bt.reads, bt.items = set(), set(), {}
    entry_t = {}

    def entry(en):
        parts = []
        for x in app.args[0].elts:
            l, t = bt.expr(x, en)
            parts.append((l, t))
        if [t for _, t in parts] != ["Rec", "Str", "Str", "Nat"]:
            raise Untranslatable("types of the batch entry: %s" % [t for _, t in parts])
        entry_t["ok"] = True
        return "(%s)" % ", ".join(l for l, _ in parts)
    entry_body = bt.block(loop.body[:pos], {rec: "Rec", counter: "Nat"}, 2, entry, False)
    if bt.used_foreign != {"extract_path", "fetch"} or bt.defs:
        raise Untranslatable("what the batch entry is computed from: %s" % sorted(bt.used_foreign))
    # the objects the two foreign methods are called on
    objs = {}
    for n in ast.walk(ast.Module(body=loop.body[:pos], type_ignores=[])):
        if isinstance(n, ast.Call) and isinstance(n.func, ast.Attribute) and n.func.attr in bt.foreign:
            objs[n.func.attr] = ast.unparse(n.func.value)
    for meth, ctor in (("extract_path", "GFA(graph)"), ("fetch", "pysam.FastaFile(fasta)")):
        made = [ast.unparse(s.value) for s in rg.body if isinstance(s, ast.Assign) and ast.unparse(s.targets[0]) == objs.get(meth)]
        if made != [ctor]:
            raise Untranslatable("the object %s is called on: %s" % (meth, made))
    # -- every Process runs the worker on (the batch, the queue)
    procs = [n for n in ast.walk(rg) if isinstance(n, ast.Call) and ast.unparse(n.func) == "mp.Process"]
    if not procs:
        raise Untranslatable("no mp.Process in realign_gaf")
    for p in procs:
        kw = {k.arg: ast.unparse(k.value) for k in p.keywords}
        if p.args or kw.get("target") != "wfa_alignment" or set(kw) != {"target", "args"}:
            raise Untranslatable("mp.Process call %s" % ast.unparse(p)[:80])
        a = [k.value for k in p.keywords if k.arg == "args"][0]
        if not (isinstance(a, ast.Tuple) and len(a.elts) == 2 and ast.unparse(a.elts[0]) == "seq_batch"):
            raise Untranslatable("arguments of the worker: %s" % ast.unparse(a))
        qname = ast.unparse(a.elts[1])
        qmade = {ast.unparse(s.value) for s in ast.walk(rg) if isinstance(s, ast.Assign) and ast.unparse(s.targets[0]) == qname}
        if qmade != {"mp.Queue()"}:
            raise Untranslatable("the queue handed to the worker: %s" % sorted(qmade))

    # -- the worker
    fn = find_func(mod, "wfa_alignment")
    params = [a.arg for a in fn.args.args]
    if len(params) != 2 or fn.args.vararg or fn.args.kwarg or fn.args.kwonlyargs or fn.args.defaults:
        raise Untranslatable("parameters of wfa_alignment")
    wt = _RwTr("worker")
    wt.put_class, wt.aligner_class = "PriorityAlignment", "WavefrontAligner"
    wt.foreign, wt.foreign_sig = {}, {"wfa": "(wfa : Str → Str → Bool → Wfa)"}
    wt.used_foreign, wt.reads, wt.items = set(), set(), {}
    wt.pin = _RW_PINNED
    body = _rw_nodoc(fn.body)
    fallible = wt.can_fail(body)
    text = wt.block(body, {params[0]: "Batch", params[1]: "Puts"}, 2, lambda en: wt.v(params[1]), fallible)
    if wt.used_foreign != {"wfa"}:
        raise Untranslatable("the worker does not call the aligner")
    res_t = "Option (List Put)" if fallible else "List Put"
    rest = _rw_assemble(wt, bt, params, res_t, text, rec, reader, counter, entry_body)
    # -- the theorems of Props/TieA19.lean are stated about these names and types: anything else is outside the tie
    iface = _rw_interface(rest)
    if iface != _RW_INTERFACE:
        raise Untranslatable("the translated definitions do not have the names / types the theorems are stated about: %s" %
                             ([ln for ln in iface if ln not in _RW_INTERFACE] + [ln for ln in _RW_INTERFACE if ln not in iface])[:3])
    return (_RW_PRELUDE % ("generated by harness/translate.py from gaftools/cli/realign.py : wfa_alignment statement by statement (locals are `let`-bound,\n"
                           "    a `for` loop is a fold of its body over the variables it carries, `assert False` is `none`, the queue is the list of the objects\n"
                           "    `put` so far, the foreign aligner is the parameter `wfa`), and the statements of realign_gaf that make a batch entry — do not edit")
            + rest)


def _rw_interface(text):
    """the signature lines of the generated definitions: `def … :=`, `structure … where` and the fields of the structures"""
    return [ln for ln in text.split("\n")
            if ln.startswith(("def ", "structure ")) or re.fullmatch(r"  v_\w+ : [^=]*", ln)]


_RW_PINNED = {"op_type": ["match", "mismatch", "cigar_len", "ins", "deletion", "soft_clip", "cigar"], "k": ["out_string"], "gaf_line": ["qu"]}
_RW_INTERFACE = [
    "def workerFor_k (v_out_string : Str) (x : Str × Str) : Str :=",
    "structure WorkerSt_op_type where",
    "  v_match : Int",
    "  v_mismatch : Int",
    "  v_cigar_len : Int",
    "  v_ins : Int",
    "  v_deletion : Int",
    "  v_soft_clip : Int",
    "  v_cigar : Str",
    "def workerFor_op_type (s : WorkerSt_op_type) (x : Nat × Nat) : Option (WorkerSt_op_type) :=",
    "def workerFor_gaf_line (wfa : Str → Str → Bool → Wfa) (v_qu : List Put) (x : Rec × Str × Str × Nat) : Option (List Put) :=",
    "def worker (wfa : Str → Str → Bool → Wfa) (v_seq_batch : List (Rec × Str × Str × Nat)) (v_qu : List Put) : Option (List Put) :=",
    "def batchEntry (extractPath : Str → Str) (fetch : Str → Nat → Nat → Str) (v_line : Rec) (v_priority_counter : Nat) : Rec × Str × Str × Nat :=",
]


def _rw_assemble(wt, bt, params, res_t, text, rec, reader, counter, entry_body):
    return ("\n".join(wt.defs) + "\n"
            + "/-- `wfa_alignment(%s, %s)`: the queue after the call (`none`: an assertion failed) -/\n" % (params[0], params[1])
            + "def worker (wfa : Str → Str → Bool → Wfa) (%s : List (Rec × Str × Str × Nat)) (%s : List Put) : %s :=\n" % (wt.v(params[0]), wt.v(params[1]), res_t)
            + text + "\n\n"
            + "/-- realign_gaf, for one record `%s` of `%s.read_file()` at count `%s`: the entry appended to the batch (the count is then increased by one);\n" % (rec, reader, counter)
            + "    `extractPath` = `GFA(graph).extract_path`, `fetch` = `pysam.FastaFile(fasta).fetch` -/\n"
            + "def batchEntry (extractPath : Str → Str) (fetch : Str → Nat → Nat → Str) (%s : Rec) (%s : Nat) : Rec × Str × Str × Nat :=\n" % (bt.v(rec), bt.v(counter))
            + entry_body + "\n"
            + "end Gaftools.Gen.Realign\n")


def gen_realign_worker():
    try:
        return _gen_realign_worker()
    except (Untranslatable, SyntaxError, OSError, KeyError, IndexError):
        raise
    except Exception as e:  # a shape the translator did not foresee is never an alarm
        raise Untranslatable("translator: %s: %s" % (type(e).__name__, e))


GENERATORS["RealignWorker"] = gen_realign_worker


# ---------------------------------------------------------------------------------------------------------
# The command-line layer: gaftools/__main__.py main (the two top-level options, the loop that builds one sub-parser per module of
# gaftools/cli, and everything after `parse_args`), gaftools/args.py HelpfulArgumentParser.error (the exit status), and of every module
# of gaftools/cli its `add_arguments` (one `ArgDecl` per `add_argument` call, keyword by keyword), its `validate` (test by test) and its
# `main` (the function it calls, the way the keyword arguments are passed, that function's parameters)
CLIARGS_PRELUDE = r'''/-! %s -/
set_option linter.unusedVariables false
namespace Gaftools.Gen.CliArgs

/-- a Python value that can sit in the `argparse.Namespace` -/
inductive PyV where
  | none
  | str (s : String)
  | int (i : Int)
  | bool (b : Bool)
  | list (l : List String)
  | stdoutObject                    -- `sys.stdout`
  | moduleObj (name : String)       -- the imported module `gaftools.cli.<name>`
  | parserObj (name : String)       -- the sub-parser made for that module
  deriving DecidableEq, Repr

/-- `bool(v)` -/
def PyV.truthy : PyV → Bool
  | .none => false
  | .str s => s != ""
  | .int i => i != 0
  | .bool b => b
  | .list l => !l.isEmpty
  | .stdoutObject => true
  | .moduleObj _ => true
  | .parserObj _ => true

/-- the attributes of a namespace, in the order in which they were set (`vars(args)`) -/
abbrev Ns := List (String × PyV)

/-- one `add_argument(...)` call, keyword by keyword (`help`, `metavar`, `version` only change texts and are dropped);
    `none` = the keyword is not given -/
structure ArgDecl where
  flags : List String
  dest : Option String := none
  default : Option PyV := none
  action : Option String := none
  nargs : Option String := none
  type : Option String := none
  required : Option Bool := none
  deriving DecidableEq, Repr

/-- raising operations: `.error exc` -/
abbrev M := Except String

/-- `args.<k>` -/
def attr (ns : Ns) (k : String) : M PyV :=
  match ns.find? (fun e => e.1 == k) with
  | some e => .ok e.2
  | none => .error "AttributeError"

def truthyM (v : M PyV) : M Bool := v.map PyV.truthy
/-- `a and b` as a test: `b` is looked at only when `a` is true -/
def andM (a b : M Bool) : M Bool := a >>= fun x => if x then b else pure false
def orM (a b : M Bool) : M Bool := a >>= fun x => if x then pure true else b
def notM (a : M Bool) : M Bool := a.map (fun x => !x)
/-- `v in [l₀, l₁, …]` -/
def inM (v : M PyV) (l : List PyV) : M Bool := v.map (fun x => l.contains x)
def eqM (v w : M PyV) : M Bool := v >>= fun x => w.map (fun y => x == y)
def isNoneM (v : M PyV) : M Bool := v.map (fun x => x == .none)

/-- how a `validate(args, parser)` ends: `.ok none` it returns, `.ok (some msg)` it calls `parser.error(msg)` (which does not
    come back), `.error exc` it raises -/
abbrev VRes := M (Option String)
def ifM (c : M Bool) (t e : VRes) : VRes := c >>= fun x => if x then t else e

/-- what `__main__.main` learns of a module of `gaftools/cli` -/
structure Module where
  name : String
  arguments : List ArgDecl                -- `add_arguments(parser)`
  validate : Option (Ns → VRes)           -- `none`: the module has no `validate`
  entry : String                          -- `main(args)` is `<entry>(**vars(args))`
  entryParams : List (String × Bool)      -- the parameters of `<entry>` (name, has a default)

/-- something that holds a module or a parser: `args.<a>` or the local variable `x` -/
inductive Ref where
  | attr (a : String)
  | loc (x : String)
  deriving DecidableEq, Repr

/-- the statements of `__main__.main` after `parse_args` -/
inductive Step where
  | readAttr (a : String)                              -- `f(args.<a>)` for a helper `f` of `__main__` (the logging set-up)
  | requireAttr (a msg : String)                       -- `if not hasattr(args, "<a>"): parser.error(msg)` `else:` what follows
  | bind (x a : String)                                -- `<x> = args.<a>`
  | ifHas (m : Ref) (fn : String) (body : List Step)   -- `if hasattr(<m>, "<fn>"):` body
  | callMethod (m : Ref) (fn : String) (parser : Ref)  -- `<m>.<fn>(args, <parser>)`
  | del (a : String)                                   -- `del args.<a>`
  | callMain (m : Ref) (exc : String) (status : Nat)   -- `try: <m>.main(args)` `except <exc>: … sys.exit(status)`

/-- how `__main__.main` ends -/
inductive Outcome where
  | usage (msg : String)                                             -- `parser.error(msg)`
  | raised (exc : String)                                            -- an exception nobody catches
  | call (fn : String) (kwargs : Ns) (exc : String) (status : Nat)   -- the entry point `fn(**kwargs)` runs; `exc` from it ends the process with `status`
  | returned                                                         -- `main` returns without having called an entry point
  deriving DecidableEq, Repr

structure Env where
  args : Ns
  locals : Ns

def Env.ref (e : Env) : Ref → M PyV
  | .attr a => attr e.args a
  | .loc x => match e.locals.find? (fun p => p.1 == x) with
      | some p => .ok p.2
      | none => .error "UnboundLocalError"

def moduleOf (mods : List Module) : PyV → Option Module
  | .moduleObj n => mods.find? (fun m => m.name == n)
  | _ => none

/-- `hasattr(<module>, fn)` for the three functions `__main__` knows of -/
def Module.has (m : Module) (fn : String) : Bool :=
  fn == "add_arguments" || fn == "main" || (fn == "validate" && m.validate.isSome)

mutual
/-- one statement: `.ok env` goes on, `.error o` the process (or `main`) ends with `o` -/
def runStep (pkg : String) (mods : List Module) : Step → Env → Except Outcome Env
  | .readAttr a, e => match attr e.args a with
      | .ok _ => .ok e
      | .error x => .error (.raised x)
  | .requireAttr a msg, e => if e.args.any (fun p => p.1 == a) then .ok e else .error (.usage msg)
  | .bind x a, e => match attr e.args a with
      | .ok v => .ok { e with locals := (x, v) :: e.locals.filter (fun p => p.1 != x) }
      | .error x => .error (.raised x)
  | .ifHas m fn body, e => match e.ref m with
      | .error x => .error (.raised x)
      | .ok v => match moduleOf mods v with
          | none => .error (.raised "AttributeError")
          | some md => if md.has fn then runSteps pkg mods body e else .ok e
  | .callMethod m fn parser, e => match e.ref m, e.ref parser with
      | .ok v, .ok (.parserObj _) => match moduleOf mods v with
          | none => .error (.raised "AttributeError")
          | some md =>
            if fn == "validate" then
              match md.validate with
              | none => .error (.raised "AttributeError")
              | some f => match f e.args with
                  | .ok none => .ok e
                  | .ok (some msg) => .error (.usage msg)
                  | .error x => .error (.raised x)
            else .error (.raised "AttributeError")
      | .error x, _ => .error (.raised x)
      | _, .error x => .error (.raised x)
      | _, _ => .error (.raised "AttributeError")
  | .del a, e => if e.args.any (fun p => p.1 == a) then .ok { e with args := e.args.filter (fun p => p.1 != a) }
                 else .error (.raised "AttributeError")
  | .callMain m exc status, e => match e.ref m with
      | .error x => .error (.raised x)
      | .ok v => match moduleOf mods v with
          | none => .error (.raised "AttributeError")
          | some md => .error (.call (pkg ++ "." ++ md.name ++ "." ++ md.entry) e.args exc status)
def runSteps (pkg : String) (mods : List Module) : List Step → Env → Except Outcome Env
  | [], e => .ok e
  | s :: rest, e => match runStep pkg mods s e with
      | .ok e' => runSteps pkg mods rest e'
      | .error o => .error o
end
'''


def _ca_str(s):
    if not isinstance(s, str):
        raise Untranslatable("string expected, got %r" % (s,))
    out = []
    for c in s:
        if c == '"':
            out.append('\\"')
        elif c == "\\":
            out.append("\\\\")
        elif c == "\t":
            out.append("\\t")
        elif c == "\n":
            out.append("\\n")
        elif 32 <= ord(c) < 127:
            out.append(c)
        else:
            raise Untranslatable("character %r in a string constant" % c)
    return '"%s"' % "".join(out)


def _ca_nodoc(stmts):
    return [s for s in stmts if not (isinstance(s, ast.Expr) and isinstance(s.value, ast.Constant) and isinstance(s.value.value, str))]


def _ca_plain_params(fn, n=None):
    a = fn.args
    if a.posonlyargs or a.vararg or a.kwarg or a.kwonlyargs:
        raise Untranslatable("%s: parameter kinds" % fn.name)
    names = [x.arg for x in a.args]
    if n is not None and (len(names) != n or a.defaults):
        raise Untranslatable("%s: %d plain parameters expected" % (fn.name, n))
    return names


def _ca_imports(mod):
    """name -> what it is bound to by the module-level imports ('sys', 'gaftools.cli', ('.args', 'HelpfulArgumentParser'), …)"""
    env = {}
    for n in mod.body:
        if isinstance(n, ast.Import):
            for al in n.names:
                env[al.asname or al.name.split(".")[0]] = al.name if al.asname else al.name.split(".")[0]
        elif isinstance(n, ast.ImportFrom):
            for al in n.names:
                env[al.asname or al.name] = ("." * n.level + (n.module or ""), al.name)
    return env


def _ca_lit(e, imports):
    """a value that may be stored in the namespace (a `default=`), or compared with, as a `PyV`"""
    if isinstance(e, ast.Constant):
        v = e.value
        if v is None:
            return ".none"
        if isinstance(v, bool):
            return ".bool %s" % ("true" if v else "false")
        if isinstance(v, int):
            return ".int (%d)" % v
        if isinstance(v, str):
            return ".str %s" % _ca_str(v)
        raise Untranslatable("constant %r" % (v,))
    if isinstance(e, ast.List):
        items = []
        for x in e.elts:
            if not (isinstance(x, ast.Constant) and isinstance(x.value, str)):
                raise Untranslatable("list element %s" % ast.dump(x))
            items.append(_ca_str(x.value))
        return ".list [%s]" % ", ".join(items)
    if (isinstance(e, ast.Attribute) and isinstance(e.value, ast.Name) and imports.get(e.value.id) == "sys" and e.attr == "stdout"):
        return ".stdoutObject"
    raise Untranslatable("value %s" % ast.dump(e)[:80])


_CA_TEXT_ONLY = {"help", "metavar", "version"}


def _ca_decl(call, imports):
    if not call.args:
        raise Untranslatable("add_argument without a name")
    flags = []
    for a in call.args:
        if not (isinstance(a, ast.Constant) and isinstance(a.value, str) and a.value):
            raise Untranslatable("add_argument name %s" % ast.dump(a)[:60])
        flags.append(a.value)
    dashed = [f.startswith("-") for f in flags]
    if not (all(dashed) or (len(flags) == 1 and not dashed[0])):
        raise Untranslatable("add_argument names %r" % (flags,))   # argparse itself refuses this
    fields = ["flags := [%s]" % ", ".join(_ca_str(f) for f in flags)]
    seen = set()
    for kw in call.keywords:
        k = kw.arg
        if k is None or k in seen:
            raise Untranslatable("add_argument keyword")
        seen.add(k)
        v = kw.value
        if k in _CA_TEXT_ONLY:
            continue
        if k == "dest":
            if not (isinstance(v, ast.Constant) and isinstance(v.value, str)):
                raise Untranslatable("dest=%s" % ast.dump(v)[:60])
            fields.append("dest := some %s" % _ca_str(v.value))
        elif k == "default":
            fields.append("default := some (%s)" % _ca_lit(v, imports))
        elif k == "action":
            if not (isinstance(v, ast.Constant) and isinstance(v.value, str)):
                raise Untranslatable("action=%s" % ast.dump(v)[:60])
            fields.append("action := some %s" % _ca_str(v.value))
        elif k == "nargs":
            if not (isinstance(v, ast.Constant) and isinstance(v.value, (int, str)) and not isinstance(v.value, bool)):
                raise Untranslatable("nargs=%s" % ast.dump(v)[:60])
            fields.append("nargs := some %s" % _ca_str(str(v.value)))
        elif k == "type":
            if not (isinstance(v, ast.Name) and v.id in ("int", "str", "float") and v.id not in imports):
                raise Untranslatable("type=%s" % ast.dump(v)[:60])
            fields.append("type := some %s" % _ca_str(v.id))
        elif k == "required":
            if not (isinstance(v, ast.Constant) and isinstance(v.value, bool)):
                raise Untranslatable("required=%s" % ast.dump(v)[:60])
            fields.append("required := some %s" % ("true" if v.value else "false"))
        else:
            raise Untranslatable("add_argument keyword %s" % k)      # choices, const, …: meaning not modelled
    return "{ " + ", ".join(fields) + " }"


def _ca_add_argument_calls(stmts, parser, imports, where):
    """the `add_argument` calls among `stmts` (directly on `parser` or through an alias `x = parser.add_argument`), in order;
    any other statement is refused"""
    aliases = set()
    decls = []
    for st in stmts:
        if (isinstance(st, ast.Assign) and len(st.targets) == 1 and isinstance(st.targets[0], ast.Name)
                and isinstance(st.value, ast.Attribute) and isinstance(st.value.value, ast.Name)
                and st.value.value.id == parser and st.value.attr == "add_argument" and st.targets[0].id != parser):
            aliases.add(st.targets[0].id)
            continue
        if isinstance(st, ast.Expr) and isinstance(st.value, ast.Call):
            f = st.value.func
            if ((isinstance(f, ast.Name) and f.id in aliases)
                    or (isinstance(f, ast.Attribute) and isinstance(f.value, ast.Name) and f.value.id == parser and f.attr == "add_argument")):
                decls.append(_ca_decl(st.value, imports))
                continue
        if isinstance(st, ast.Pass):
            continue
        raise Untranslatable("%s: statement %s" % (where, ast.unparse(st)[:70]))
    return decls


class _CaValidate:
    """`validate(args, parser)`: tests on attributes of `args`, `parser.error(msg)`, `return`"""

    def __init__(self, fn, imports):
        self.args, self.parser = _ca_plain_params(fn, 2)
        self.imports = imports
        self.fn = fn

    def value(self, e):
        if isinstance(e, ast.Attribute) and isinstance(e.value, ast.Name) and e.value.id == self.args:
            return "(attr ns %s)" % _ca_str(e.attr)
        if isinstance(e, (ast.Constant, ast.List)):
            return "(pure (%s))" % _ca_lit(e, self.imports)
        raise Untranslatable("validate: value %s" % ast.unparse(e)[:70])

    def test(self, e):
        if isinstance(e, ast.BoolOp):
            f = "andM" if isinstance(e.op, ast.And) else "orM"
            out = self.test(e.values[-1])
            for v in reversed(e.values[:-1]):
                out = "(%s %s %s)" % (f, self.test(v), out)
            return out
        if isinstance(e, ast.UnaryOp) and isinstance(e.op, ast.Not):
            return "(notM %s)" % self.test(e.operand)
        if isinstance(e, ast.Compare) and len(e.ops) == 1:
            op, r = e.ops[0], e.comparators[0]
            if isinstance(op, (ast.In, ast.NotIn)) and isinstance(r, (ast.List, ast.Tuple, ast.Set)):
                t = "(inM %s [%s])" % (self.value(e.left), ", ".join(_ca_lit(x, self.imports) for x in r.elts))
                return t if isinstance(op, ast.In) else "(notM %s)" % t
            if isinstance(op, (ast.Is, ast.IsNot)) and isinstance(r, ast.Constant) and r.value is None:
                t = "(isNoneM %s)" % self.value(e.left)
                return t if isinstance(op, ast.Is) else "(notM %s)" % t
            if isinstance(op, (ast.Eq, ast.NotEq)):
                t = "(eqM %s %s)" % (self.value(e.left), self.value(r))
                return t if isinstance(op, ast.Eq) else "(notM %s)" % t
            raise Untranslatable("validate: comparison %s" % ast.unparse(e)[:70])
        if isinstance(e, ast.Constant) and isinstance(e.value, bool):
            return "(pure %s)" % ("true" if e.value else "false")
        return "(truthyM %s)" % self.value(e)

    def block(self, stmts, ind):
        pad = " " * ind
        if not stmts:
            return pad + "(.ok none)"
        st, rest = stmts[0], stmts[1:]
        if isinstance(st, ast.Pass):
            return self.block(rest, ind)
        if isinstance(st, ast.Return):
            if st.value is not None and not isinstance(st.value, ast.Constant):
                raise Untranslatable("validate: return %s" % ast.unparse(st.value)[:60])
            return pad + "(.ok none)"        # the value is not looked at by `__main__`
        if (isinstance(st, ast.Expr) and isinstance(st.value, ast.Call) and isinstance(st.value.func, ast.Attribute)
                and isinstance(st.value.func.value, ast.Name) and st.value.func.value.id == self.parser
                and st.value.func.attr == "error" and len(st.value.args) == 1 and not st.value.keywords
                and isinstance(st.value.args[0], ast.Constant) and isinstance(st.value.args[0].value, str)):
            return pad + "(.ok (some %s))" % _ca_str(st.value.args[0].value)     # `error` does not come back
        if isinstance(st, ast.If):
            return "%s(ifM %s\n%s\n%s)" % (pad, self.test(st.test), self.block(st.body + rest, ind + 2), self.block(st.orelse + rest, ind + 2))
        raise Untranslatable("validate: statement %s" % ast.unparse(st)[:70])

    def lean(self):
        return self.block(_ca_nodoc(self.fn.body), 2)


def _ca_module_main(mod, fn):
    """`def main(args): f(**vars(args))` -> (f, [(parameter of f, has a default)])"""
    (a,) = _ca_plain_params(fn, 1)
    body = _ca_nodoc(fn.body)
    if len(body) == 1 and isinstance(body[0], ast.Return) and body[0].value is not None:
        call = body[0].value
    elif len(body) == 1 and isinstance(body[0], ast.Expr):
        call = body[0].value
    else:
        raise Untranslatable("main: body")
    if not (isinstance(call, ast.Call) and isinstance(call.func, ast.Name) and not call.args and len(call.keywords) == 1
            and call.keywords[0].arg is None):
        raise Untranslatable("main: %s" % ast.unparse(call)[:70])
    v = call.keywords[0].value
    if not (isinstance(v, ast.Call) and isinstance(v.func, ast.Name) and v.func.id == "vars" and len(v.args) == 1 and not v.keywords
            and isinstance(v.args[0], ast.Name) and v.args[0].id == a):
        raise Untranslatable("main: keyword arguments %s" % ast.unparse(v)[:70])
    entry = find_func(mod, call.func.id)
    ea = entry.args
    if ea.posonlyargs or ea.vararg or ea.kwarg:
        raise Untranslatable("%s: parameter kinds" % entry.name)
    nd = len(ea.args) - len(ea.defaults)
    params = [(x.arg, i >= nd) for i, x in enumerate(ea.args)]
    params += [(x.arg, d is not None) for x, d in zip(ea.kwonlyargs, ea.kw_defaults)]
    return entry.name, params


def _ca_cli_module(name):
    _, src = src_of("gaftools/cli/%s.py" % name)
    mod = ast.parse(src)
    imports = _ca_imports(mod)
    fns = {n.name: n for n in mod.body if isinstance(n, ast.FunctionDef)}
    if len(fns) != len([n for n in mod.body if isinstance(n, ast.FunctionDef)]):
        raise Untranslatable("%s: a function is defined twice" % name)
    for n in mod.body:       # the three names must be plain module-level functions, nothing else may bind them
        if isinstance(n, (ast.Assign, ast.AnnAssign, ast.AugAssign, ast.ClassDef, ast.If, ast.Try, ast.For, ast.While, ast.With)):
            bound = {x.id for x in ast.walk(n) if isinstance(x, ast.Name) and isinstance(x.ctx, ast.Store)}
            if isinstance(n, ast.ClassDef):
                bound = {n.name}
            if bound & {"add_arguments", "validate", "main"}:
                raise Untranslatable("%s: %s bound outside a def" % (name, sorted(bound)))
    for k, v in imports.items():
        if k in ("add_arguments", "validate", "main"):
            raise Untranslatable("%s: %s is imported" % (name, k))
    if "add_arguments" not in fns or "main" not in fns:
        raise Untranslatable("%s: add_arguments / main missing" % name)
    aa = fns["add_arguments"]
    (p,) = _ca_plain_params(aa, 1)
    decls = _ca_add_argument_calls(_ca_nodoc(aa.body), p, imports, "%s.add_arguments" % name)
    val = _CaValidate(fns["validate"], imports).lean() if "validate" in fns else None
    entry, params = _ca_module_main(mod, fns["main"])
    return decls, val, entry, params


def _ca_is(e, text):
    return ast.unparse(e) == text


class _CaMain:
    """`__main__.main`"""

    def __init__(self, mod):
        self.mod = mod
        self.imports = _ca_imports(mod)
        self.fn = find_func(mod, "main")
        self.helpers = {n.name for n in mod.body if isinstance(n, ast.FunctionDef)}
        self.parser = self.subparsers = self.iter = self.args = None
        self.pkg_alias = None
        self.top = []
        self.top_add_help = True
        self.sub_add_help = True
        self.set_defaults = None
        self.loop_seen = False
        a = self.fn.args
        if a.posonlyargs or a.vararg or a.kwarg or a.kwonlyargs or len(a.args) != 1 or len(a.defaults) != 1:
            raise Untranslatable("__main__.main: parameters")
        self.argv = a.args[0].arg
        if not _ca_is(a.defaults[0], "sys.argv[1:]") or self.imports.get("sys") != "sys":
            raise Untranslatable("__main__.main: default of %s" % self.argv)

    # -- before parse_args
    def parser_kwargs(self, call, what):
        add_help = True
        for kw in call.keywords:
            if kw.arg in ("description", "prog", "help", "epilog", "usage"):
                continue
            if kw.arg == "add_help" and isinstance(kw.value, ast.Constant) and isinstance(kw.value.value, bool):
                add_help = kw.value.value
                continue
            raise Untranslatable("%s: keyword %s" % (what, kw.arg))
        return add_help

    def head(self, stmts):
        """consumes the statements up to and including `args = parser.parse_args(argv)`; returns the rest"""
        for i, st in enumerate(stmts):
            if isinstance(st, ast.Expr) and isinstance(st.value, ast.Call) and isinstance(st.value.func, ast.Name) \
                    and st.value.func.id in self.helpers and not st.value.args and not st.value.keywords and self.parser is None:
                continue                                   # `ensure_version()`: outside this layer
            if isinstance(st, ast.Assign) and len(st.targets) == 1 and isinstance(st.targets[0], ast.Name) and isinstance(st.value, ast.Call):
                tgt, call = st.targets[0].id, st.value
                f = ast.unparse(call.func)
                if self.parser is None and isinstance(call.func, ast.Name) and not call.args:
                    if self.imports.get(call.func.id) != (".args", "HelpfulArgumentParser"):
                        raise Untranslatable("__main__.main: the parser is a %s" % f)
                    self.top_add_help = self.parser_kwargs(call, "the top-level parser")
                    self.parser = tgt
                    continue
                if self.parser and f == self.parser + ".add_subparsers" and not call.args and not call.keywords and self.subparsers is None:
                    self.subparsers = tgt
                    continue
                if f == "pkgutil.iter_modules" and self.imports.get("pkgutil") == "pkgutil" and len(call.args) == 1 and not call.keywords \
                        and isinstance(call.args[0], ast.Attribute) and isinstance(call.args[0].value, ast.Name) \
                        and call.args[0].attr == "__path__" and self.imports.get(call.args[0].value.id) == "gaftools.cli" and self.iter is None:
                    self.iter = tgt
                    self.pkg_alias = call.args[0].value.id
                    continue
                if self.parser and f == self.parser + ".parse_args" and len(call.args) == 1 and not call.keywords \
                        and isinstance(call.args[0], ast.Name) and call.args[0].id == self.argv:
                    if not self.loop_seen:
                        raise Untranslatable("__main__.main: parse_args before the sub-parsers are built")
                    self.args = tgt
                    return stmts[i + 1:]
                raise Untranslatable("__main__.main: %s" % ast.unparse(st)[:70])
            if isinstance(st, ast.Expr) and isinstance(st.value, ast.Call) and self.parser and not self.loop_seen \
                    and ast.unparse(st.value.func) == self.parser + ".add_argument":
                if self.subparsers is not None:
                    raise Untranslatable("__main__.main: a top-level argument after add_subparsers")   # a positional there would come after the sub-command
                self.top.append(_ca_decl(st.value, self.imports))
                continue
            if isinstance(st, ast.For) and self.iter and self.subparsers and not self.loop_seen and not st.orelse:
                self.module_loop(st)
                self.loop_seen = True
                continue
            raise Untranslatable("__main__.main: %s" % ast.unparse(st)[:70])
        raise Untranslatable("__main__.main: no parse_args")

    def module_loop(self, loop):
        t = loop.target
        if not (isinstance(t, ast.Tuple) and len(t.elts) == 3 and all(isinstance(x, ast.Name) for x in t.elts)
                and isinstance(loop.iter, ast.Name) and loop.iter.id == self.iter):
            raise Untranslatable("the module loop: %s" % ast.unparse(loop)[:70])
        name = t.elts[1].id           # ModuleInfo(module_finder, name, ispkg)
        if name in (t.elts[0].id, t.elts[2].id) and t.elts[0].id != t.elts[2].id:
            raise Untranslatable("the module loop: target")
        modvar = subvar = None
        added = False
        for st in loop.body:
            if isinstance(st, ast.Assign) and len(st.targets) == 1 and isinstance(st.targets[0], ast.Name) and isinstance(st.value, ast.Call):
                tgt, call = st.targets[0].id, st.value
                f = ast.unparse(call.func)
                if f == "importlib.import_module" and self.imports.get("importlib") == "importlib" and len(call.args) == 2 and not call.keywords \
                        and _ca_is(call.args[0], "'.' + %s" % name) and _ca_is(call.args[1], "%s.__name__" % self.pkg_alias) \
                        and modvar is None and subvar is None:
                    modvar = tgt
                    continue
                if f == self.subparsers + ".add_parser" and len(call.args) == 1 and _ca_is(call.args[0], name) and subvar is None and modvar:
                    self.sub_add_help = self.parser_kwargs(call, "add_parser")
                    subvar = tgt
                    continue
            if isinstance(st, ast.Expr) and isinstance(st.value, ast.Call) and modvar and subvar:
                call = st.value
                f = ast.unparse(call.func)
                if f == subvar + ".set_defaults" and not call.args and self.set_defaults is None and not added:
                    out = []
                    for kw in call.keywords:
                        if kw.arg is None or not isinstance(kw.value, ast.Name) or kw.value.id not in (modvar, subvar):
                            raise Untranslatable("set_defaults: %s" % ast.unparse(call)[:70])
                        out.append("(%s, .%s module_name)" % (_ca_str(kw.arg), "moduleObj" if kw.value.id == modvar else "parserObj"))
                    self.set_defaults = out
                    continue
                if f == modvar + ".add_arguments" and len(call.args) == 1 and not call.keywords and _ca_is(call.args[0], subvar) and not added:
                    added = True
                    continue
            raise Untranslatable("the module loop: %s" % ast.unparse(st)[:70])
        if not (added and self.set_defaults is not None):
            raise Untranslatable("the module loop: add_arguments / set_defaults missing")
        if len({modvar, subvar, name, self.parser, self.subparsers}) != 5:
            raise Untranslatable("the module loop: names")

    # -- after parse_args
    def ref(self, e):
        if isinstance(e, ast.Attribute) and isinstance(e.value, ast.Name) and e.value.id == self.args:
            return "(.attr %s)" % _ca_str(e.attr)
        if isinstance(e, ast.Name) and e.id in self.locals:
            return "(.loc %s)" % _ca_str(e.id)
        raise Untranslatable("__main__.main: %s is neither an attribute of the namespace nor a local bound to one" % ast.unparse(e)[:50])

    def is_error(self, st):
        return (isinstance(st, ast.Expr) and isinstance(st.value, ast.Call) and _ca_is(st.value.func, self.parser + ".error")
                and len(st.value.args) == 1 and not st.value.keywords and isinstance(st.value.args[0], ast.Constant)
                and isinstance(st.value.args[0].value, str))

    def hasattr_of(self, e):
        """`hasattr(X, "name")` -> (X, name)"""
        if (isinstance(e, ast.Call) and isinstance(e.func, ast.Name) and e.func.id == "hasattr" and len(e.args) == 2 and not e.keywords
                and isinstance(e.args[1], ast.Constant) and isinstance(e.args[1].value, str)):
            return e.args[0], e.args[1].value
        return None

    def tail(self, stmts, ind):
        """statements -> Lean `Step` terms"""
        pad = " " * ind
        out = []
        for k, st in enumerate(stmts):
            if isinstance(st, ast.Pass):
                continue
            # f(args.a) for a helper of this module
            if (isinstance(st, ast.Expr) and isinstance(st.value, ast.Call) and isinstance(st.value.func, ast.Name)
                    and st.value.func.id in self.helpers and st.value.func.id not in self.locals and len(st.value.args) == 1
                    and not st.value.keywords and isinstance(st.value.args[0], ast.Attribute)
                    and isinstance(st.value.args[0].value, ast.Name) and st.value.args[0].value.id == self.args):
                out.append(pad + ".readAttr %s" % _ca_str(st.value.args[0].attr))
                continue
            if isinstance(st, ast.If):
                t = st.test
                neg = isinstance(t, ast.UnaryOp) and isinstance(t.op, ast.Not)
                h = self.hasattr_of(t.operand if neg else t)
                if h is None:
                    raise Untranslatable("__main__.main: test %s" % ast.unparse(t)[:70])
                obj, nm = h
                if isinstance(obj, ast.Name) and obj.id == self.args:
                    # `parser.error` ends the process: the other branch is what follows
                    if neg and len(st.body) == 1 and self.is_error(st.body[0]):
                        out.append(pad + ".requireAttr %s %s" % (_ca_str(nm), _ca_str(st.body[0].value.args[0].value)))
                        out += self.tail(st.orelse, ind)
                        continue
                    if not neg and len(st.orelse) == 1 and self.is_error(st.orelse[0]):
                        out.append(pad + ".requireAttr %s %s" % (_ca_str(nm), _ca_str(st.orelse[0].value.args[0].value)))
                        out += self.tail(st.body, ind)
                        continue
                    raise Untranslatable("__main__.main: %s" % ast.unparse(st)[:70])
                if not neg and not st.orelse:
                    r = self.ref(obj)
                    saved = dict(self.locals)
                    body = self.tail(st.body, ind + 4)
                    if set(self.locals) != set(saved) and any(
                            isinstance(x, ast.Name) and x.id in set(self.locals) - set(saved) for s2 in stmts[k + 1:] for x in ast.walk(s2)):
                        raise Untranslatable("__main__.main: a local bound under a condition is used after it")
                    self.locals = saved
                    out.append(pad + ".ifHas %s %s [\n%s]" % (r, _ca_str(nm), ",\n".join(body)))
                    continue
                raise Untranslatable("__main__.main: %s" % ast.unparse(st)[:70])
            if (isinstance(st, ast.Assign) and len(st.targets) == 1 and isinstance(st.targets[0], ast.Name)
                    and isinstance(st.value, ast.Attribute) and isinstance(st.value.value, ast.Name) and st.value.value.id == self.args):
                x = st.targets[0].id
                if x in (self.args, self.parser, self.subparsers, self.argv):
                    raise Untranslatable("__main__.main: assignment to %s" % x)
                self.locals[x] = st.value.attr
                out.append(pad + ".bind %s %s" % (_ca_str(x), _ca_str(st.value.attr)))
                continue
            if isinstance(st, ast.Delete):
                for tg in st.targets:
                    if not (isinstance(tg, ast.Attribute) and isinstance(tg.value, ast.Name) and tg.value.id == self.args):
                        raise Untranslatable("__main__.main: %s" % ast.unparse(st)[:70])
                    out.append(pad + ".del %s" % _ca_str(tg.attr))
                continue
            if (isinstance(st, ast.Expr) and isinstance(st.value, ast.Call) and isinstance(st.value.func, ast.Attribute)
                    and len(st.value.args) == 2 and not st.value.keywords and isinstance(st.value.args[0], ast.Name)
                    and st.value.args[0].id == self.args):
                out.append(pad + ".callMethod %s %s %s" % (self.ref(st.value.func.value), _ca_str(st.value.func.attr), self.ref(st.value.args[1])))
                continue
            if isinstance(st, ast.Try) and not st.orelse and not st.finalbody and len(st.handlers) == 1 and len(st.body) == 1:
                b, h = st.body[0], st.handlers[0]
                if not (isinstance(b, ast.Expr) and isinstance(b.value, ast.Call) and isinstance(b.value.func, ast.Attribute)
                        and b.value.func.attr == "main" and len(b.value.args) == 1 and not b.value.keywords
                        and isinstance(b.value.args[0], ast.Name) and b.value.args[0].id == self.args):
                    raise Untranslatable("__main__.main: %s" % ast.unparse(b)[:70])
                if not (isinstance(h.type, ast.Name) and self.imports.get(h.type.id) == (".cli", h.type.id) and h.body):
                    raise Untranslatable("__main__.main: except %s" % (ast.unparse(h.type) if h.type else ""))
                last = h.body[-1]
                if not (isinstance(last, ast.Expr) and isinstance(last.value, ast.Call) and _ca_is(last.value.func, "sys.exit")
                        and len(last.value.args) == 1 and isinstance(last.value.args[0], ast.Constant)
                        and isinstance(last.value.args[0].value, int) and not isinstance(last.value.args[0].value, bool)
                        and last.value.args[0].value >= 0):
                    raise Untranslatable("__main__.main: the handler does not end with sys.exit(n)")
                for s2 in h.body[:-1]:        # logging only
                    if not (isinstance(s2, ast.Expr) and isinstance(s2.value, ast.Call) and isinstance(s2.value.func, ast.Attribute)
                            and isinstance(s2.value.func.value, ast.Name) and s2.value.func.value.id == "logger"):
                        raise Untranslatable("__main__.main: handler statement %s" % ast.unparse(s2)[:60])
                out.append(pad + ".callMain %s %s %d" % (self.ref(b.value.func.value), _ca_str(h.type.id), last.value.args[0].value))
                if [s2 for s2 in stmts[k + 1:] if not isinstance(s2, ast.Pass)]:
                    raise Untranslatable("__main__.main: statements after the call of the entry point")
                continue
            raise Untranslatable("__main__.main: %s" % ast.unparse(st)[:70])
        return out

    def run(self):
        rest = self.head(_ca_nodoc(self.fn.body))
        if len({self.parser, self.subparsers, self.iter, self.args, self.argv}) != 5:
            raise Untranslatable("__main__.main: names")
        self.locals = {}
        steps = self.tail(rest, 2)
        return steps


def _ca_error_status():
    """gaftools/args.py: `HelpfulArgumentParser.error` ends with `self.exit(<n>, …)`"""
    _, src = src_of("gaftools/args.py")
    mod = ast.parse(src)
    imports = _ca_imports(mod)
    cls = [n for n in mod.body if isinstance(n, ast.ClassDef) and n.name == "HelpfulArgumentParser"]
    if len(cls) != 1 or len(cls[0].bases) != 1 or not isinstance(cls[0].bases[0], ast.Name) \
            or imports.get(cls[0].bases[0].id) != ("argparse", "ArgumentParser") or cls[0].keywords:
        raise Untranslatable("args.py: HelpfulArgumentParser is not a plain subclass of argparse.ArgumentParser")
    methods = {n.name for n in cls[0].body if isinstance(n, ast.FunctionDef)}
    if not methods <= {"__init__", "error"} or len(methods) != len([n for n in cls[0].body if not (isinstance(n, ast.Expr) and isinstance(n.value, ast.Constant))]):
        raise Untranslatable("args.py: HelpfulArgumentParser overrides %s" % sorted(methods))
    if "__init__" in methods:
        init = find_func(mod, "__init__", cls="HelpfulArgumentParser")
        want = ["if 'formatter_class' not in kwargs:\n    kwargs['formatter_class'] = RawDescriptionHelpFormatter", "super().__init__(*args, **kwargs)"]
        if [ast.unparse(x) for x in _ca_nodoc(init.body)] != want:
            raise Untranslatable("args.py: HelpfulArgumentParser.__init__ does more than choose the help formatter")
    if "error" not in methods:
        return 2           # argparse's own `error`: `self.exit(2, …)`
    err = find_func(mod, "error", cls="HelpfulArgumentParser")
    params = _ca_plain_params(err, 2)
    last = _ca_nodoc(err.body)[-1]
    for st in _ca_nodoc(err.body)[:-1]:
        if any(isinstance(x, (ast.Return, ast.Raise, ast.Try, ast.If, ast.While, ast.For)) for x in ast.walk(st)):
            raise Untranslatable("args.py: error: control flow before the exit")
    if not (isinstance(last, ast.Expr) and isinstance(last.value, ast.Call) and _ca_is(last.value.func, params[0] + ".exit")
            and last.value.args and isinstance(last.value.args[0], ast.Constant) and isinstance(last.value.args[0].value, int)
            and not isinstance(last.value.args[0].value, bool) and last.value.args[0].value >= 0):
        raise Untranslatable("args.py: error does not end with self.exit(n, …)")
    return last.value.args[0].value


def _ca_ident(name):
    if not name.isidentifier() or not name.isascii():
        raise Untranslatable("module name %r" % name)
    return name


def _gen_cli_args():
    _, src = src_of("gaftools/__main__.py")
    main = _CaMain(ast.parse(src))
    steps = main.run()
    status = _ca_error_status()
    # what `pkgutil.iter_modules(gaftools.cli.__path__)` yields: the importable entries of the directory, sorted by file name
    d = os.path.join(REPO, "gaftools", "cli")
    names = []
    for f in sorted(os.listdir(d)):
        p = os.path.join(d, f)
        if os.path.isdir(p):
            if f == "__pycache__" or "." in f:
                continue
            if any(os.path.exists(os.path.join(p, x)) for x in ("__init__.py",)):
                raise Untranslatable("gaftools/cli/%s is a package" % f)
            continue
        base, ext = os.path.splitext(f)
        if ext != ".py":
            if ext in (".pyc", ".so", ".pyd"):
                raise Untranslatable("gaftools/cli/%s: a module without source" % f)
            continue
        if base == "__init__":
            continue
        names.append(_ca_ident(base))
    if not names:
        raise Untranslatable("gaftools/cli has no module")
    out = [CLIARGS_PRELUDE % (
        "generated by harness/translate.py from gaftools/__main__.py : main, gaftools/args.py : HelpfulArgumentParser.error and, of every\n"
        "    module of gaftools/cli, add_arguments / validate / main — declaration by declaration, test by test, statement by statement;\n"
        "    do not edit")]
    recs = []
    for name in names:
        decls, val, entry, params = _ca_cli_module(name)
        out.append("/-- `gaftools/cli/%s.py add_arguments` -/\ndef arguments_%s : List ArgDecl := [\n%s]\n" % (
            name, name, ",\n".join("  " + x for x in decls)))
        if val is not None:
            out.append("/-- `gaftools/cli/%s.py validate` -/\ndef validate_%s (ns : Ns) : VRes :=\n%s\n" % (name, name, val))
        out.append("/-- `gaftools/cli/%s.py main` and the parameters of the function it calls -/\n"
                   "def module_%s : Module :=\n  { name := %s, arguments := arguments_%s, validate := %s,\n    entry := %s,\n    entryParams := [%s] }\n" % (
                       name, name, _ca_str(name), name, ("some validate_%s" % name) if val is not None else "none", _ca_str(entry),
                       ", ".join("(%s, %s)" % (_ca_str(p), "true" if d else "false") for p, d in params)))
        recs.append("module_%s" % name)
    out.append("/-- the modules of `gaftools/cli`, in the order of `pkgutil.iter_modules` (sorted file names) -/\n"
               "def modules : List Module := [%s]\n" % ", ".join(recs))
    out.append("/-- `import gaftools.cli as …`: the package the modules are imported from -/\ndef cliPackage : String := \"gaftools.cli\"\n")
    out.append("/-- the `add_argument` calls of `__main__.main` on the top-level parser -/\ndef topArguments : List ArgDecl := [\n%s]\n" % (
        ",\n".join("  " + x for x in main.top)))
    out.append("/-- `add_help` of the top-level parser and of the sub-parsers (argparse adds `-h`, `--help` first) -/\n"
               "def topAddHelp : Bool := %s\ndef subAddHelp : Bool := %s\n" % ("true" if main.top_add_help else "false", "true" if main.sub_add_help else "false"))
    out.append("/-- `subparser.set_defaults(…)` in the module loop -/\ndef setDefaults (module_name : String) : Ns := [%s]\n" % ", ".join(main.set_defaults))
    out.append("/-- `HelpfulArgumentParser.error`: the exit status -/\ndef parserErrorStatus : Nat := %d\n" % status)
    out.append("/-- `__main__.main` after `%s = %s.parse_args(%s)` -/\ndef mainTail : List Step := [\n%s]\n" % (
        main.args, main.parser, main.argv, ",\n".join(steps)))
    out.append("/-- `__main__.main` from the namespace `parse_args` returned -/\n"
               "def runMain (args : Ns) : Outcome :=\n"
               "  match runSteps cliPackage modules mainTail { args := args, locals := [] } with\n"
               "  | .ok _ => .returned\n  | .error o => o\n")
    out.append("end Gaftools.Gen.CliArgs\n")
    return "\n".join(out)


def gen_cli_args():
    try:
        return _gen_cli_args()
    except Untranslatable:
        raise
    except Exception as e:  # a shape the translator did not foresee is never an alarm
        raise Untranslatable("translator: %s: %s" % (type(e).__name__, e))


GENERATORS["CliArgs"] = gen_cli_args


# ---------------------------------------------------------------------------------------------------------
# sort.process_alignment as a whole function and the first pass of sort.sort up to `list.sort`, statement by statement (C08, C09)

_SP_PRELUDE = r"""/-! ## the Python primitives the translation refers to -/

/-- how an evaluation ends when it does not produce a value -/
inductive PyExc where
  | keyError | indexError | valueError | assertionError
  | outOfFuel      -- not a Python exception: the fuel handed to a `while True:` loop ran out
deriving DecidableEq, Repr

/-- `d[k]` (absent: KeyError), `l[i]` (out of range: IndexError), `int(s)` (not a number: ValueError) -/
def orKey {α : Type} : Option α → Except PyExc α
  | some a => .ok a
  | none => .error .keyError
def orIndex {α : Type} : Option α → Except PyExc α
  | some a => .ok a
  | none => .error .indexError
def orValue {α : Type} : Option α → Except PyExc α
  | some a => .ok a
  | none => .error .valueError

/-- `l[i]` for an integer that may be negative (counted from the end) -/
def pyIdx {α : Type} (l : List α) (i : Int) : Option α :=
  if i < 0 then (if i.natAbs ≤ l.length then l[l.length - i.natAbs]? else none) else l[i.toNat]?

/-- `re.split(p, s)` for a pattern that is an alternation of single characters, every one of them in a capturing group: `sep c` =
    the character is one of them; the separator itself becomes an element of the result (the `None`s of the groups that did not
    take part are not represented: the translator insists on `filter(None, …)` around a pattern with groups). -/
def reSplitAux (sep keep : Char → Bool) : Str → Str → List Str
  | [], cur => [cur.reverse]
  | c :: cs, cur =>
    if sep c then cur.reverse :: ((if keep c then [[c]] else []) ++ reSplitAux sep keep cs [])
    else reSplitAux sep keep cs (c :: cur)
def reSplit (sep keep : Char → Bool) (s : Str) : List Str := reSplitAux sep keep s []

/-- `filter(None, l)` on strings: the empty ones go -/
def filterNone (l : List Str) : List Str := l.filter (fun t => !t.isEmpty)

/-- the GAF being read: `tell()` = `pos` (a record is identified by its ordinal); `readline()` gives the head of `rest` — the empty
    string when nothing is left — and advances `pos` -/
structure GafFile where
  pos : Nat
  rest : List Str

/-- `while True:` with a body that says whether to go on (`false` = `break`) -/
def whileTrue {σ : Type} (body : σ → Except PyExc (Bool × σ)) : Nat → σ → Except PyExc σ
  | 0, _ => .error .outOfFuel
  | fuel + 1, s =>
    match body s with
    | .error e => .error e
    | .ok (false, s') => .ok s'
    | .ok (true, s') => whileTrue body fuel s'

/-- `l.sort(key=functools.cmp_to_key(cmp))`: a stable sort that only ever asks whether `K(y) < K(x)`, which `cmp_to_key` answers by
    `cmp(y, x) < 0`: `x` stays in front of `y` unless that holds.  (A comparator that returns `None` makes `<` raise `TypeError`;
    that outcome is not represented: `none` counts as "not less".) -/
def pySortCmp {α : Type} (cmp : α → α → Option Int) (l : List α) : List α :=
  l.mergeSort (fun x y => match cmp y x with
    | some c => !(decide (c < 0))
    | none => true)
"""

_SP_RESERVED = set(_IX_RESERVED) | {
    "orKey", "orIndex", "orValue", "pyIdx", "pySortCmp", "PyExc", "Except", "processAlignment", "firstPass", "Aln", "NodeTags", "isDigits",
    "decide", "ok", "error", "bind", "isOrientTok", "pathTokens",
}

# the four tags `sort` reads and the field of the model's `NodeTags` that stands for `[int(]nodes[n].tags[TAG][1][)]`
_SP_TAGS = {"SN": ("sn", "String"), "BO": ("bo", "Int"), "NO": ("no", "Int"), "SR": ("sr", "Int")}
# the fields of the model's `Aln` and their types; a namedtuple field corresponds to the field with the same lower-cased name
_SP_ALN = [("offset", "Int"), ("bo", "Int"), ("no", "Int"), ("start", "Int"), ("inv", "Int"), ("sn", "String")]


class _SpLit(str):
    """the Lean text of a Python string constant (as a list of characters) that remembers the constant"""


def _sp_lit(v):
    s = _SpLit(_ix_chars(v))
    s.py = v
    return s


def _sp_string(v):
    if not all(32 <= ord(c) < 127 for c in v):
        raise Untranslatable("non-ASCII / control character in a string constant")
    return '"%s"' % v.replace("\\", "\\\\").replace('"', '\\"')


def _sp_par(s):
    return s if re.fullmatch(r"[\w.]+", s) or (s.startswith("(") and s.endswith(")")) else "(%s)" % s


def _sp_ty(t):
    """Lean text of a type: atoms are strings, ("Option", t), ("List", t), ("Tuple", (t1, …))"""
    if isinstance(t, str):
        return {"Nodes": "String → Option NodeTags", "NoneT": "Unit"}.get(t, t)
    if t[0] in ("Option", "List"):
        return "%s %s" % (t[0], _sp_par(_sp_ty(t[1])))
    if t[0] == "Tuple":
        return "(" + " × ".join(_sp_ty(x) for x in t[1]) + ")"
    raise Untranslatable("type %r" % (t,))


def _sp_proj(x, i, n):
    return x if n == 1 else x + ".2" * i + (".1" if i < n - 1 else "")


class _SpOwner:
    def __init__(self, mod):
        self.mod = mod
        self.defs = []
        self.known = {}       # Python function -> (Lean name, [parameter types], result type)
        self.records = {}     # Python name bound to a namedtuple -> [field names]
        self.cmps = {}        # Python comparator -> Lean name
        self.aux_memo = {}
        self.sorted_var = None


class _SpFn:
    def __init__(self, owner, pyfn, lean):
        self.owner, self.pyfn, self.lean = owner, pyfn, lean
        self.nloop = 0

    @staticmethod
    def lean_name(n):
        if not re.fullmatch(r"[A-Za-z_][A-Za-z0-9_]*", n) or re.fullmatch(r"v\d+", n) or n.endswith("_") or re.fullmatch(r"\w+_(for|while)\d+", n):
            raise Untranslatable("variable name %s" % n)
        return n + "_" if n in _SP_RESERVED else n


class _SpCtx:
    """state of the translation of one definition body (the result type is always `Except PyExc …`)"""

    def __init__(self, fn, env, tmp=None):
        self.fn = fn
        self.env = list(env)          # [(py, lean, type)]; the first `outer_n` entries belong to the enclosing definition
        self.outer_n = len(self.env)
        self.binds = []               # pending [(var, text)] of the statement being translated, in evaluation order
        self.used = set()             # Lean names of the enclosing definition this body reads (shared by the forks)
        self.flags = {"fuel": False}  # shared by the forks
        self.tmpc = tmp if tmp is not None else [0]

    def fork(self):
        c = _SpCtx(self.fn, self.env, self.tmpc)
        c.outer_n = self.outer_n
        c.used = self.used
        c.flags = self.flags
        return c

    # ---- environment ------------------------------------------------------------------------------------
    def has(self, n):
        return any(py == n for py, _, _ in self.env)

    def peek(self, n):
        for py, lean, ty in reversed(self.env):
            if py == n:
                return lean, ty
        raise Untranslatable("unknown variable %s" % n)

    def lookup(self, n):
        lean, ty = self.peek(n)
        idx = max(i for i, (p, _, _) in enumerate(self.env) if p == n)
        if idx < self.outer_n:
            self.used.add(lean)
        return lean, ty

    def define(self, n, ty):
        lean = _SpFn.lean_name(n)
        self.env.append((n, lean, ty))
        return lean

    def let(self, pad, n, ty, text):
        lean = self.define(n, ty)
        return "%slet %s : %s := %s\n" % (pad, lean, _sp_ty(ty), text)

    def tmp(self):
        self.tmpc[0] += 1
        return "v%d" % self.tmpc[0]

    def bind(self, text, ty):
        v = self.tmp()
        self.binds.append((v, text))
        return v, ty

    def flush(self, pad):
        out = "".join("%s%s.bind fun %s =>\n" % (pad, text, v) for v, text in self.binds)
        self.binds = []
        return out

    # ---- types ------------------------------------------------------------------------------------------
    def coerce(self, x, t, want, what):
        if t == want:
            return x
        if isinstance(x, _SpLit) and want == "Str":
            return str(x)
        if isinstance(x, _SpLit) and want == "String":
            return _sp_string(x.py)
        if t == "Nat" and want == "Int":
            return "(%s : Int)" % x
        if isinstance(want, tuple) and want[0] == "Option":
            if t == "NoneT":
                return "none"
            return "(some %s)" % self.coerce(x, t, want[1], what)
        raise Untranslatable("%s: a %s where a %s is expected" % (what, _sp_ty(t) if t != "Lit" else "string constant", _sp_ty(want)))

    def static(self, e, seen=()):
        """the type of an expression from its syntax alone (what types a variable initialised with `None` / `[]`), or None"""
        if isinstance(e, ast.Constant):
            if e.value is None:
                return "NoneT"
            if isinstance(e.value, bool):
                return "Bool"
            if isinstance(e.value, int):
                return "Int"
            if isinstance(e.value, str):
                return "Lit"
            return None
        if isinstance(e, ast.Name):
            if self.has(e.id):
                return self.peek(e.id)[1]
            if e.id in seen:
                return None
            return self.static_var(e.id, seen + (e.id,))
        if isinstance(e, ast.BinOp) and isinstance(e.op, (ast.Add, ast.Sub)):
            return "Int" if self.static(e.left, seen) in ("Int", "Nat") and self.static(e.right, seen) in ("Int", "Nat") else None
        if isinstance(e, ast.Call):
            if isinstance(e.func, ast.Name) and e.func.id == "int" and len(e.args) == 1:
                return "Int"
            if isinstance(e.func, ast.Name) and e.func.id in self.fn.owner.records:
                return "Aln"
            if isinstance(e.func, ast.Attribute) and e.func.attr == "count":
                return "Int"
            return None
        if isinstance(e, ast.Subscript):
            tr = self.tag_shape(e)
            if tr is not None:
                return _SP_TAGS[tr[1]][1] if tr[1] in _SP_TAGS and _SP_TAGS[tr[1]][1] == "String" else None
            t = self.static(e.value, seen)
            if isinstance(t, tuple) and t[0] == "List" and not isinstance(e.slice, ast.Slice):
                return t[1]
        return None

    def static_var(self, name, seen=()):
        """the one type of everything but `None` the function assigns to `name` ("NoneT" if there is nothing else; None if unknown)"""
        tys = []
        for n in ast.walk(self.fn.pyfn):
            t = False
            if isinstance(n, ast.Assign):
                for tg in n.targets:
                    if isinstance(tg, ast.Name) and tg.id == name:
                        t = self.static(n.value, seen)
                    elif isinstance(tg, (ast.Tuple, ast.List)) and any(isinstance(x, ast.Name) and x.id == name for x in ast.walk(tg)):
                        t = None
            elif isinstance(n, ast.AugAssign) and isinstance(n.target, ast.Name) and n.target.id == name:
                t = "Int"
            elif isinstance(n, (ast.For, ast.comprehension)) and any(isinstance(x, ast.Name) and x.id == name for x in ast.walk(n.target)):
                it = self.static(n.iter, seen)
                t = it[1] if isinstance(n.target, ast.Name) and isinstance(it, tuple) and it[0] == "List" else None
            elif isinstance(n, ast.NamedExpr) and isinstance(n.target, ast.Name) and n.target.id == name:
                t = None
            elif isinstance(n, (ast.Global, ast.Nonlocal)) and name in n.names:
                t = None
            elif isinstance(n, ast.Delete) and any(isinstance(x, ast.Name) and x.id == name for tg in n.targets for x in ast.walk(tg)):
                t = None
            elif isinstance(n, (ast.With, ast.ExceptHandler)):
                bound = [n.name] if isinstance(n, ast.ExceptHandler) else [x.id for it in n.items if it.optional_vars is not None
                                                                             for x in ast.walk(it.optional_vars) if isinstance(x, ast.Name)]
                if name in bound:
                    t = None
            if t is False:
                continue
            if t is None:
                return None
            if t != "NoneT" and t not in tys:
                tys.append(t)
        if "Lit" in tys and len(tys) > 1:
            tys.remove("Lit")
        if tys == ["Lit"]:
            tys = ["Str"]
        if not tys:
            return "NoneT"
        return tys[0] if len(tys) == 1 else None

    # ---- expressions ------------------------------------------------------------------------------------
    @staticmethod
    def tag_shape(e):
        """X.tags["TAG"][1] -> (X, TAG) or None"""
        if (isinstance(e, ast.Subscript) and isinstance(e.slice, ast.Constant) and e.slice.value == 1 and not isinstance(e.slice.value, bool)
                and isinstance(e.value, ast.Subscript) and isinstance(e.value.slice, ast.Constant) and isinstance(e.value.slice.value, str)
                and isinstance(e.value.value, ast.Attribute) and e.value.value.attr == "tags"):
            return e.value.value.value, e.value.slice.value
        return None

    def tag_read(self, e, numeric):
        tr = self.tag_shape(e)
        if tr is None:
            return None
        x, tx = self.ex(tr[0])
        if tx != "NodeTags" or tr[1] not in _SP_TAGS:
            raise Untranslatable("tag read " + ast.unparse(e))
        field, ty = _SP_TAGS[tr[1]]
        if (ty == "Int") != numeric:
            raise Untranslatable("%s: the model keeps %s as %s" % (ast.unparse(e), tr[1], "a number" if ty == "Int" else "text"))
        return "%s.%s" % (x, field), ty

    def strconst(self, e):
        return isinstance(e, ast.Constant) and isinstance(e.value, str)

    def ex(self, e):
        """-> (lean text, type); the parts that may raise are appended to self.binds in evaluation order"""
        if isinstance(e, ast.Name):
            return self.lookup(e.id)
        if isinstance(e, ast.Constant):
            if e.value is None:
                return "()", "NoneT"
            if isinstance(e.value, bool):
                return ("true" if e.value else "false"), "Bool"
            if isinstance(e.value, int):
                return "(%d : Int)" % e.value, "Int"
            if isinstance(e.value, str):
                return _sp_lit(e.value), "Lit"
            raise Untranslatable("constant %r" % (e.value,))
        if isinstance(e, ast.UnaryOp) and isinstance(e.op, ast.USub) and isinstance(e.operand, ast.Constant) and type(e.operand.value) is int:
            return "(-%d : Int)" % e.operand.value, "Int"
        if isinstance(e, ast.UnaryOp) and isinstance(e.op, ast.Not):
            x, t = self.ex(e.operand)
            if t == "Bool":
                return "(!%s)" % x, "Bool"
            if t == "Prop":
                return "(¬ %s)" % x, "Prop"
            if t == "Str" or (isinstance(t, tuple) and t[0] == "List"):
                return "%s.isEmpty" % _sp_par(x), "Bool"
            raise Untranslatable("not of a %s" % _sp_ty(t))
        if isinstance(e, ast.BoolOp):
            parts = []
            for i, v in enumerate(e.values):
                nb = len(self.binds)
                parts.append(self.truth(v))
                if i > 0 and len(self.binds) != nb:
                    raise Untranslatable("an operand of and / or that may raise: " + ast.unparse(v)[:60])
            if all(t == "Bool" for _, t in parts):
                return "(" + (" && " if isinstance(e.op, ast.And) else " || ").join(x for x, _ in parts) + ")", "Bool"
            ps = [x if t == "Prop" else "(%s = true)" % x for x, t in parts]
            return "(" + (" ∧ " if isinstance(e.op, ast.And) else " ∨ ").join(ps) + ")", "Prop"
        if isinstance(e, ast.Compare):
            return self.compare(e)
        if isinstance(e, ast.BinOp) and isinstance(e.op, (ast.Add, ast.Sub)):
            (x, tx), (y, ty) = self.ex(e.left), self.ex(e.right)
            if tx in ("Int", "Nat") and ty in ("Int", "Nat"):
                return "(%s %s %s)" % (self.coerce(x, tx, "Int", "arithmetic"), "+" if isinstance(e.op, ast.Add) else "-", self.coerce(y, ty, "Int", "arithmetic")), "Int"
            raise Untranslatable("arithmetic on %s, %s" % (_sp_ty(tx) if tx != "Lit" else "Lit", _sp_ty(ty) if ty != "Lit" else "Lit"))
        if isinstance(e, ast.Tuple) and e.elts:
            parts = [self.ex(v) for v in e.elts]
            if any(t in ("Lit", "Prop", "ReSplit", "NoneT") for _, t in parts):
                raise Untranslatable("tuple " + ast.unparse(e)[:60])
            return "(" + ", ".join(x for x, _ in parts) + ")", ("Tuple", tuple(t for _, t in parts))
        if isinstance(e, ast.Subscript):
            if self.tag_shape(e) is not None:
                return self.tag_read(e, numeric=False)
            if isinstance(e.slice, ast.Slice):
                raise Untranslatable("slice " + ast.unparse(e))
            x, t = self.ex(e.value)
            if isinstance(t, tuple) and t[0] == "List":
                i = e.slice
                if isinstance(i, ast.Constant) and type(i.value) is int and i.value >= 0:
                    return self.bind("(orIndex (%s[%d]?))" % (x, i.value), t[1])
                if isinstance(i, ast.UnaryOp) and isinstance(i.op, ast.USub) and isinstance(i.operand, ast.Constant) and type(i.operand.value) is int:
                    return self.bind("(orIndex (pyIdx %s (-%d : Int)))" % (x, i.operand.value), t[1])
                raise Untranslatable("index " + ast.unparse(e))
            if t == "Nodes":
                k, tk = self.ex(e.slice)
                if tk == "Str":
                    return self.bind("(orKey (%s (String.ofList %s)))" % (x, k), "NodeTags")
                if tk == "String":
                    return self.bind("(orKey (%s %s))" % (x, k), "NodeTags")
            raise Untranslatable("subscript " + ast.unparse(e))
        if isinstance(e, ast.Call):
            return self.call(e)
        raise Untranslatable("expression " + ast.unparse(e)[:80])

    def truth(self, e):
        x, t = self.ex(e)
        if t in ("Bool", "Prop"):
            return x, t
        if t == "Str" or (isinstance(t, tuple) and t[0] == "List"):
            return "(!%s.isEmpty)" % _sp_par(x), "Bool"
        raise Untranslatable("truth value of a %s" % (_sp_ty(t) if t != "Lit" else "string constant"))

    def compare(self, e):
        if len(e.ops) > 1:
            vals = [e.left] + list(e.comparators)
            for v in vals[1:-1]:
                if not isinstance(v, (ast.Name, ast.Constant)):
                    raise Untranslatable("comparison chain " + ast.unparse(e))
            parts = [self.compare(ast.Compare(left=vals[i], ops=[e.ops[i]], comparators=[vals[i + 1]])) for i in range(len(e.ops))]
            return "(" + " ∧ ".join(x if t == "Prop" else "(%s = true)" % x for x, t in parts) + ")", "Prop"
        op, l, r = e.ops[0], e.left, e.comparators[0]
        if isinstance(op, (ast.Is, ast.IsNot)):
            if not (isinstance(r, ast.Constant) and r.value is None):
                raise Untranslatable("identity test " + ast.unparse(e))
            x, t = self.ex(l)
            if isinstance(t, tuple) and t[0] == "Option":
                return "%s.%s" % (_sp_par(x), "isNone" if isinstance(op, ast.Is) else "isSome"), "Bool"
            raise Untranslatable("`is None` of a %s" % (_sp_ty(t) if t != "Lit" else "string constant"))
        if isinstance(op, (ast.In, ast.NotIn)):
            if isinstance(r, (ast.List, ast.Tuple, ast.Set)) and r.elts and all(self.strconst(c) for c in r.elts):
                x, t = self.ex(l)
                if t == "Str":
                    c = "([%s].contains %s)" % (", ".join(_ix_chars(c.value) for c in r.elts), x)
                    return (c if isinstance(op, ast.In) else "(!%s)" % c), "Bool"
            raise Untranslatable("membership test " + ast.unparse(e))
        (x, tx), (y, ty) = self.ex(l), self.ex(r)
        if isinstance(op, (ast.Eq, ast.NotEq)):
            if tx == "Lit" and ty == "Lit":
                raise Untranslatable("comparison of two constants")
            base = lambda t: t[1] if isinstance(t, tuple) and t[0] == "Option" else t      # noqa: E731
            if tx == "Lit":
                tx, x = base(ty), self.coerce(x, "Lit", base(ty), "comparison")
            if ty == "Lit":
                ty, y = base(tx), self.coerce(y, "Lit", base(tx), "comparison")
            if tx in ("Int", "Nat") and ty in ("Int", "Nat"):
                w = "Int" if "Int" in (tx, ty) else "Nat"
                return "(%s %s %s)" % (self.coerce(x, tx, w, "comparison"), "=" if isinstance(op, ast.Eq) else "≠", self.coerce(y, ty, w, "comparison")), "Prop"
            if tx != ty:
                if isinstance(tx, tuple) and tx[0] == "Option" and (ty == tx[1] or ty == "NoneT"):
                    y, ty = self.coerce(y, ty, tx, "comparison"), tx
                elif isinstance(ty, tuple) and ty[0] == "Option" and (tx == ty[1] or tx == "NoneT"):
                    x, tx = self.coerce(x, tx, ty, "comparison"), ty
                else:
                    raise Untranslatable("comparison of a %s with a %s" % (_sp_ty(tx), _sp_ty(ty)))
            if tx in ("Str", "String", "Bool") or (isinstance(tx, tuple) and tx[0] == "Option" and tx[1] in ("Str", "String", "Int", "Nat")):
                return "(%s %s %s)" % (x, "==" if isinstance(op, ast.Eq) else "!=", y), "Bool"
            raise Untranslatable("comparison " + ast.unparse(e))
        sym = {ast.Lt: "<", ast.Gt: ">", ast.LtE: "≤", ast.GtE: "≥"}.get(type(op))
        if sym and tx in ("Int", "Nat") and ty in ("Int", "Nat"):
            w = "Int" if "Int" in (tx, ty) else "Nat"
            return "(%s %s %s)" % (self.coerce(x, tx, w, "comparison"), sym, self.coerce(y, ty, w, "comparison")), "Prop"
        raise Untranslatable("comparison " + ast.unparse(e))

    def call(self, e):
        f, a = e.func, e.args
        fu = ast.unparse(f)
        own = self.fn.owner
        if isinstance(f, ast.Name) and f.id in own.records:
            # a namedtuple of the fields of the model's `Aln`, by position and / or by keyword
            fields = own.records[f.id]
            given = {}
            if len(a) > len(fields):
                raise Untranslatable("arguments of " + f.id)
            for name, v in list(zip(fields, a)) + [(kw.arg, kw.value) for kw in e.keywords]:
                if name is None or name not in fields or name in given:
                    raise Untranslatable("arguments of " + f.id)
                want = dict(_SP_ALN)[name.lower()]
                x, t = self.ex(v)
                given[name] = self.coerce(x, t, want, "field %s of %s" % (name, f.id))
            if set(given) != set(fields):
                raise Untranslatable("arguments of " + f.id)
            return "({ " + ", ".join("%s := %s" % (n.lower(), given[n]) for n in given) + " } : Aln)", "Aln"
        if e.keywords:
            raise Untranslatable("keyword arguments: " + ast.unparse(e)[:60])
        if fu == "int" and len(a) == 1:
            tr = self.tag_read(a[0], numeric=True)
            if tr is not None:
                return tr
            x, t = self.ex(a[0])
            if t == "Str":
                return self.bind("(orValue (toInt %s))" % x, "Int")
            raise Untranslatable("int() of " + ast.unparse(a[0])[:60])
        if fu == "list" and len(a) == 1:
            x, t = self.ex(a[0])
            if isinstance(t, tuple) and t[0] == "List":
                return x, t
            raise Untranslatable("list() of " + ast.unparse(a[0])[:60])
        if fu == "filter" and len(a) == 2 and isinstance(a[0], ast.Constant) and a[0].value is None:
            x, t = self.ex(a[1])
            if t in (("List", "Str"), "ReSplit"):
                return "(filterNone %s)" % x, ("List", "Str")
            raise Untranslatable("filter(None, …) of " + ast.unparse(a[1])[:60])
        if fu == "re.split" and len(a) == 2 and self.strconst(a[0]):
            x, t = self.ex(a[1])
            if t != "Str":
                raise Untranslatable("re.split of " + ast.unparse(a[1])[:60])
            alts = a[0].value.split("|")
            grouped = [re.fullmatch(r"\((.)\)", p) for p in alts]
            if not all(grouped) or any(m.group(1) in set(".^$*+?{}[]\\|()") for m in grouped):
                raise Untranslatable("regular expression %r" % a[0].value)
            pred = "(fun c => " + " || ".join("c == %s" % _ix_chars(m.group(1))[1:-1] for m in grouped) + ")"
            return "(reSplit %s %s %s)" % (pred, pred, x), "ReSplit"        # must go through filter(None, …)
        if isinstance(f, ast.Attribute):
            m = f.attr
            if m == "rstrip" and not a:
                x, t = self.ex(f.value)
                if t == "Str":
                    return "(rstrip %s)" % x, "Str"
            if m == "split" and len(a) == 1 and self.strconst(a[0]) and len(a[0].value) == 1:
                x, t = self.ex(f.value)
                if t == "Str":
                    return "(splitOnChar %s %s)" % (_ix_chars(a[0].value)[1:-1], x), ("List", "Str")
            if m == "tell" and not a:
                x, t = self.ex(f.value)
                if t == "GafFile":
                    return "%s.pos" % x, "Nat"
            if m == "count" and len(a) == 1:
                x, t = self.ex(f.value)
                if isinstance(t, tuple) and t[0] == "List":
                    y, ty = self.ex(a[0])
                    return "((%s.count %s : Nat) : Int)" % (_sp_par(x), self.coerce(y, ty, t[1], "argument of count")), "Int"
            raise Untranslatable("call " + ast.unparse(e)[:70])
        if isinstance(f, ast.Name) and f.id in own.known:
            name, ptys, rty = own.known[f.id]
            parts = [self.ex(v) for v in a]
            if [t for _, t in parts] != ptys:
                raise Untranslatable("arguments of %s" % f.id)
            return self.bind("(%s %s)" % (name, " ".join(x for x, _ in parts)), rty)
        raise Untranslatable("call " + ast.unparse(e)[:70])

    # ---- statements -------------------------------------------------------------------------------------
    @staticmethod
    def is_log(st):
        """logger.<level>(…) whose arguments are names and constants put into a format: nothing is evaluated that could raise or assign"""
        if not (isinstance(st, ast.Expr) and isinstance(st.value, ast.Call) and isinstance(st.value.func, ast.Attribute)
                and isinstance(st.value.func.value, ast.Name) and st.value.func.value.id in ("logger", "logging")):
            return False
        for a in list(st.value.args) + [kw.value for kw in st.value.keywords]:
            for n in ast.walk(a):
                if not isinstance(n, (ast.Name, ast.Constant, ast.Tuple, ast.BinOp, ast.Mod, ast.Load)):
                    raise Untranslatable("argument of a logging call: " + ast.unparse(a)[:60])
        return True

    def block(self, stmts, ind, k):
        """k: continuations  fin / cont / brk / ret : ctx -> text"""
        pad = " " * ind
        if not stmts:
            return pad + k["fin"](self)
        st, rest = stmts[0], stmts[1:]
        if isinstance(st, ast.Expr) and isinstance(st.value, ast.Constant):
            return self.block(rest, ind, k)             # a docstring
        if isinstance(st, ast.Pass) or self.is_log(st):
            return self.block(rest, ind, k)
        if isinstance(st, ast.Continue):
            if "cont" not in k:
                raise Untranslatable("continue outside a loop")
            return pad + k["cont"](self)
        if isinstance(st, ast.Break):
            if "brk" not in k:
                raise Untranslatable("break outside a while loop")
            return pad + k["brk"](self)
        if isinstance(st, ast.Return):
            if "ret" not in k or st.value is None:
                raise Untranslatable("return")
            x, t = self.ex(st.value)
            return self.flush(pad) + pad + k["ret"](self, x, t)
        if isinstance(st, ast.With):
            if not (len(st.items) == 1 and st.items[0].optional_vars is None and isinstance(st.items[0].context_expr, ast.Call)
                    and ast.unparse(st.items[0].context_expr.func) == "timers"):
                raise Untranslatable("with " + ast.unparse(st.items[0])[:60])
            return self.block(list(st.body) + rest, ind, k)
        if isinstance(st, ast.Assert):
            x, t = self.truth(st.test)
            pre = self.flush(pad)
            return "%s%sif %s then\n%s\n%selse\n%s  .error .assertionError" % (pre, pad, x, self.fork().block(rest, ind + 2, k), pad, pad)
        if isinstance(st, ast.If):
            return self.if_stmt(st, rest, ind, k)
        if isinstance(st, ast.Try):
            return self.try_stmt(st, rest, ind, k)
        if isinstance(st, ast.For):
            return self.for_stmt(st, rest, ind, k)
        if isinstance(st, ast.While):
            return self.while_stmt(st, rest, ind, k)
        if isinstance(st, ast.Assign) and len(st.targets) == 1:
            return self.assign(st.targets[0], st.value, ind) + self.block(rest, ind, k)
        if isinstance(st, ast.AugAssign) and isinstance(st.target, ast.Name) and isinstance(st.op, (ast.Add, ast.Sub)):
            lean, t = self.lookup(st.target.id)
            x, tx = self.ex(st.value)
            if t != "Int" or tx != "Int":
                raise Untranslatable("augmented assignment " + ast.unparse(st)[:60])
            return self.flush(pad) + self.let(pad, st.target.id, "Int", "(%s %s %s)" % (lean, "+" if isinstance(st.op, ast.Add) else "-", x)) + self.block(rest, ind, k)
        if isinstance(st, ast.Expr) and isinstance(st.value, ast.Call) and isinstance(st.value.func, ast.Attribute) and isinstance(st.value.func.value, ast.Name):
            c = st.value
            target = c.func.value.id
            if c.func.attr == "append" and len(c.args) == 1 and not c.keywords:
                lean, t = self.lookup(target)
                x, tx = self.ex(c.args[0])
                if not (isinstance(t, tuple) and t[0] == "List"):
                    raise Untranslatable("append to a %s" % _sp_ty(t))
                x = self.coerce(x, tx, t[1], "append to %s" % target)
                return self.flush(pad) + self.let(pad, target, t, "%s ++ [%s]" % (lean, x)) + self.block(rest, ind, k)
            if c.func.attr == "sort" and not c.args and [kw.arg for kw in c.keywords] == ["key"]:
                # L.sort(key=functools.cmp_to_key(F)) for a translated comparator F
                key = c.keywords[0].value
                if not (isinstance(key, ast.Call) and ast.unparse(key.func) in ("functools.cmp_to_key", "cmp_to_key") and len(key.args) == 1
                        and not key.keywords and isinstance(key.args[0], ast.Name) and key.args[0].id in self.fn.owner.cmps and not self.has(key.args[0].id)):
                    raise Untranslatable("sort key " + ast.unparse(key)[:60])
                lean, t = self.lookup(target)
                if t != ("List", "Aln"):
                    raise Untranslatable("sort of a %s" % _sp_ty(t))
                self.fn.owner.sorted_var = target
                return self.let(pad, target, t, "pySortCmp %s %s" % (self.fn.owner.cmps[key.args[0].id], lean)) + self.block(rest, ind, k)
        raise Untranslatable("statement " + ast.unparse(st)[:70])

    def if_stmt(self, st, rest, ind, k):
        pad = " " * ind
        t = st.test
        # `if X is None:` / `if X is not None:` on a variable that may be None: in the other branch X is not None
        if (isinstance(t, ast.Compare) and len(t.ops) == 1 and isinstance(t.ops[0], (ast.Is, ast.IsNot)) and isinstance(t.left, ast.Name)
                and isinstance(t.comparators[0], ast.Constant) and t.comparators[0].value is None and self.has(t.left.id)
                and isinstance(self.peek(t.left.id)[1], tuple) and self.peek(t.left.id)[1][0] == "Option"):
            lean, ty = self.lookup(t.left.id)
            a, b = self.fork(), self.fork()
            on_none, on_some = (st.body, st.orelse) if isinstance(t.ops[0], ast.Is) else (st.orelse, st.body)
            none_text = a.block(list(on_none) + rest, ind + 2, k)
            new = b.define(t.left.id, ty[1])
            some_text = b.block(list(on_some) + rest, ind + 2, k)
            return "%smatch %s with\n%s| none =>\n%s\n%s| some %s =>\n%s" % (pad, lean, pad, none_text, pad, new, some_text)
        x, tx = self.truth(t)
        pre = self.flush(pad)
        a, b = self.fork(), self.fork()
        then = a.block(list(st.body) + rest, ind + 2, k)
        els = b.block(list(st.orelse) + rest, ind + 2, k)
        return "%s%sif %s then\n%s\n%selse\n%s" % (pre, pad, x, then, pad, els)

    def try_stmt(self, st, rest, ind, k):
        # try: v = f(line)  except TypeError: v = f(line.decode("utf8"))   (bytes from a BGZF reader; the model's lines are text): one assignment
        if len(st.handlers) != 1 or st.orelse or st.finalbody or st.handlers[0].name is not None:
            raise Untranslatable("try statement shape")
        h = st.handlers[0]
        if h.type is None or ast.unparse(h.type) != "TypeError":
            raise Untranslatable("handler for %s" % (ast.unparse(h.type) if h.type is not None else "everything"))

        class Undecode(ast.NodeTransformer):
            def visit_Call(self, node):
                self.generic_visit(node)
                if (isinstance(node.func, ast.Attribute) and node.func.attr == "decode" and len(node.args) == 1 and not node.keywords
                        and isinstance(node.args[0], ast.Constant) and str(node.args[0].value).lower().replace("-", "") == "utf8"):
                    return node.func.value
                return node
        if len(st.body) != 1 or len(h.body) != 1 or not isinstance(st.body[0], ast.Assign) or len(st.body[0].targets) != 1:
            raise Untranslatable("try / except TypeError shape")
        other = Undecode().visit(ast.parse(ast.unparse(h.body[0])).body[0])
        if ast.dump(other) != ast.dump(ast.parse(ast.unparse(st.body[0])).body[0]):
            raise Untranslatable("the TypeError handler is not the same assignment on the decoded line")
        return self.assign(st.body[0].targets[0], st.body[0].value, ind) + self.block(rest, ind, k)

    def assign(self, tgt, val, ind):
        pad = " " * ind
        own = self.fn.owner
        if isinstance(tgt, ast.Name):
            if isinstance(val, ast.Call) and ast.unparse(val.func) in ("namedtuple", "collections.namedtuple"):
                # a record type: its fields must be those of the model's `Aln` (BO ↦ bo, …)
                if not (len(val.args) == 2 and not val.keywords and isinstance(val.args[1], (ast.List, ast.Tuple))
                        and all(self.strconst(x) for x in val.args[1].elts)):
                    raise Untranslatable("namedtuple " + ast.unparse(val)[:60])
                fields = [x.value for x in val.args[1].elts]
                if sorted(f.lower() for f in fields) != sorted(n for n, _ in _SP_ALN) or len(set(fields)) != len(fields) or self.has(tgt.id):
                    raise Untranslatable("the fields of %s are not those of the model's Aln" % tgt.id)
                own.records[tgt.id] = fields
                return ""
            if tgt.id in own.records or tgt.id in own.known or tgt.id in own.cmps:
                raise Untranslatable("assignment to " + tgt.id)
            if isinstance(val, ast.Constant) and val.value is None:
                t = self.static_var(tgt.id)
                if t is None:
                    raise Untranslatable("the type of %s (initialised with None) is not known" % tgt.id)
                if t == "NoneT":
                    return self.let(pad, tgt.id, "NoneT", "()")
                return self.let(pad, tgt.id, ("Option", t), "none")
            if isinstance(val, ast.List) and not val.elts:
                tys = []
                for n in ast.walk(self.fn.pyfn):
                    if (isinstance(n, ast.Call) and isinstance(n.func, ast.Attribute) and n.func.attr == "append" and isinstance(n.func.value, ast.Name)
                            and n.func.value.id == tgt.id and len(n.args) == 1):
                        t = self.static(n.args[0])
                        if t not in tys:
                            tys.append(t)
                if len(tys) != 1 or tys[0] in (None, "NoneT", "Lit"):
                    raise Untranslatable("the type of the empty list %s is not known" % tgt.id)
                return self.let(pad, tgt.id, ("List", tys[0]), "[]")
            if (isinstance(val, ast.Call) and isinstance(val.func, ast.Attribute) and val.func.attr == "readline" and not val.args and not val.keywords
                    and isinstance(val.func.value, ast.Name) and self.peek(val.func.value.id)[1] == "GafFile"):
                f = val.func.value.id
                if f == tgt.id:
                    raise Untranslatable("the line read is assigned to the file variable")
                lf, _ = self.lookup(f)
                out = self.let(pad, tgt.id, "Str", "%s.rest.head?.getD []" % lf)
                return out + self.let(pad, f, "GafFile", "⟨%s.pos + 1, %s.rest.tail⟩" % (lf, lf))
            x, t = self.ex(val)
            if t in ("ReSplit", "Prop", "NoneT"):
                raise Untranslatable("value of " + ast.unparse(val)[:60])
            if t == "Lit":
                cur = self.peek(tgt.id)[1] if self.has(tgt.id) else "Str"
                cur = cur[1] if isinstance(cur, tuple) and cur[0] == "Option" else cur
                if cur not in ("Str", "String"):
                    raise Untranslatable("a string constant assigned to %s" % tgt.id)
                x, t = self.coerce(x, "Lit", cur, "assignment"), cur
            return self.flush(pad) + self.let(pad, tgt.id, t, x)
        if isinstance(tgt, ast.Tuple) and tgt.elts and all(isinstance(v, ast.Name) for v in tgt.elts) and len({v.id for v in tgt.elts}) == len(tgt.elts):
            x, t = self.ex(val)
            if not (isinstance(t, tuple) and t[0] == "Tuple" and len(t[1]) == len(tgt.elts)):
                raise Untranslatable("unpacking " + ast.unparse(val)[:60])
            out = self.flush(pad)
            if not re.fullmatch(r"v\d+", x):
                v = self.tmp()
                out += "%slet %s : %s := %s\n" % (pad, v, _sp_ty(t), x)
                x = v
            n = len(tgt.elts)
            for i, v in enumerate(tgt.elts):
                out += self.let(pad, v.id, t[1][i], _sp_proj(x, i, n))
            return out
        raise Untranslatable("assignment to " + ast.unparse(tgt)[:60])

    def carried(self, body):
        order = [py for py, _, _ in self.env]
        c = [n for n in _ix_mutated(body) if self.has(n)]
        return sorted(set(c), key=lambda n: max(i for i, p in enumerate(order) if p == n))

    def loop_parts(self, cvars, body_ctx, what):
        """the lets that open a loop body, and the function that packs the state at the end of an iteration"""
        n = len(cvars)
        head = "".join(body_ctx.let("  ", py, ty, _sp_proj("s", i, n)) for i, (py, _, ty) in enumerate(cvars))

        def pack(c):
            parts = []
            for py, _, ty in cvars:
                x, t = c.lookup(py)
                parts.append(c.coerce(x, t, ty, "%s: the type of %s changes in the loop" % (what, py)))
            return parts[0] if n == 1 else "(" + ", ".join(parts) + ")"
        sty = _sp_ty(cvars[0][2]) if n == 1 else _sp_ty(("Tuple", tuple(ty for _, _, ty in cvars)))
        return head, pack, sty

    def params_of(self, body_ctx, skip):
        params, seen = [], set()
        for _, lean, _ in self.env:
            if lean in body_ctx.used and lean not in skip and lean not in seen:
                params.append((lean, [t for _, l, t in self.env if l == lean][-1]))
                seen.add(lean)
        for lean, _ in params:
            self.lookup([py for py, l, _ in self.env if l == lean][-1])
        return params

    def emit_aux(self, st, kind, make):
        """definitions of loop bodies: a loop that is translated twice (the statements after an if are translated in both branches) is emitted once"""
        own = self.fn.owner
        self.fn.nloop += 1
        aux = "%s_%s%d" % (self.fn.lean, kind, self.fn.nloop)
        text = make(aux)
        canon = text.replace(aux, "@")
        for (sid, c), name in own.aux_memo.items():
            if sid == id(st) and c == canon:
                self.fn.nloop -= 1
                return name
        own.aux_memo[(id(st), canon)] = aux
        own.defs.append(text)
        return aux

    def for_stmt(self, st, rest, ind, k):
        pad = " " * ind
        if st.orelse or not isinstance(st.target, ast.Name):
            raise Untranslatable("for statement shape")
        it, tit = self.ex(st.iter)
        if not (isinstance(tit, tuple) and tit[0] == "List"):
            raise Untranslatable("loop over " + ast.unparse(st.iter)[:60])
        pre = self.flush(pad)
        if self.has(st.target.id):
            raise Untranslatable("the loop variable %s is also a variable of the enclosing block" % st.target.id)
        carried = self.carried(st.body)
        if not carried:
            raise Untranslatable("for loop without state")
        cvars = [(n,) + self.lookup(n) for n in carried]
        body = _SpCtx(self.fn, self.env)
        head, pack, sty = self.loop_parts(cvars, body, "for")
        lv = body.define(st.target.id, tit[1])
        text = body.block(list(st.body), 2, {"fin": lambda c: ".ok " + pack(c), "cont": lambda c: ".ok " + pack(c)})
        if body.flags["fuel"]:
            raise Untranslatable("a while loop inside a for loop")
        params = self.params_of(body, {l for _, l, _ in cvars})
        line = ast.unparse(st).split("\n")[0].rstrip(":").replace("-/", "- /")
        aux = self.emit_aux(st, "for", lambda aux: "/-- body of `%s`; the state is %s -/\ndef %s %s(s : %s) (%s : %s) : Except PyExc %s :=\n%s%s\n" % (
            line, ", ".join("`%s`" % n for n in carried), aux, "".join("(%s : %s) " % (l, _sp_ty(t)) for l, t in params), sty, lv, _sp_ty(tit[1]), _sp_par(sty), head, text))
        init = cvars[0][1] if len(cvars) == 1 else "(" + ", ".join(l for _, l, _ in cvars) + ")"
        out = "%s%s(%s.foldlM (%s%s) %s).bind fun s =>\n" % (pre, pad, _sp_par(it), aux, "".join(" " + l for l, _ in params), init)
        for i, (n, _, ty) in enumerate(cvars):
            out += self.let(pad, n, ty, _sp_proj("s", i, len(cvars)))
        return out + self.block(rest, ind, k)

    def while_stmt(self, st, rest, ind, k):
        pad = " " * ind
        if st.orelse or not (isinstance(st.test, ast.Constant) and st.test.value is True):
            raise Untranslatable("while loop that is not `while True:`")
        if self.flags["fuel"]:
            raise Untranslatable("two while loops")
        carried = self.carried(st.body)
        if not carried:
            raise Untranslatable("while loop without state")
        cvars = [(n,) + self.lookup(n) for n in carried]
        body = _SpCtx(self.fn, self.env)
        head, pack, sty = self.loop_parts(cvars, body, "while")
        text = body.block(list(st.body), 2, {"fin": lambda c: ".ok (true, %s)" % pack(c), "cont": lambda c: ".ok (true, %s)" % pack(c),
                                              "brk": lambda c: ".ok (false, %s)" % pack(c)})
        if body.flags["fuel"]:
            raise Untranslatable("nested while loops")
        params = self.params_of(body, {l for _, l, _ in cvars})
        aux = self.emit_aux(st, "while", lambda aux: "/-- body of `while True:` (`false` = `break`); the state is %s -/\ndef %s %s(s : %s) : Except PyExc (Bool × %s) :=\n%s%s\n" % (
            ", ".join("`%s`" % n for n in carried), aux, "".join("(%s : %s) " % (l, _sp_ty(t)) for l, t in params), sty, _sp_par(sty), head, text))
        self.flags["fuel"] = True
        init = cvars[0][1] if len(cvars) == 1 else "(" + ", ".join(l for _, l, _ in cvars) + ")"
        out = "%s(whileTrue (%s%s) fuel %s).bind fun s =>\n" % (pad, aux, "".join(" " + l for l, _ in params), init)
        for i, (n, _, ty) in enumerate(cvars):
            out += self.let(pad, n, ty, _sp_proj("s", i, len(cvars)))
        self.flags["while_state"] = carried
        return out + self.block(rest, ind, k)


def _sp_positional(fn, n):
    a = fn.args
    if len(a.args) != n or a.vararg or a.kwarg or a.kwonlyargs or a.defaults or getattr(a, "posonlyargs", []):
        raise Untranslatable("signature of %s" % fn.name)
    return [x.arg for x in a.args]


def _gen_sort_pass():
    _, src = src_of("gaftools/cli/sort.py")
    mod = ast.parse(src)
    own = _SpOwner(mod)

    def raiser(msg):
        def f(*_):
            raise Untranslatable(msg)
        return f

    # ---- process_alignment(line, nodes, offset): the fields of the record, the node table, the ordinal of the record
    pa = find_func(mod, "process_alignment")
    pnames = _sp_positional(pa, 3)
    fn = _SpFn(own, pa, "processAlignment")
    ctx = _SpCtx(fn, [])
    ptypes = [("List", "Str"), "Nodes", "Nat"]
    pl = [ctx.define(n, t) for n, t in zip(pnames, ptypes)]
    rty = ("Tuple", ("Int", "Int", "Int", "Int", "String"))

    def ret(c, x, t):
        if t != rty:
            raise Untranslatable("process_alignment returns a %s" % _sp_ty(t))
        return ".ok " + x
    body = ctx.block(list(pa.body), 2, {"fin": raiser("process_alignment may end without a return"), "ret": ret})
    if ctx.flags["fuel"]:
        raise Untranslatable("a while loop in process_alignment")
    own.defs.append("/-- `process_alignment(%s)`: `(bo, no, start, inv, sn)` or the exception -/\ndef processAlignment %s: Except PyExc %s :=\n%s\n" % (
        ", ".join(pnames), "".join("(%s : %s) " % (l, _sp_ty(t)) for l, t in zip(pl, ptypes)), _sp_ty(rty), body))
    own.known["process_alignment"] = ("processAlignment", ptypes, rty)
    pa_defs, own.defs = own.defs, []

    # ---- sort(gaf, nodes, …): from the namedtuple to `gaf_alignments.sort(…)`
    find_func(mod, "compare_gaf")           # tied in Gen/CmpGaf.lean
    own.cmps["compare_gaf"] = "Gaftools.Gen.cmpGaf"
    so = find_func(mod, "sort")
    sparams = _sp_positional(so, len(so.args.args))
    top = list(so.body)
    has = lambda st, p: any(p(n) for n in ast.walk(st))        # noqa: E731
    wi = [i for i, st in enumerate(top) if has(st, lambda n: isinstance(n, ast.While))]
    si = [i for i, st in enumerate(top) if has(st, lambda n: isinstance(n, ast.Call) and isinstance(n.func, ast.Attribute) and n.func.attr == "sort")]
    if len(wi) != 1 or len(si) != 1 or si[0] <= wi[0]:
        raise Untranslatable("sort: one reading loop followed by one call of list.sort expected")
    wi, si = wi[0], si[0]
    lo = wi
    while lo > 0 and isinstance(top[lo - 1], ast.Assign) and len(top[lo - 1].targets) == 1 and isinstance(top[lo - 1].targets[0], ast.Name) and (
            isinstance(top[lo - 1].value, ast.Constant) or (isinstance(top[lo - 1].value, ast.List) and not top[lo - 1].value.elts)
            or (isinstance(top[lo - 1].value, ast.Call) and ast.unparse(top[lo - 1].value.func) in ("namedtuple", "collections.namedtuple"))):
        lo -= 1
    # what precedes is checked, not translated: logging, and the opening of the file in text or in BGZF mode
    pre = top[:lo]
    gz = [st for st in pre if isinstance(st, ast.If) and "is_file_gzipped" in ast.unparse(st.test)]
    if len(gz) != 1 or len(_ix_mutated([gz[0]])) != 1 or not gz[0].orelse:
        raise Untranslatable("sort: how the GAF is opened")
    reader = _ix_mutated([gz[0]])[0]
    for br in (gz[0].body, gz[0].orelse):
        if not (len(br) == 1 and isinstance(br[0], ast.Assign) and isinstance(br[0].value, ast.Call) and br[0].value.args
                and ast.unparse(br[0].value.args[0]) == sparams[0] and ast.unparse(br[0].value.func) in ("libcbgzf.BGZFile", "open")):
            raise Untranslatable("sort: how the GAF is opened")
    for st in pre:
        if st is not gz[0] and not _SpCtx.is_log(st) and not (isinstance(st, ast.Expr) and isinstance(st.value, ast.Constant)):
            raise Untranslatable("sort: statement before the first pass: " + ast.unparse(st)[:60])
    if reader in sparams:
        raise Untranslatable("sort: the reader is a parameter")
    region = top[lo:si + 1]
    calls = [n for st in region for n in ast.walk(st) if isinstance(n, ast.Call) and isinstance(n.func, ast.Name) and n.func.id == "process_alignment"]
    if len(calls) != 1 or len(calls[0].args) != 3 or calls[0].keywords or not isinstance(calls[0].args[1], ast.Name) or calls[0].args[1].id not in sparams:
        raise Untranslatable("sort: the call of process_alignment")
    nodes = calls[0].args[1].id
    fn = _SpFn(own, so, "firstPass")
    ctx = _SpCtx(fn, [])
    ln, lr = ctx.define(nodes, "Nodes"), ctx.define(reader, "GafFile")

    def fin(c):
        sv = own.sorted_var
        if sv is None or c.peek(sv)[1] != ("List", "Aln"):
            raise Untranslatable("sort: no sorted list of alignments")
        outs = [sv] + [n for n in ctx.flags.get("while_state", []) if n != sv and c.peek(n)[1] != "GafFile"]
        if [c.peek(n)[1] for n in outs] != [("List", "Aln"), "Int"]:
            raise Untranslatable("sort: the variables of the first pass are %s" % outs)
        fin.outs = outs
        return ".ok (" + ", ".join(c.lookup(n)[0] for n in outs) + ")"
    body = ctx.block(region, 2, {"fin": fin})
    if not ctx.flags["fuel"]:
        raise Untranslatable("sort: no loop translated")
    own.defs.append("/-- `sort`, from `%s` to `%s`: (%s) -/\ndef firstPass (%s : String → Option NodeTags) (%s : GafFile) (fuel : Nat) : Except PyExc (List Aln × Int) :=\n%s\n" % (
        ast.unparse(region[0]).split("\n")[0].replace("-/", "- /")[:120], ast.unparse(top[si]).split("\n")[-1].strip().replace("-/", "- /")[:90],
        ", ".join("`%s`" % n for n in fin.outs), ln, lr, body))
    return ("import Gaftools.Model.Sort\nimport Gaftools.Model.ConvText\nimport Gaftools.Gen.CmpGaf\n"
            "/-! generated by harness/translate.py from gaftools/cli/sort.py : process_alignment and the first pass of sort up to list.sort, statement by statement — do not edit -/\n"
            "set_option linter.unusedVariables false\n"
            "namespace Gaftools.Gen.SortPass\nopen Gaftools.Gaf Gaftools.Sort Gaftools.ConvText\n\n" + _SP_PRELUDE +
            "\n/-! ## process_alignment -/\n\n" + "\n".join(pa_defs) + "\n/-! ## sort: the first pass and the call of list.sort -/\n\n" + "\n".join(own.defs) + "end Gaftools.Gen.SortPass\n")


def gen_sort_pass():
    try:
        return _gen_sort_pass()
    except Untranslatable:
        raise
    except Exception as e:      # any surprise in the shape of the source is "outside the subset", never an alarm by itself
        raise Untranslatable("sort.py: %s: %s" % (type(e).__name__, e))


GENERATORS["SortPass"] = gen_sort_pass


# ---------------------------------------------------------------------------------------------------------
# gfa.Node.neighbors / in_direction / children / is_equal_to and GFA.remove_lonely_nodes / graph_from_comp / list_is_path /
# get_path / get_contig_length / return_gfa_path / is_equal_to (C15 extra, Model/GraphExtra.lean): every statement, in source order,
# as a Lean term of type `Except Exc _` (`.error` = the Python raises).  Loops are folds whose body says "go on" or "return v"
# (`forR`), a comprehension whose element or filter can raise is `compE`, a sub-expression that can raise is bound by a `match`
# in evaluation order.  A `for a in <list of string constants>` is unrolled (that is how `getattr(self, a)` gets a type).

import copy  # noqa: E402

_GH_LEAN = {"Str": "String", "Int": "Int", "Bool": "Bool", "Node": "Node", "GFA": "GFA", "AdjSet": "List Adj", "Adj": "Adj",
            "TagDict": "List Tag", "TagVal": "Tag", "NodeDict": "List Node", "C2N": "List (String × List String)", "Unit": "Unit"}

_GH_EXC = {"ValueError": "valueError", "IndexError": "indexError", "KeyError": "keyError", "AttributeError": "attributeError"}

# the slots of `Node` the model stores: python slot -> (Lean field, type); `seq_len` is derived (`seq.length`)
_GH_NODE_FIELDS = {"id": ("id", "Str"), "seq": ("seq", "Str"), "start": ("startAdj", "AdjSet"), "end": ("endAdj", "AdjSet"),
                   "tags": ("tags", "TagDict")}

# (class, method, Lean name, parameter types, result type, mutates self) — the typing the translation assumes
_GH_SIGS = [
    ("Node", "neighbors", "nodeNeighbors", [], ("List", "Str"), False),
    ("Node", "in_direction", "nodeInDirection", ["Str", "Int"], "Bool", False),
    ("Node", "children", "nodeChildren", ["Int"], ("List", "Str"), False),
    ("Node", "is_equal_to", "nodeIsEqualTo", ["Node", "Bool"], "Bool", False),
    ("GFA", "remove_lonely_nodes", "gfaRemoveLonelyNodes", [], "GFA", True),
    ("GFA", "graph_from_comp", "gfaGraphFromComp", [("List", "Str")], "GFA", False),
    ("GFA", "list_is_path", "gfaListIsPath", [("List", "Str")], "Bool", False),
    ("GFA", "get_path", "gfaGetPath", ["Str", "Bool"], ("List", "Str"), False),
    ("GFA", "get_contig_length", "gfaGetContigLength", ["Str", "Bool"], "Int", False),
    ("GFA", "return_gfa_path", "gfaReturnGfaPath", [("List", "Str")], "Str", False),
    ("GFA", "is_equal_to", "gfaIsEqualTo", ["GFA", "Bool"], "Bool", False),
]

_GH_RESERVED = {"fun", "let", "if", "then", "else", "match", "with", "at", "from", "have", "show", "do", "end", "open", "in", "def", "by",
                "where", "structure", "instance", "theorem", "Type", "Prop", "true", "false", "some", "none", "st", "it", "err", "r",
                "Exc", "GFA", "Node", "Graph", "Adj", "Tag", "Step", "forR", "compE", "mapE", "pyIdx", "pyRange", "pyRangeFrom",
                "pySorted", "pySortedBy", "pySum", "pyInt", "setEq", "dictEq", "tagsGet", "c2nGet", "nodesSet", "callRemoveNode",
                "newNode", "emptyGFA", "decide", "removeNode", "addNode", "addEdge"} | {s[2] for s in _GH_SIGS}


def _gh_lt(t):
    if isinstance(t, tuple):
        s = _gh_lt(t[1])
        return {"List": "List %s", "Opt": "Option %s"}[t[0]] % (s if " " not in s else "(%s)" % s)
    if t in _GH_LEAN:
        return _GH_LEAN[t]
    raise Untranslatable("type %s" % (t,))


def _gh_lta(t):
    s = _gh_lt(t)
    return s if " " not in s else "(%s)" % s


def _gh_str(v):
    for c in v:
        if not (32 <= ord(c) < 127):
            raise Untranslatable("character %r in a string constant" % c)
    return '"%s"' % v.replace("\\", "\\\\").replace('"', '\\"')


def _gh_is_exit(st):
    return isinstance(st, ast.Expr) and isinstance(st.value, ast.Call) and ast.unparse(st.value.func) == "sys.exit"


def _gh_is_log(st):
    return isinstance(st, ast.Expr) and isinstance(st.value, ast.Call) and ast.unparse(st.value.func).startswith("logging.")


def _gh_terminates(stmts):
    """the block never reaches its end"""
    for st in stmts:
        if isinstance(st, (ast.Return, ast.Raise, ast.Continue)) or _gh_is_exit(st):
            return True
        if isinstance(st, ast.If) and st.orelse and _gh_terminates(st.body) and _gh_terminates(st.orelse):
            return True
    return False


class _GhSubst(ast.NodeTransformer):
    """the loop variable of an unrolled loop, replaced by the constant of this round"""

    def __init__(self, name, value):
        self.name, self.value = name, value

    def visit_Name(self, n):
        if n.id == self.name:
            if not isinstance(n.ctx, ast.Load):
                raise Untranslatable("the variable %s of an unrolled loop is assigned" % n.id)
            return ast.copy_location(ast.Constant(self.value), n)
        return n


class _GhCtx:
    def __init__(self, fall, ret, in_loop):
        self.fall = fall          # (env, ind) -> text: the block reaches its end
        self.ret = ret            # (term, ind) -> text: `return term`
        self.in_loop = in_loop


class _GH:
    """typed translation of one method.  Every Python variable is a Lean variable of the same name, re-bound by `let` on
    assignment; the object a method mutates is re-bound the same way."""

    def __init__(self, sigs, cls, sig, fn):
        self.sigs = sigs                # (class, method) -> {"lean", "params", "ret", "mut", "names", "defaults"}
        self.cls, self.sig, self.fn = cls, sig, fn
        self.lname, self.pyname = sig["lean"], "%s.%s" % (cls, fn.name)
        self.k = 0
        self.loops = 0
        self.defs = []
        self.node_key = {}              # local variable holding a fresh `Node(k)` -> the Lean term of k
        self.const_lists = {}           # local variable bound once to a list of string constants -> the constants
        self.stores = {}
        for n in ast.walk(fn):
            if isinstance(n, ast.Name) and isinstance(n.ctx, ast.Store):
                self.stores[n.id] = self.stores.get(n.id, 0) + 1
            if n is not fn and isinstance(n, (ast.While, ast.With, ast.Try, ast.Global, ast.Nonlocal, ast.Yield, ast.YieldFrom, ast.Break, ast.AugAssign,
                              ast.AnnAssign, ast.NamedExpr, ast.Delete, ast.FunctionDef, ast.ClassDef, ast.Await, ast.AsyncFor, ast.Starred,
                              ast.Assert, ast.IfExp, ast.DictComp, ast.SetComp, ast.GeneratorExp)):
                raise Untranslatable("%s: %s" % (self.pyname, type(n).__name__))

    # ---- helpers
    def fresh(self):
        self.k += 1
        return "v%d" % self.k

    def check_name(self, n):
        if n in _GH_RESERVED or re.fullmatch(r"v\d+", n) or not re.fullmatch(r"[A-Za-z][A-Za-z0-9_]*", n) or n.endswith("_seq_len"):
            raise Untranslatable("variable name %s" % n)
        return n

    def bind_opt(self, term, exc, binds):
        v = self.fresh()
        binds.append((v, term, exc))
        return v

    def bind_exc(self, term, binds):
        v = self.fresh()
        binds.append((v, term, None))
        return v

    @staticmethod
    def wrap(binds, pad, inner):
        out = []
        for v, t, x in binds:
            if x is None:
                out.append("%smatch %s with\n%s| .error err => .error err\n%s| .ok %s =>" % (pad, t, pad, pad, v))
            else:
                out.append("%smatch %s with\n%s| none => .error .%s\n%s| some %s =>" % (pad, t, pad, x, pad, v))
        return "\n".join(out + [inner])

    def inner_fn(self, var, vty, binds, result):
        """`fun var => …` for an element function that can raise"""
        pad = " " * 6
        return "(fun (%s : %s) =>\n%s)" % (var, _gh_lt(vty), self.wrap(binds, pad, pad + result))

    @staticmethod
    def elem_type(t, what):
        if t == "AdjSet":
            return "Adj"
        if t == "NodeDictValues":
            return "Node"
        if isinstance(t, tuple) and t[0] == "List":
            return t[1]
        raise Untranslatable("iteration over %s" % what)

    def as_node(self, term, ty, binds, what):
        """a node object; `None` (what `GFA.__getitem__` gives for an unknown key) has no attributes: AttributeError"""
        if ty == "Node":
            return term
        if ty == ("Opt", "Node"):
            return self.bind_opt(term, "attributeError", binds)
        raise Untranslatable("%s is not a node" % what)

    # ---- expressions
    def ex(self, e, env, binds, expect=None):
        t, ty = self._ex(e, env, binds, expect)
        if expect is not None and ty != expect:
            raise Untranslatable("a value of type %s where %s is needed (%s)" % (ty, expect, ast.unparse(e)[:60]))
        return t, ty

    def truth(self, e, env, binds):
        """the truth value of `e` as a Lean Bool"""
        t, ty = self.ex(e, env, binds)
        if ty == "Bool":
            return t
        if isinstance(ty, tuple) and ty[0] == "List":
            return "(!%s.isEmpty)" % t
        raise Untranslatable("truth value of %s" % ast.unparse(e)[:60])

    def attr(self, o, oty, name, binds, u):
        if oty in ("Node", ("Opt", "Node")):
            o = self.as_node(o, oty, binds, u)
            if name in _GH_NODE_FIELDS:
                return "%s.%s" % (o, _GH_NODE_FIELDS[name][0]), _GH_NODE_FIELDS[name][1]
            if name == "seq_len":            # derived: `len(seq)` for every node the library makes
                return "(%s.seq.length : Int)" % o, "Int"
        if oty == "GFA":
            if name == "nodes":
                return "%s.g.nodes" % o, "NodeDict"
            if name == "contig_to_nodes":
                return "%s.contigToNodes" % o, "C2N"
        raise Untranslatable("attribute %s" % u)

    def _ex(self, e, env, binds, expect):
        u = ast.unparse(e)[:70]
        if isinstance(e, ast.Constant):
            v = e.value
            if isinstance(v, bool):
                return ("true" if v else "false"), "Bool"
            if isinstance(v, str):
                return _gh_str(v), "Str"
            if isinstance(v, int):
                return "(%d : Int)" % v, "Int"
            raise Untranslatable("constant %s" % u)
        if isinstance(e, ast.Name):
            if e.id in env:
                return e.id, env[e.id]
            raise Untranslatable("name %s" % e.id)
        if isinstance(e, ast.Attribute):
            o, oty = self.ex(e.value, env, binds)
            return self.attr(o, oty, e.attr, binds, u)
        if isinstance(e, ast.Subscript):
            if isinstance(e.slice, ast.Slice):
                raise Untranslatable("slice %s" % u)
            # `G.nodes[k]`: KeyError
            if isinstance(e.value, ast.Attribute) and e.value.attr == "nodes":
                g, gty = self.ex(e.value.value, env, binds)
                if gty == "GFA":
                    k, _ = self.ex(e.slice, env, binds, "Str")
                    return self.bind_opt("%s.g.find %s" % (g, k), "keyError", binds), "Node"
            o, oty = self.ex(e.value, env, binds)
            if oty == "GFA":                 # GFA.__getitem__: None for an unknown key
                k, _ = self.ex(e.slice, env, binds, "Str")
                return "(%s.g.find %s)" % (o, k), ("Opt", "Node")
            if oty == "C2N":                 # a defaultdict (checked in GFA.__init__): an absent key reads as the empty list
                k, _ = self.ex(e.slice, env, binds, "Str")
                return "(c2nGet %s %s)" % (o, k), ("List", "Str")
            if oty == "TagDict":
                k, _ = self.ex(e.slice, env, binds, "Str")
                return self.bind_opt("tagsGet %s %s" % (o, k), "keyError", binds), "TagVal"
            idx = e.slice.value if isinstance(e.slice, ast.Constant) and isinstance(e.slice.value, int) and not isinstance(e.slice.value, bool) else None
            if oty == "TagVal" and idx in (0, 1):       # the value of a tags entry is the pair (type, value)
                return "%s.%s" % (o, ("ty", "val")[idx]), "Str"
            if oty == "Adj" and idx == 0:               # (neighbour, side of the neighbour, overlap)
                return "%s.1" % o, "Str"
            if isinstance(oty, tuple) and oty[0] == "List":
                k, _ = self.ex(e.slice, env, binds, "Int")
                return self.bind_opt("pyIdx %s %s" % (o, k), "indexError", binds), oty[1]
            raise Untranslatable("subscript %s" % u)
        if isinstance(e, ast.List):
            if not e.elts and isinstance(expect, tuple) and expect[0] == "List":
                return "[]", expect
            if e.elts and all(isinstance(x, ast.Constant) and isinstance(x.value, str) for x in e.elts):
                return "[%s]" % ", ".join(_gh_str(x.value) for x in e.elts), ("List", "Str")
            raise Untranslatable("list display %s" % u)
        if isinstance(e, ast.BinOp) and type(e.op) in (ast.Add, ast.Sub):
            a, ta = self.ex(e.left, env, binds)
            b, _ = self.ex(e.right, env, binds, ta)
            if ta == "Int":
                return "(%s %s %s)" % (a, "+" if isinstance(e.op, ast.Add) else "-", b), "Int"
            if isinstance(e.op, ast.Add) and (ta == "Str" or (isinstance(ta, tuple) and ta[0] == "List")):
                return "(%s ++ %s)" % (a, b), ta
            raise Untranslatable("arithmetic %s" % u)
        if isinstance(e, ast.UnaryOp) and isinstance(e.op, ast.USub):
            if isinstance(e.operand, ast.Constant) and isinstance(e.operand.value, int) and not isinstance(e.operand.value, bool):
                return "(-%d : Int)" % e.operand.value, "Int"
            a, _ = self.ex(e.operand, env, binds, "Int")
            return "(-%s)" % a, "Int"
        if isinstance(e, ast.UnaryOp) and isinstance(e.op, ast.Not):
            a, ta = self.ex(e.operand, env, binds)
            if ta == "Bool":
                return "(!%s)" % a, "Bool"
            if isinstance(ta, tuple) and ta[0] == "List":      # an empty list is false
                return "%s.isEmpty" % a, "Bool"
            raise Untranslatable("truth value of %s" % u)
        if isinstance(e, ast.BoolOp):
            parts = []
            for i, x in enumerate(e.values):
                n = len(binds)
                parts.append(self.truth(x, env, binds))
                if i > 0 and len(binds) > n:
                    raise Untranslatable("an operand of %s that can raise is evaluated conditionally" % u)
            return "(" + (" && " if isinstance(e.op, ast.And) else " || ").join(parts) + ")", "Bool"
        if isinstance(e, ast.Compare) and len(e.ops) == 1:
            l, r, op = e.left, e.comparators[0], type(e.ops[0])
            if op in (ast.In, ast.NotIn):
                a, ta = self.ex(l, env, binds)           # Python evaluates the left operand first
                b, tb = self.ex(r, env, binds)
                if tb != ("List", ta) or ta not in ("Str", "Int"):
                    raise Untranslatable("membership %s" % u)
                c = "(%s.contains %s)" % (b, a)
                return (c if op is ast.In else "(!%s)" % c), "Bool"
            if op in (ast.Is, ast.IsNot) and isinstance(r, ast.Constant) and r.value is None:
                a, ta = self.ex(l, env, binds)
                if isinstance(ta, tuple) and ta[0] == "Opt":
                    return ("%s.isNone" if op is ast.Is else "%s.isSome") % a, "Bool"
                raise Untranslatable("test %s" % u)
            if op in (ast.Eq, ast.NotEq):
                a, ta = self.ex(l, env, binds)
                b, _ = self.ex(r, env, binds, ta)
                if ta in ("Str", "Int", "Bool", ("List", "Str"), ("List", "Int")):
                    c = "(%s == %s)" % (a, b)
                elif ta == "AdjSet":                     # two sets
                    c = "(setEq %s %s)" % (a, b)
                elif ta == "TagDict":                    # two dicts
                    c = "(dictEq %s %s)" % (a, b)
                else:
                    raise Untranslatable("comparison %s" % u)
                return (c if op is ast.Eq else "(!%s)" % c), "Bool"
            sym = {ast.Lt: "<", ast.Gt: ">", ast.LtE: "≤", ast.GtE: "≥"}.get(op)
            if sym:
                a, _ = self.ex(l, env, binds, "Int")
                b, _ = self.ex(r, env, binds, "Int")
                return "decide (%s %s %s)" % (a, sym, b), "Bool"
            raise Untranslatable("comparison %s" % u)
        if isinstance(e, ast.ListComp):
            return self.comprehension(e, env, binds, u)
        if isinstance(e, ast.Call):
            return self.call(e, env, binds, expect, u)
        raise Untranslatable("expression %s" % u)

    def comprehension(self, e, env, binds, u):
        g = e.generators[0] if len(e.generators) == 1 else None
        if g is None or g.is_async or not isinstance(g.target, ast.Name) or len(g.ifs) > 1:
            raise Untranslatable("comprehension %s" % u)
        it, ity = self.ex(g.iter, env, binds)
        var = self.check_name(g.target.id)
        if var in env:
            raise Untranslatable("comprehension variable %s hides a local variable" % var)
        env2 = dict(env)
        env2[var] = self.elem_type(ity, ast.unparse(g.iter))
        bc, be = [], []
        cond = self.truth(g.ifs[0], env2, bc) if g.ifs else None
        elt, ety = self.ex(e.elt, env2, be)
        if not bc and not be and cond is None:
            return "(%s.map (fun (%s : %s) => %s))" % (it, var, _gh_lt(env2[var]), elt), ("List", ety)
        pad = " " * 6
        if cond is None:
            body = self.wrap(be, pad, pad + ".ok (some %s)" % elt)
        else:
            body = self.wrap(bc, pad, "%sif %s then\n%s\n%selse\n%s  .ok none" % (
                pad, cond, self.wrap(be, pad + "  ", pad + "  .ok (some %s)" % elt), pad, pad))
        fn = "(fun (%s : %s) =>\n%s)" % (var, _gh_lt(env2[var]), body)
        return self.bind_exc("compE %s %s" % (fn, it), binds), ("List", ety)

    def call(self, e, env, binds, expect, u):
        f = e.func
        fname = f.id if isinstance(f, ast.Name) else None
        kw = {k.arg: k.value for k in e.keywords}
        if None in kw:
            raise Untranslatable("call %s" % u)
        if fname == "sorted" and len(e.args) == 1 and set(kw) <= {"key"}:
            a, ta = self.ex(e.args[0], env, binds)
            if ta != ("List", "Str"):
                raise Untranslatable("sorted(%s)" % ta)
            if "key" not in kw:
                return "(pySorted %s)" % a, ta
            lam = kw["key"]
            if not (isinstance(lam, ast.Lambda) and len(lam.args.args) == 1 and not lam.args.defaults and not lam.args.vararg
                    and not lam.args.kwarg and not lam.args.kwonlyargs and not lam.args.posonlyargs):
                raise Untranslatable("sort key %s" % u)
            var = self.check_name(lam.args.args[0].arg)
            if var in env:
                raise Untranslatable("lambda variable %s hides a local variable" % var)
            env2 = dict(env)
            env2[var] = "Str"
            b2 = []
            t, _ = self.ex(lam.body, env2, b2, "Int")
            # all keys are computed first, left to right (any of them can raise), then the list is sorted (stable)
            return self.bind_exc("pySortedBy %s %s" % (self.inner_fn(var, "Str", b2, ".ok %s" % t), a), binds), ta
        if e.keywords and fname is not None:
            raise Untranslatable("call %s" % u)
        if fname == "len" and len(e.args) == 1:
            a, ta = self.ex(e.args[0], env, binds)
            if ta == "GFA":                  # GFA.__len__ (checked): len(self.nodes)
                return "(%s.g.nodes.length : Int)" % a, "Int"
            if ta in ("Str", "AdjSet", "TagDict", "NodeDict") or (isinstance(ta, tuple) and ta[0] == "List"):
                return "(%s.length : Int)" % a, "Int"
            raise Untranslatable("len of %s" % ta)
        if fname == "int" and len(e.args) == 1:
            a, _ = self.ex(e.args[0], env, binds, "Str")
            return self.bind_opt("pyInt %s" % a, "valueError", binds), "Int"
        if fname == "sum" and len(e.args) == 1:
            a, _ = self.ex(e.args[0], env, binds, ("List", "Int"))
            return "(pySum %s)" % a, "Int"
        if fname == "list" and not e.args:
            if isinstance(expect, tuple) and expect[0] == "List":
                return "[]", expect
            raise Untranslatable("list() of unknown type")
        if fname == "range" and len(e.args) in (1, 2):
            a = [self.ex(x, env, binds, "Int")[0] for x in e.args]
            return "(pyRange %s)" % " ".join((["(0 : Int)"] + a)[-2:]), ("List", "Int")
        if fname == "getattr" and len(e.args) == 2 and isinstance(e.args[1], ast.Constant) and isinstance(e.args[1].value, str):
            o, oty = self.ex(e.args[0], env, binds)
            if not e.args[1].value.isidentifier():
                raise Untranslatable("getattr %s" % u)
            return self.attr(o, oty, e.args[1].value, binds, u)
        if isinstance(f, ast.Attribute):
            m = f.attr
            if m == "join" and isinstance(f.value, ast.Constant) and isinstance(f.value.value, str) and len(e.args) == 1 and not kw:
                a, _ = self.ex(e.args[0], env, binds, ("List", "Str"))
                return "(%s.intercalate %s)" % (_gh_str(f.value.value), a), "Str"
            o, oty = self.ex(f.value, env, binds)
            if oty == "NodeDict" and m == "values" and not e.args and not kw:
                return o, ("List", "Node")
            if oty in ("Node", "GFA") and (oty, m) in self.sigs:
                sig = self.sigs[(oty, m)]
                if sig["mut"]:
                    raise Untranslatable("a mutating call used as a value: %s" % u)
                args = self.args_of(e, sig, env, binds, u)
                return self.bind_exc("%s %s" % (sig["lean"], " ".join([o] + args)), binds), sig["ret"]
        raise Untranslatable("call %s" % u)

    def args_of(self, e, sig, env, binds, u):
        names, types, defaults = sig["names"], sig["params"], sig["defaults"]
        if len(e.args) > len(names):
            raise Untranslatable("call %s" % u)
        given = dict(zip(names, e.args))
        for k in e.keywords:
            if k.arg is None or k.arg not in names or k.arg in given:
                raise Untranslatable("call %s" % u)
        # positional arguments are evaluated first, then the keyword arguments in the order written
        terms = {}
        for n, a in list(given.items()) + [(k.arg, k.value) for k in e.keywords]:
            terms[n] = self.ex(a, env, binds, types[names.index(n)])[0]
        out = []
        for n, ty in zip(names, types):
            if n in terms:
                out.append(terms[n])
            elif n in defaults:
                out.append(self.ex(defaults[n], {}, [], ty)[0])
            else:
                raise Untranslatable("call %s: argument %s is missing" % (u, n))
        return out

    # ---- statements
    def assigned(self, stmts):
        out = []

        def add(n):
            if n not in out:
                out.append(n)
        for st in stmts:
            if isinstance(st, ast.Assign):
                for t in st.targets:
                    while isinstance(t, (ast.Subscript, ast.Attribute)):
                        t = t.value
                    if isinstance(t, ast.Name):
                        add(t.id)
                    else:
                        raise Untranslatable("assignment %s" % ast.unparse(st)[:60])
            elif isinstance(st, ast.Expr) and isinstance(st.value, ast.Call) and isinstance(st.value.func, ast.Attribute):
                t = st.value.func.value
                while isinstance(t, (ast.Subscript, ast.Attribute)):
                    t = t.value
                if isinstance(t, ast.Name) and not _gh_is_log(st) and not _gh_is_exit(st):
                    add(t.id)                 # a method call on an object may change it
            elif isinstance(st, (ast.If, ast.For)):
                for n in self.assigned(st.body) + self.assigned(st.orelse):
                    add(n)
        return out

    def blk(self, stmts, env, ind, ctx):
        pad = " " * ind
        if not stmts:
            return ctx.fall(env, ind)
        st, rest = stmts[0], stmts[1:]
        u = ast.unparse(st)[:70]
        if (isinstance(st, ast.Expr) and isinstance(st.value, ast.Constant)) or isinstance(st, ast.Pass) or _gh_is_log(st):
            return self.blk(rest, env, ind, ctx)         # a docstring, a log line
        if isinstance(st, ast.Continue):
            if not ctx.in_loop:
                raise Untranslatable("continue outside a translated loop")
            return ctx.fall(env, ind)
        binds = []

        def cont(env2=None):
            return self.blk(rest, env if env2 is None else env2, ind, ctx)

        def let(name, ty, term, env0=None):
            self.check_name(name)
            env2 = dict(env if env0 is None else env0)
            if name in env2 and env2[name] != ty:
                raise Untranslatable("%s changes its type (%s, %s)" % (name, env2[name], ty))
            env2[name] = ty
            return self.wrap(binds, pad, "%slet %s : %s := %s\n%s" % (pad, name, _gh_lt(ty), term, cont(env2)))
        if _gh_is_exit(st):
            return "%s.error .exit" % pad
        if isinstance(st, ast.Raise):
            if isinstance(st.exc, ast.Call) and isinstance(st.exc.func, ast.Name) and st.exc.func.id in _GH_EXC:
                return "%s.error .%s" % (pad, _GH_EXC[st.exc.func.id])
            raise Untranslatable("statement %s" % u)
        if isinstance(st, ast.Return):
            if st.value is None:
                raise Untranslatable("statement %s" % u)
            v, _ = self.ex(st.value, env, binds, self.sig["ret"])
            if self.sig["mut"]:
                raise Untranslatable("a return in a method that changes the object")
            return self.wrap(binds, pad, ctx.ret(v, ind))
        if isinstance(st, ast.Assign) and len(st.targets) == 1:
            t = st.targets[0]
            if isinstance(t, ast.Name):
                self.check_name(t.id)
                val = st.value
                if isinstance(val, ast.Call) and isinstance(val.func, ast.Name) and val.func.id in ("Node", "GFA") and not val.keywords:
                    if val.func.id == "Node" and len(val.args) == 1:
                        a, _ = self.ex(val.args[0], env, binds, "Str")
                        self.node_key[t.id] = a
                        return let(t.id, "Node", "newNode %s" % a)
                    if val.func.id == "GFA" and not val.args:
                        return let(t.id, "GFA", "emptyGFA")
                    raise Untranslatable("assignment %s" % u)
                self.node_key.pop(t.id, None)
                want = env[t.id] if t.id in env else None
                if want is None and ((isinstance(val, ast.List) and not val.elts) or ast.unparse(val) == "list()"):
                    # an empty list: its element type is the one under which the rest of the function has a translation
                    saved = (self.k, self.loops, list(self.defs), dict(self.node_key), dict(self.const_lists))
                    for cand in ("Str", "Int"):
                        try:
                            return let(t.id, ("List", cand), "[]")
                        except Untranslatable:
                            self.k, self.loops = saved[0], saved[1]
                            self.defs, self.node_key, self.const_lists = list(saved[2]), dict(saved[3]), dict(saved[4])
                    raise Untranslatable("assignment %s: the type of the list" % u)
                v, ty = self.ex(val, env, binds, want)
                if ty in ("NodeDict", "C2N", "NodeDictValues"):
                    raise Untranslatable("assignment %s: an alias of a dict of the object" % u)
                if (isinstance(val, ast.List) and val.elts and ty == ("List", "Str") and self.stores.get(t.id) == 1
                        and t.id not in [a.arg for a in self.fn.args.args]):
                    self.const_lists[t.id] = [x.value for x in val.elts]
                return let(t.id, ty, v)
            if isinstance(t, ast.Attribute) and isinstance(t.value, ast.Name) and env.get(t.value.id) == "Node":
                var = t.value.id
                if var not in self.node_key:             # only an object made here (no alias of a node of the graph)
                    raise Untranslatable("assignment %s" % u)
                if t.attr == "seq_len":                  # a slot the model derives from `seq`: the value is computed and dropped
                    v, _ = self.ex(st.value, env, binds, "Int")
                    return self.wrap(binds, pad, "%slet %s_seq_len : Int := %s\n%s" % (pad, var, v, cont()))
                if t.attr in _GH_NODE_FIELDS and t.attr != "id":
                    fld, fty = _GH_NODE_FIELDS[t.attr]
                    v, _ = self.ex(st.value, env, binds, fty)
                    return let(var, "Node", "{ %s with %s := %s }" % (var, fld, v))
                raise Untranslatable("assignment %s" % u)
            if (isinstance(t, ast.Subscript) and isinstance(t.value, ast.Attribute) and t.value.attr == "nodes"
                    and isinstance(t.value.value, ast.Name) and env.get(t.value.value.id) == "GFA" and not isinstance(t.slice, ast.Slice)):
                # `G.nodes[key] = node`
                gv = t.value.value.id
                if not (isinstance(st.value, ast.Name) and env.get(st.value.id) == "Node" and st.value.id in self.node_key):
                    raise Untranslatable("assignment %s" % u)
                v = st.value.id
                k, _ = self.ex(t.slice, env, binds, "Str")
                if self.node_key[v] != k:
                    raise Untranslatable("a node is stored under a key that is not its id: %s" % u)
                env2 = dict(env)
                del env2[v]                               # the object now lives in the graph; the local name may not be used again
                return let(gv, "GFA", "{ %s with g := nodesSet %s.g %s %s }" % (gv, gv, k, v), env2)
            raise Untranslatable("assignment %s" % u)
        if isinstance(st, ast.Expr) and isinstance(st.value, ast.Call) and isinstance(st.value.func, ast.Attribute):
            c = st.value
            f, m = c.func.value, c.func.attr
            if m == "append" and len(c.args) == 1 and not c.keywords and isinstance(f, ast.Name) and isinstance(env.get(f.id), tuple) \
                    and env[f.id][0] == "List":
                v, _ = self.ex(c.args[0], env, binds, env[f.id][1])
                return let(f.id, env[f.id], "(%s ++ [%s])" % (f.id, v))
            if isinstance(f, ast.Name) and env.get(f.id) == "GFA" and m == "remove_node" and len(c.args) == 1 and not c.keywords:
                k, _ = self.ex(c.args[0], env, binds, "Str")
                return self.wrap(binds, pad, "%smatch callRemoveNode %s %s with\n%s| .error err => .error err\n%s| .ok %s =>\n%s" % (
                    pad, f.id, k, pad, pad, f.id, cont()))
            raise Untranslatable("call %s" % u)
        if isinstance(st, ast.If):
            t = st.test
            if (isinstance(t, ast.Compare) and len(t.ops) == 1 and isinstance(t.ops[0], ast.Is) and isinstance(t.left, ast.Name)
                    and isinstance(t.comparators[0], ast.Constant) and t.comparators[0].value is None
                    and isinstance(env.get(t.left.id), tuple) and env[t.left.id][0] == "Opt" and not st.orelse and _gh_terminates(st.body)):
                # `if x is None: … return` — below, x is an object
                x = t.left.id
                env2 = dict(env)
                env2[x] = env[x][1]
                return "%smatch %s with\n%s| none =>\n%s\n%s| some %s =>\n%s" % (
                    pad, x, pad, self.blk(st.body, env, ind + 2, ctx), pad, x, self.blk(rest, env2, ind, ctx))
            c = self.truth(t, env, binds)
            then = self.blk(st.body if _gh_terminates(st.body) else st.body + rest, env, ind + 2, ctx)
            els = self.blk(st.orelse if _gh_terminates(st.orelse) else st.orelse + rest, env, ind + 2, ctx)
            return self.wrap(binds, pad, "%sif %s then\n%s\n%selse\n%s" % (pad, c, then, pad, els))
        if isinstance(st, ast.For):
            return self.loop(st, rest, env, ind, ctx)
        raise Untranslatable("statement %s" % u)

    def loop(self, st, rest, env, ind, ctx):
        pad = " " * ind
        u = ast.unparse(st)[:60]
        if st.orelse:
            raise Untranslatable("loop %s" % u)
        # -- a loop over a list of string constants bound once: unrolled
        if isinstance(st.iter, ast.Name) and st.iter.id in self.const_lists and st.iter.id in env and isinstance(st.target, ast.Name):
            if any(isinstance(n, ast.Continue) for x in st.body for n in ast.walk(x)):
                raise Untranslatable("continue in an unrolled loop")
            if st.target.id in env:
                raise Untranslatable("loop variable %s hides a local variable" % st.target.id)
            stmts = []
            for cst in self.const_lists[st.iter.id]:
                for x in st.body:
                    stmts.append(ast.fix_missing_locations(_GhSubst(st.target.id, cst).visit(copy.deepcopy(x))))
            return self.blk(stmts + rest, env, ind, ctx)
        self.loops += 1
        fname = "%sLoop%d" % (self.lname, self.loops)
        binds = []
        head = []
        if (isinstance(st.target, ast.Tuple) and len(st.target.elts) == 2 and all(isinstance(x, ast.Name) for x in st.target.elts)
                and isinstance(st.iter, ast.Call) and isinstance(st.iter.func, ast.Attribute) and st.iter.func.attr == "items"
                and not st.iter.args and not st.iter.keywords):
            it, ity = self.ex(st.iter.func.value, env, binds)
            if ity != "NodeDict":
                raise Untranslatable("loop %s" % u)
            kv, nv = [self.check_name(x.id) for x in st.target.elts]
            var, vty = "it", "Node"                      # the dict is keyed by the id of the node
            head = [(kv, "Str", "it.id"), (nv, "Node", "it")]
            newvars = [kv, nv]
        elif isinstance(st.target, ast.Name):
            it, ity = self.ex(st.iter, env, binds)
            var, vty = self.check_name(st.target.id), self.elem_type(ity, ast.unparse(st.iter))
            newvars = [var]
        else:
            raise Untranslatable("loop %s" % u)
        if any(v in env for v in newvars) or len(set(newvars)) != len(newvars):
            raise Untranslatable("loop variable of %s hides a local variable" % u)
        carried = [v for v in self.assigned(st.body) if v in env]
        if any(v in newvars for v in self.assigned(st.body)):
            raise Untranslatable("the loop variable of %s is assigned" % u)
        free = []
        for n in ast.walk(ast.Module(body=st.body, type_ignores=[])):
            if isinstance(n, ast.Name) and n.id in env and n.id not in carried and n.id not in free:
                free.append(n.id)
        free.sort(key=lambda v: list(env).index(v))
        for v in carried:
            if v in self.node_key:
                raise Untranslatable("a node object is changed inside %s" % u)
        sty = " × ".join(_gh_lta(env[v]) for v in carried) if carried else "Unit"
        rty = _gh_lta(self.sig["ret"])

        def proj(i):
            n = len(carried)
            return "st" if n == 1 else "st" + ".2" * i + (".1" if i < n - 1 else "")

        def pack(e):
            for v in carried:
                if e.get(v) != env[v]:
                    raise Untranslatable("%s changes its type in the loop" % v)
            return "()" if not carried else (carried[0] if len(carried) == 1 else "(" + ", ".join(carried) + ")")
        benv = {v: env[v] for v in free + carried}
        benv[var] = vty
        for n, ty, _ in head:
            benv[n] = ty
        bctx = _GhCtx(lambda e, i: " " * i + ".ok (.next %s)" % pack(e), lambda v, i: " " * i + ".ok (.ret %s)" % v, True)
        body = self.blk(st.body, benv, 2, bctx)
        lets = ["  let %s : %s := %s" % (v, _gh_lt(env[v]), proj(i)) for i, v in enumerate(carried)]
        lets += ["  let %s : %s := %s" % (n, _gh_lt(ty), tm) for n, ty, tm in head]
        self.defs.append("/-- the body of `for %s in %s:` of `%s`; the state is what the body assigns -/\n"
                         "def %s %s(st : %s) (%s : %s) : Except Exc (Step %s %s) :=\n%s" % (
                             ast.unparse(st.target), ast.unparse(st.iter)[:80], self.pyname, fname,
                             "".join("(%s : %s) " % (v, _gh_lt(env[v])) for v in free), sty.strip("()") if " × " not in sty else sty, var, _gh_lt(vty),
                             "(%s)" % sty if " × " in sty else sty, rty, "\n".join(lets + [body])))
        after = ["%s  let %s : %s := %s" % (pad, v, _gh_lt(env[v]), proj(i)) for i, v in enumerate(carried)]
        on_ret = "%s| .ok (.ret r) =>\n%s" % (pad, ctx.ret("r", ind + 2))
        return self.wrap(binds, pad, "%smatch forR %s %s (%s) with\n%s| .error err => .error err\n%s\n%s| .ok (.next st) =>\n%s" % (
            pad, it, pack(env), " ".join([fname] + free), pad, on_ret, pad, "\n".join(after + [self.blk(rest, env, ind + 2, ctx)])))

    def function(self):
        fn, sig = self.fn, self.sig
        env = {}
        names = [a.arg for a in fn.args.args]
        for n, ty in zip(names, [self.cls] + sig["params"]):
            env[self.check_name(n)] = ty
        me = names[0]
        body = [st for st in fn.body if not (isinstance(st, ast.Expr) and isinstance(st.value, ast.Constant))]
        if sig["mut"]:
            def fall(e, ind):
                if e.get(me) != self.cls:
                    raise Untranslatable("%s: the object is lost" % self.pyname)
                return " " * ind + ".ok %s" % me
        else:
            def fall(e, ind):
                raise Untranslatable("%s can end without a return" % self.pyname)
        ctx = _GhCtx(fall, lambda v, ind: " " * ind + ".ok %s" % v, False)
        text = self.blk(body, env, 2, ctx)
        head = "def %s %s: Except Exc %s :=\n" % (sig["lean"], "".join("(%s : %s) " % (n, _gh_lt(env[n])) for n in names), _gh_lta(sig["ret"]))
        return "".join(d + "\n\n" for d in self.defs) + "/-- `%s(%s)` -/\n" % (self.pyname, ", ".join(names[1:])) + head + text + "\n"


GRAPH_HELPERS_PRELUDE = """import Gaftools.Model.GraphExtra
/-! %s -/
set_option linter.unusedVariables false
namespace Gaftools.Gen.GraphHelpers
open Gaftools.Gfa

/-- the Python exceptions these methods can end in (`exit` = `sys.exit(1)`); the type of `Model/GraphExtra.lean` -/
abbrev Exc := Gaftools.GraphExtra.PyErr
/-- the object `GFA`: `nodes` + `edge_tags` (= `Gfa.Graph`; the dict `nodes` is the list of its values, keyed by their `id`) and
    `contig_to_nodes`; the type of `Model/GraphExtra.lean` -/
abbrev GFA := Gaftools.GraphExtra.GFA

/-! ## the Python primitives the translation refers to -/

/-- what one round of a loop body ends in: the next round with the new values of the assigned variables, or `return v` -/
inductive Step (σ ρ : Type) where
  | next (s : σ)
  | ret (v : ρ)

/-- `for x in xs: body` where the body can raise and can return -/
def forR {α σ ρ : Type} : List α → σ → (σ → α → Except Exc (Step σ ρ)) → Except Exc (Step σ ρ)
  | [], s, _ => .ok (.next s)
  | x :: r, s, body =>
    match body s x with
    | .error e => .error e
    | .ok (.ret v) => .ok (.ret v)
    | .ok (.next s') => forR r s' body

/-- `[elt for x in xs if cond]` where `cond` / `elt` can raise: `f x` = `none` (filtered out) or `some elt`, left to right -/
def compE {α β : Type} (f : α → Except Exc (Option β)) : List α → Except Exc (List β)
  | [] => .ok []
  | x :: r =>
    match f x with
    | .error e => .error e
    | .ok o =>
      match compE f r with
      | .error e => .error e
      | .ok l => .ok (match o with | some y => y :: l | none => l)

/-- `l[i]` for a Python int `i` (negative: from the end); `none` = `IndexError` -/
def pyIdx {α : Type} (l : List α) (i : Int) : Option α :=
  if i ≥ 0 then l[i.toNat]? else if i + (l.length : Int) ≥ 0 then l[(i + (l.length : Int)).toNat]? else none

/-- `range(a, b)` -/
def pyRangeFrom (a : Int) : Nat → List Int
  | 0 => []
  | n + 1 => a :: pyRangeFrom (a + 1) n
def pyRange (a b : Int) : List Int := pyRangeFrom a (b - a).toNat

/-- `sorted(l)` for a list of strings: the insertion sort of `Model/Gfa.lean` (a sorted permutation: `Proofs/BiccLemmas2.lean`) -/
def pySorted (l : List String) : List String := sortStrings l

/-- `sorted(l, key=…)`: the keys of all elements are computed first, left to right (any of them can raise), then the list is
    sorted stably (`GraphExtra.sortByKey`: `sortByKey_perm`, `sortByKey_sorted`, `sortByKey_stable` in `Proofs/GraphExtraLemmas.lean`) -/
def pySortedBy (key : String → Except Exc Int) (l : List String) : Except Exc (List String) :=
  match compE (fun x => match key x with | .error e => .error e | .ok k => .ok (some (x, k))) l with
  | .error e => .error e
  | .ok ks => .ok ((Gaftools.GraphExtra.sortByKey ks).map (·.1))

/-- `sum(l)`: from 0, left to right -/
def pySum (l : List Int) : Int := l.foldl (· + ·) 0

/-- `int(s)` on a tag value (`none` = `ValueError`): `GraphExtra.pyInt`, i.e. `[-+]?[0-9]+` — what an `i` tag can hold -/
def pyInt (s : String) : Option Int := Gaftools.GraphExtra.pyInt s

/-- `==` of two sets, of two dicts (equal item sets), on their duplicate-free list representations -/
def setEq {α : Type} [BEq α] (a b : List α) : Bool := a.all (fun x => b.contains x) && b.all (fun x => a.contains x)
def dictEq (a b : List Tag) : Bool := setEq a b

/-- `tags[name]` for the `tags` dict of a node (name ↦ (type, value)); `none` = `KeyError` -/
def tagsGet (d : List Tag) (k : String) : Option Tag := d.find? (·.name == k)

/-- `self.contig_to_nodes[k]`: a `defaultdict` whose default is the empty list (the entry a read of a missing key creates is
    not modelled) -/
def c2nGet (d : List (String × List String)) (k : String) : List String :=
  match d.find? (·.1 == k) with
  | some e => e.2
  | none => []

/-- `G.nodes[key] = value` (the value's `id` is `key`: checked by the translator) -/
def nodesSet (g : Graph) (key : String) (v : Node) : Graph :=
  { g with nodes := if g.nodes.any (·.id == key) then g.nodes.map (fun m => if m.id == key then v else m) else g.nodes ++ [v] }

/-- `self.remove_node(k)`: `KeyError` for an unknown id, else `Gfa.removeNode` — tied to the source by Gen/GfaMutate.lean
    (`TieA20.removeNode_gen`, `TieA20.removeNode_missing`; restated for this call in `TieA25.callRemoveNode_gen`) -/
def callRemoveNode (x : GFA) (k : String) : Except Exc GFA :=
  if x.g.has k then .ok { x with g := removeNode x.g k } else .error .keyError

"""


def _gh_inits(mod):
    """`Node(identifier)` and `GFA()` from the two `__init__`, and the container protocol the methods go through"""
    _gm_expect_body(find_func(mod, "__getitem__", cls="GFA"), ["try:\n    return self.nodes[key]\nexcept KeyError:\n    return None"], "GFA.__getitem__")
    _gm_expect_body(find_func(mod, "__len__", cls="GFA"), ["return len(self.nodes)"], "GFA.__len__")
    if [a.arg for a in find_func(mod, "remove_node", cls="GFA").args.args] != ["self", "n_id"]:
        raise Untranslatable("remove_node signature")
    ni = find_func(mod, "__init__", cls="Node")
    if len(ni.args.args) != 2 or ni.args.vararg or ni.args.kwarg or ni.args.kwonlyargs or ni.args.defaults:
        raise Untranslatable("Node.__init__ signature")
    me, ident = ni.args.args[0].arg, ni.args.args[1].arg
    fields, ghost = {}, {}
    for st in _gm_body(ni):
        if not (isinstance(st, ast.Assign) and len(st.targets) == 1 and isinstance(st.targets[0], ast.Attribute)
                and isinstance(st.targets[0].value, ast.Name) and st.targets[0].value.id == me):
            raise Untranslatable("Node.__init__: %s" % ast.unparse(st)[:60])
        slot, v = st.targets[0].attr, st.value
        u = ast.unparse(v)
        if slot in fields or slot in ghost:
            raise Untranslatable("Node.__init__ assigns %s twice" % slot)
        if slot in _GH_NODE_FIELDS:
            fld, ty = _GH_NODE_FIELDS[slot]
            if ty == "Str" and isinstance(v, ast.Name) and v.id == ident:
                fields[fld] = "identifier"
            elif ty == "Str" and isinstance(v, ast.Constant) and isinstance(v.value, str):
                fields[fld] = _gh_str(v.value)
            elif ty == "AdjSet" and u == "set()":
                fields[fld] = "[]"
            elif ty == "TagDict" and u in ("dict()", "{}"):
                fields[fld] = "[]"
            else:
                raise Untranslatable("Node.__init__: %s" % ast.unparse(st)[:60])
        elif slot == "seq_len" and isinstance(v, ast.Constant) and isinstance(v.value, int) and not isinstance(v.value, bool):
            ghost[slot] = "(%d : Int)" % v.value
        elif slot == "visited" and isinstance(v, ast.Constant) and isinstance(v.value, bool):
            ghost[slot] = "true" if v.value else "false"
        else:
            raise Untranslatable("Node.__init__: %s" % ast.unparse(st)[:60])
    if set(fields) != {"id", "seq", "startAdj", "endAdj", "tags"} or set(ghost) != {"seq_len", "visited"} or fields["id"] != "identifier":
        raise Untranslatable("Node.__init__ does not set every slot")
    new_node = "{ " + ", ".join("%s := %s" % (f, fields[f]) for f in ("id", "seq", "startAdj", "endAdj", "tags")) + " }"
    gi = find_func(mod, "__init__", cls="GFA")
    want = {"nodes": ("dict()", "{}"), "edge_tags": ("dict()", "{}"), "contig_to_nodes": ("defaultdict(lambda: [])", "defaultdict(list)")}
    init = {}
    pos = gi.args.args[1:]
    if len(gi.args.defaults) != len(pos) or gi.args.vararg or gi.args.kwarg or gi.args.kwonlyargs:
        raise Untranslatable("GFA.__init__ signature")          # `GFA()` must be a legal call
    falsy = {a.arg for a, d in zip(pos, gi.args.defaults) if isinstance(d, ast.Constant) and not d.value}
    for st in _gm_body(gi):
        if isinstance(st, ast.Assign) and len(st.targets) == 1 and isinstance(st.targets[0], ast.Attribute) and _gm_is_self(st.targets[0].value):
            slot = st.targets[0].attr
            if slot in want:
                if ast.unparse(st.value) not in want[slot] or slot in init:
                    raise Untranslatable("GFA.__init__: %s" % ast.unparse(st)[:60])
                init[slot] = "[]"
            elif slot not in ("low_memory", "contigs"):
                raise Untranslatable("GFA.__init__: %s" % ast.unparse(st)[:60])
        elif isinstance(st, ast.If) and isinstance(st.test, ast.Name) and st.test.id in falsy and not st.orelse:
            pass                              # `GFA()` without a file: the branch that reads one is not taken
        else:
            raise Untranslatable("GFA.__init__: %s" % ast.unparse(st)[:60])
    if set(init) != set(want):
        raise Untranslatable("GFA.__init__")
    return new_node, ghost, init


def gen_graph_helpers():
    try:
        return _gen_graph_helpers()
    except Untranslatable:
        raise
    except Exception as e:  # a shape the translator did not foresee is never an alarm
        raise Untranslatable("translator: %s: %s" % (type(e).__name__, e))


def _gen_graph_helpers():
    _, src = src_of("gaftools/gfa.py")
    mod = ast.parse(src)
    new_node, ghost, init = _gh_inits(mod)
    sigs, fns = {}, []
    for cls, m, lean, params, ret, mut in _GH_SIGS:
        fn = find_func(mod, m, cls=cls)
        a = fn.args
        if a.vararg or a.kwarg or a.kwonlyargs or a.posonlyargs or len(a.args) != 1 + len(params) or fn.decorator_list:
            raise Untranslatable("%s.%s signature" % (cls, m))
        names = [x.arg for x in a.args[1:]]
        defaults = dict(zip(names[len(names) - len(a.defaults):], a.defaults)) if a.defaults else {}
        sigs[(cls, m)] = {"lean": lean, "params": params, "ret": ret, "mut": mut, "names": names, "defaults": defaults}
        fns.append((cls, m, fn))
    out = []
    for cls, m, fn in fns:
        out.append(_GH(sigs, cls, sigs[(cls, m)], fn).function())
    return (GRAPH_HELPERS_PRELUDE % (
        "generated by harness/translate.py from gaftools/gfa.py : Node.neighbors, Node.in_direction, Node.children, Node.is_equal_to,\n"
        "    GFA.remove_lonely_nodes, GFA.graph_from_comp, GFA.list_is_path, GFA.get_path, GFA.get_contig_length, GFA.return_gfa_path,\n"
        "    GFA.is_equal_to — every statement in source order; `.error` = the Python raises — do not edit")
        + "/-- `Node(identifier)`: the slots the model stores -/\n"
        + "def newNode (identifier : String) : Node := %s\n" % new_node
        + "/-- … and the two it derives: `seq_len`, `visited` -/\n"
        + "def newNodeSeqLen : Int := %s\ndef newNodeVisited : Bool := %s\n\n" % (ghost["seq_len"], ghost["visited"])
        + "/-- `GFA()` (no file) -/\n"
        + "def emptyGFA : GFA := { g := { nodes := %s, edgeTags := %s }, contigToNodes := %s }\n\n" % (
            init["nodes"], init["edge_tags"], init["contig_to_nodes"])
        + "\n".join(out)
        + "end Gaftools.Gen.GraphHelpers\n")


GENERATORS["GraphHelpers"] = gen_graph_helpers


def regenerate(only=None):
    """returns {name: {"tie": "A"|"B-only", "detail": str, "changed": bool}}"""
    os.makedirs(GEN, exist_ok=True)
    res = {}
    for name, g in GENERATORS.items():
        if only and name not in only:
            continue
        out = os.path.join(GEN, name + ".lean")
        try:
            text = g()
            tie, detail = "A", "translated"
        except Exception as e:      # noqa: BLE001 - an unforeseen shape of the source must never stop a check: fall back to tie B
            # fall back: keep the file importable by re-exporting the hand-written twin
            text = FALLBACK[name]
            tie, detail = "B-only", "untranslatable: %s" % (str(e)[:300])
        old = open(out).read() if os.path.exists(out) else None
        if old != text:
            with open(out, "w") as f:
                f.write(text)
        res[name] = {"tie": tie, "detail": detail, "changed": old != text,
                     "sha": hashlib.sha1(text.encode()).hexdigest()[:12]}
    return res


VIEWSEL_FALLBACK_DEFS = r'''/-! ### the translation of the source as it stood when the tie was made (hand-kept twin) -/

/-- `view.search` -/
def search (node : (List String)) (node_list : (List IKey)) : M (List IKey) := do
  let t1 ← pyIdx node 1
  let t2 ← pyIntOf t1
  let q_s := t2
  let t3 ← pyIdx node 2
  let t4 ← pyIntOf t3
  let q_e := t4
  let t8 ← pyFilterM (fun n => pyAnd (PyAtom.le (n.get 2) (PyAtom.int q_e)) (PyAtom.lt (PyAtom.int q_s) (n.get 3))) node_list
  pure t8

/-- the body of `for region in regions` in `get_unstable` -/
def get_unstable_loop1 (index : (Dict IKey (List Nat))) (st : ((Dict String (List IKey)) × (List PyAtom))) (region : String) : M ((Dict String (List IKey)) × (List PyAtom)) := do
  let node_dict := st.1
  let result := st.2
  let t1 ← pyIdx (pySplit region ':') 0
  let c := t1
  let t2 ← pyIdx (pySplit region ':') 1
  let t3 ← pyIdx (pySplit t2 '-') 0
  let start := t3
  let t4 ← pyIdx (pySplit region ':') 1
  let t5 ← pyLast (pySplit t4 '-')
  let end_ := t5
  let jn1 ← (match dictGet? node_dict c with
    | some t6 => do
      let node_list := t6
      pure (node_list, node_dict)
    | none => do
      let node_list := ((dictKeys index).filter (fun x => ((!(x.eqStr "ref_contig")) && ((x.get 1) == (PyAtom.str c)))))
      let t7 ← pySortedBy (fun x => (x.get 2)) node_list
      let node_list := t7
      let node_dict := dictSet node_dict c node_list
      pure (node_list, node_dict))
  let node_list := jn1.1
  let node_dict := jn1.2
  let t8 ← search [c, start, end_] node_list
  let node := t8
  let result := result ++ (node.map (fun n => (n.get 0)))
  pure (node_dict, result)

/-- `view.get_unstable` -/
def get_unstable (regions : (List String)) (index : (Dict IKey (List Nat))) : M (List PyAtom) := do
  let node_dict : (Dict String (List IKey)) := []
  let result : (List PyAtom) := []
  let st ← regions.foldlM (get_unstable_loop1 index) (node_dict, result)
  let node_dict := st.1
  let result := st.2
  pure result

/-- the body of `for i in ind_key` in `run` -/
def run_loop1 (st : (Dict PyAtom IKey)) (i : IKey) : M (Dict PyAtom IKey) := do
  let ind_dict := st
  let ind_dict := dictSet ind_dict (i.get 0) i
  pure ind_dict

/-- the body of `for nd in nodes` in `run` -/
def run_loop2 (ind : (Dict IKey (List Nat))) (ind_dict : (Dict PyAtom IKey)) (st : (List Nat)) (nd : PyAtom) : M (List Nat) := do
  let offsets := st
  let offsets ← (if (dictHas ind_dict nd)
    then do
      let t1 ← dictGet ind_dict nd
      let t2 ← dictGet ind t1
      let offsets := setUnion offsets (setOf t2)
      pure offsets
    else do
      pure offsets)
  pure offsets

/-- the body of `for ofs in offsets` in `run` -/
def run_loop3 {Rec : Type} {Out : Type} (readLine : (Nat → M Rec)) (toStable : (Rec → M Out)) (st : (List Out)) (ofs : Nat) : M (List Out) := do
  let out := st
  let t1 ← readLine ofs
  let line := t1
  let t2 ← toStable line
  let out := out ++ [t2]
  pure out

/-- the body of `for ofs in offsets` in `run` -/
def run_loop4 {Rec : Type} {Out : Type} (readLine : (Nat → M Rec)) (toUnstable : (Rec → M Out)) (st : (List Out)) (ofs : Nat) : M (List Out) := do
  let out := st
  let t1 ← readLine ofs
  let line := t1
  let t2 ← toUnstable line
  let out := out ++ [t2]
  pure out

/-- the body of `for ofs in offsets` in `run` -/
def run_loop5 {Rec : Type} {Out : Type} (readLine : (Nat → M Rec)) (strOf : (Rec → Out)) (st : (List Out)) (ofs : Nat) : M (List Out) := do
  let out := st
  let t1 ← readLine ofs
  let line := t1
  let out := out ++ [(strOf line)]
  pure out

/-- `view.run` is in the branch that selects by nodes / regions -/
def selecting (nodes : (List PyAtom)) (regions : (List String)) : Bool := ((!(nodes.length == 0)) || (!(regions.length == 0)))

/-- `view.run`, the selecting branch from the statement after the index is unpickled (`ind`) to its end; the result is
    what has been printed to `writer` (`readLine` = `GAF.read_line`, `toStable` / `toUnstable` = the conversions with the tables
    built in the head of `run`, `strOf` = `str` of a record) -/
def run {Rec Out : Type} (readLine : Nat → M Rec) (toStable toUnstable : Rec → M Out) (strOf : Rec → Out)
    (format : Option String) (ind : (Dict IKey (List Nat))) (nodes : (List PyAtom)) (regions : (List String)) : M (List Out) := do
  let out : List Out := []
  let t1 ← pySortedBy (fun x => ((x.get 1), (x.get 2))) ((dictKeys ind).filter (fun k => (!(k.eqStr "ref_contig"))))
  let ind_key := t1
  let ind_dict : (Dict PyAtom IKey) := []
  let ind_dict ← ind_key.foldlM (run_loop1) ind_dict
  let nodes ← (if (!regions.isEmpty)
    then do
      pyAssert (nodes == [])
      let t2 ← get_unstable regions ind
      let nodes := t2
      pure nodes
    else do
      pure nodes)
  let offsets : (List Nat) := []
  let offsets ← nodes.foldlM (run_loop2 ind ind_dict) offsets
  let t3 ← pySortedBy (fun v => v) offsets
  let offsets := t3
  if (offsets.length == 0) then
    throw (.commandLineError "No alignments found for the given nodes/regions")
  else
    let out ← (if (truthyStr format)
      then do
        let out ← (if (format == some "stable")
          then do
            let out ← offsets.foldlM (run_loop3 readLine toStable) out
            pure out
          else do
            pyAssert (format == some "unstable")
            let out ← offsets.foldlM (run_loop4 readLine toUnstable) out
            pure out)
        pure out
      else do
        let out ← offsets.foldlM (run_loop5 readLine strOf) out
        pure out)
    pure out
'''

FALLBACK = {
    "ViewSel": ("import Gaftools.Model.View\nimport Gaftools.Model.TextLayer\n"
                "/-! FALLBACK (source construct outside the translator's subset): `search`, `get_unstable` and the selecting branch of `run` as\n"
                "    translated from the source the tie was made against -/\n" + VIEWSEL_PRELUDE + "\n" + VIEWSEL_FALLBACK_DEFS + "\n\nend Gaftools.Gen.ViewSel\n"),
    "WriteGfa": WRITE_GFA_PRELUDE % ("FALLBACK (source construct outside the translator's subset): a frozen copy of the translation of Node.to_gfa_line,\n"
                                     "    GFA.sort_bo_no and GFA.write_gfa (gaftools/gfa.py)") + r"""def toGfaLineFor1 (self : Node) (st : (List Str)) (it : String × String × String) : Option ((List Str)) :=
  let tags : List Str := st
  let tag_id : String := it.1
  let tag : String × String := it.2
  let tags : List Str := (tags ++ [(tag_id.toList ++ [':'] ++ tag.1.toList ++ [':'] ++ tag.2.toList)])
  some tags

/-- `Node.to_gfa_line(with_seq)` -/
def toGfaLine (self : Node) (with_seq : Bool) : Option Str :=
  let seq : Str := (if with_seq then (if (self.seq == "") then ['*'] else self.seq.toList) else ['*'])
  let tags : List Str := []
  match (tagItems self).foldlM (toGfaLineFor1 self) tags with
  | none => none
  | some tags =>
  match pyJoin ['\t'] ([(PyV.str ['S']), (PyV.str self.id.toList), (PyV.str seq)] ++ (tags.map PyV.str)) with
  | none => none
  | some v1 =>
  some v1

def sortBoNoFor1 (g : Graph) (tagv : String → String → Option Int) (st : (List (Int × (List String)))) (it : String) : Option ((List (Int × (List String)))) :=
  let separate_bubbles : List (Int × (List String)) := st
  let n : String := it
  match tagv "BO" n with
  | none => none
  | some v1 =>
  if (!(dictHas separate_bubbles v1)) then
    match tagv "BO" n with
    | none => none
    | some v2 =>
    let separate_bubbles : List (Int × (List String)) := dictSet separate_bubbles v2 [n]
    some separate_bubbles
  else
    match tagv "BO" n with
    | none => none
    | some v3 =>
    match dictGet separate_bubbles v3 with
    | none => none
    | some v4 =>
    let separate_bubbles : List (Int × (List String)) := dictSet separate_bubbles v3 (v4 ++ [n])
    some separate_bubbles

def sortBoNoFor2 (g : Graph) (tagv : String → String → Option Int) (st : (List Int) × (List (Int × (List String)))) (it : Int × (List String)) : Option ((List Int) × (List (Int × (List String)))) :=
  let bo_ids : List Int := st.1
  let separate_bubbles : List (Int × (List String)) := st.2
  let bo : Int := it.1
  let n_list : List String := it.2
  let bo_ids : List Int := (bo_ids ++ [bo])
  match dictGet separate_bubbles bo with
  | none => none
  | some v5 =>
  match v5.mapM (fun x => (tagv "NO" x)) with
  | none => none
  | some v7 =>
  let separate_bubbles : List (Int × (List String)) := dictSet separate_bubbles bo (sortedBy v7 v5)
  some (bo_ids, separate_bubbles)

def sortBoNoFor4 (g : Graph) (tagv : String → String → Option Int) (st : (List String)) (it : String) : Option ((List String)) :=
  let sorted_set_of_nodes : List String := st
  let n_id : String := it
  let sorted_set_of_nodes : List String := (sorted_set_of_nodes ++ [n_id])
  some sorted_set_of_nodes

def sortBoNoFor3 (g : Graph) (tagv : String → String → Option Int) (separate_bubbles : List (Int × (List String))) (st : (List String)) (it : Int) : Option ((List String)) :=
  let sorted_set_of_nodes : List String := st
  let bo : Int := it
  match dictGet separate_bubbles bo with
  | none => none
  | some v8 =>
  match v8.foldlM (sortBoNoFor4 g tagv) sorted_set_of_nodes with
  | none => none
  | some sorted_set_of_nodes =>
  some sorted_set_of_nodes

/-- `GFA.sort_bo_no(set_of_nodes)` -/
def sortBoNo (g : Graph) (tagv : String → String → Option Int) (set_of_nodes : List String) : Option (List String) :=
  let separate_bubbles : List (Int × (List String)) := []
  match set_of_nodes.foldlM (sortBoNoFor1 g tagv) separate_bubbles with
  | none => none
  | some separate_bubbles =>
  let bo_ids : List Int := []
  match separate_bubbles.foldlM (sortBoNoFor2 g tagv) (bo_ids, separate_bubbles) with
  | none => none
  | some (bo_ids, separate_bubbles) =>
  let sorted_set_of_nodes : List String := []
  match (pySorted bo_ids).foldlM (sortBoNoFor3 g tagv separate_bubbles) sorted_set_of_nodes with
  | none => none
  | some sorted_set_of_nodes =>
  some sorted_set_of_nodes

def writeGfaFor1 (g : Graph) (tagv : String → String → Option Int) (st : Str) (it : String) : Option (Str) :=
  let f : Str := st
  let n : String := it
  if (!(g.has n)) then
    some f
  else
    match g.find n with
    | none => none
    | some v3 =>
    match toGfaLine v3 true with
    | none => none
    | some v4 =>
    let line : Str := v4
    let f : Str := (f ++ (line ++ ['\n']))
    some f

def writeGfaFor3 (g : Graph) (tagv : String → String → Option Int) (set_of_nodes : List String) (n1 : String) (st : (List Str)) (it : String × Bool × Nat) : Option ((List Str)) :=
  let edges : List Str := st
  let n : String × Bool × Nat := it
  let overlap : Str := ((strNat n.2.2) ++ ['M'])
  if (set_of_nodes.contains n.1) then
    let tags : List PyV := (match edgeTagsPy g (n1, false, n.1, n.2.1) with | some v6 => v6 | none => [])
    if (!tags.isEmpty) then
      match tags[0]? with
      | none => none
      | some v7 =>
      let tags : List PyV := (if (v7 == (PyV.int 0)) then [] else tags)
      if (n.2.1 == false) then
        match pyJoin ['\t'] ([(PyV.str ['L']), (PyV.str n1.toList), (PyV.str ['-']), (PyV.str n.1.toList), (PyV.str ['+']), (PyV.str overlap)] ++ tags) with
        | none => none
        | some v8 =>
        let edge : Str := v8
        let edges : List Str := (edges ++ [edge])
        some edges
      else
        match pyJoin ['\t'] ([(PyV.str ['L']), (PyV.str n1.toList), (PyV.str ['-']), (PyV.str n.1.toList), (PyV.str ['-']), (PyV.str overlap)] ++ tags) with
        | none => none
        | some v9 =>
        let edge : Str := v9
        let edges : List Str := (edges ++ [edge])
        some edges
    else
      some edges
  else
    some edges

def writeGfaFor4 (g : Graph) (tagv : String → String → Option Int) (set_of_nodes : List String) (n1 : String) (st : (List Str)) (it : String × Bool × Nat) : Option ((List Str)) :=
  let edges : List Str := st
  let n : String × Bool × Nat := it
  let overlap : Str := ((strNat n.2.2) ++ ['M'])
  if (set_of_nodes.contains n.1) then
    let tags : List PyV := (match edgeTagsPy g (n1, true, n.1, n.2.1) with | some v11 => v11 | none => [])
    if (!tags.isEmpty) then
      match tags[0]? with
      | none => none
      | some v12 =>
      let tags : List PyV := (if (v12 == (PyV.int 0)) then [] else tags)
      if (n.2.1 == false) then
        match pyJoin ['\t'] ([(PyV.str ['L']), (PyV.str n1.toList), (PyV.str ['+']), (PyV.str n.1.toList), (PyV.str ['+']), (PyV.str overlap)] ++ tags) with
        | none => none
        | some v13 =>
        let edge : Str := v13
        let edges : List Str := (edges ++ [edge])
        some edges
      else
        match pyJoin ['\t'] ([(PyV.str ['L']), (PyV.str n1.toList), (PyV.str ['+']), (PyV.str n.1.toList), (PyV.str ['-']), (PyV.str overlap)] ++ tags) with
        | none => none
        | some v14 =>
        let edge : Str := v14
        let edges : List Str := (edges ++ [edge])
        some edges
    else
      some edges
  else
    some edges

def writeGfaFor5 (g : Graph) (tagv : String → String → Option Int) (st : Str) (it : Str) : Option (Str) :=
  let f : Str := st
  let e : Str := it
  let f : Str := (f ++ (e ++ ['\n']))
  some f

def writeGfaFor2 (g : Graph) (tagv : String → String → Option Int) (set_of_nodes : List String) (st : Str) (it : String) : Option (Str) :=
  let f : Str := st
  let n1 : String := it
  if (!(g.has n1)) then
    some f
  else
    let edges : List Str := []
    match g.find n1 with
    | none => none
    | some v5 =>
    match v5.startAdj.foldlM (writeGfaFor3 g tagv set_of_nodes n1) edges with
    | none => none
    | some edges =>
    match g.find n1 with
    | none => none
    | some v10 =>
    match v10.endAdj.foldlM (writeGfaFor4 g tagv set_of_nodes n1) edges with
    | none => none
    | some edges =>
    match edges.foldlM (writeGfaFor5 g tagv) f with
    | none => none
    | some f =>
    some f

/-- `GFA.write_gfa(set_of_nodes, output_file, append, order_bo)` -/
def writeGfa (g : Graph) (tagv : String → String → Option Int) (set_of_nodes : Option (List String)) (old : Option Str) (append order_bo : Bool) : Option Str :=
  let set_of_nodes : List String := (match set_of_nodes with | none => (g.nodes.map (·.id)) | some v1 => v1)
  match (if order_bo then (sortBoNo g tagv set_of_nodes) else (some set_of_nodes)) with
  | none => none
  | some sorted_set_of_nodes =>
  let f : Str := (if (append == false) then [] else (if old.isSome then (old.getD []) else []))
  match sorted_set_of_nodes.foldlM (writeGfaFor1 g tagv) f with
  | none => none
  | some f =>
  match sorted_set_of_nodes.foldlM (writeGfaFor2 g tagv set_of_nodes) f with
  | none => none
  | some f =>
  some f
end Gaftools.Gen.WriteGfa
""",
    "Search": SEARCH_HEADER % ("FALLBACK (source construct outside the translator's subset): a frozen copy of the translation of the three functions\n"
                               "    as the source stood when `Props/TieA12.lean` was written") + r'''/-- the test of the `while` of `find_component` -/
def fcCond (σ : FcSt) : Bool := decide (σ.queue.length > 0)

/-- its body, one iteration (`x = l.pop()` of an empty list, an IndexError, cannot happen under the test) -/
def fcStep (nb : V → List V) (σ : FcSt) : FcSt :=
  let start := σ.queue.headD ""
  let σ : FcSt := { σ with queue := σ.queue.tail }
  if (!(σ.cc.contains start)) then
    let σ : FcSt := { σ with cc := insertSet start σ.cc }
    let σ : FcSt := { σ with vis := insertSet start σ.vis }
    let neighbors := (nb start)
    let σ : FcSt := neighbors.foldl (fun (σ : FcSt) n =>
        if (!(σ.vis.contains n)) then
          let σ : FcSt := { σ with queue := n :: σ.queue }
          σ
        else
          σ) σ
    σ
  else
    σ

/-- `find_component(start_node)` with the flags `vis` set on entry: the returned set and the flags on exit -/
def findComponent (nb : V → List V) (fuel : Nat) (start_node : V) (vis : List V) : List V × List V :=
  let σ : FcSt := { queue := [], cc := [], vis := vis }
  let σ : FcSt := { σ with queue := [] }
  let σ : FcSt := { σ with cc := [] }
  let σ : FcSt := { σ with queue := start_node :: σ.queue }
  let σ : FcSt := { σ with vis := insertSet start_node σ.vis }
  let neighbors := (nb start_node)
  if decide (neighbors.length = 0) then
    let σ : FcSt := { σ with cc := insertSet start_node σ.cc }
    (σ.cc, σ.vis)
  else
    let σ : FcSt := whileFuel fcCond (fcStep nb) fuel σ
    (σ.cc, σ.vis)

/-- `all_components()` with the flags `vis` set on entry: the returned list and the flags on exit -/
def allComponents (nb : V → List V) (fuel : Nat) (Vs : List V) (vis : List V) : List (List V) × List V :=
  let σ : AcSt := { connected_comp := [], vis := vis }
  let σ : AcSt := { σ with connected_comp := [] }
  let σ : AcSt := Vs.foldl (fun (σ : AcSt) n =>
      if (!(σ.vis.contains n)) then
        let r := findComponent nb fuel n σ.vis
        let σ : AcSt := { σ with vis := r.2 }
        let σ : AcSt := { σ with connected_comp := σ.connected_comp ++ [r.1] }
        σ
      else
        σ) σ
  let σ : AcSt := { σ with vis := [] }
  (σ.connected_comp, σ.vis)

/-- the test of the `while` of `dfs` -/
def dfsCond (σ : DfsSt) : Bool := (!σ.stack.isEmpty)

/-- its body, one iteration (`x = l.pop()` of an empty list, an IndexError, cannot happen under the test) -/
def dfsStep (nb : V → List V) (σ : DfsSt) : DfsSt :=
  let s := σ.stack.headD ""
  let σ : DfsSt := { σ with stack := σ.stack.tail }
  if (!(σ.dfs_out.contains s)) then
    let σ : DfsSt := { σ with dfs_out := insertSet s σ.dfs_out }
    let σ : DfsSt := { σ with ordered_dfs_out := σ.ordered_dfs_out ++ [s] }
    let σ : DfsSt := (nb s).foldl (fun (σ : DfsSt) neighbour =>
        let σ : DfsSt := { σ with stack := neighbour :: σ.stack }
        σ) σ
    σ
  else
    σ

/-- `dfs(start_node)` -/
def dfs (nb : V → List V) (fuel : Nat) (Vs : List V) (start_node : V) : List V :=
  let σ : DfsSt := { stack := [], dfs_out := [], ordered_dfs_out := [] }
  if (!(Vs.contains start_node)) then
    []
  else
    if decide (Vs.length = 1) then
      [(Vs.getD 0 "")]
    else
      if decide ((nb start_node).length = 0) then
        [start_node]
      else
        let σ : DfsSt := { σ with dfs_out := [] }
        let σ : DfsSt := { σ with ordered_dfs_out := [] }
        let σ : DfsSt := { σ with stack := [start_node] }
        let σ : DfsSt := whileFuel dfsCond (dfsStep nb) fuel σ
        σ.ordered_dfs_out
end Gaftools.Gen.Search
''',
    "Biccs": """import Gaftools.Model.Algo
/-! FALLBACK (source construct outside the translator's subset): hand-written twin re-exported -/
namespace Gaftools.Gen
open Gaftools.Algo
def nextChild (f : Frame) : Option V × Frame :=
  if f.ptr < f.nbrs.length then (some (f.nbrs.getD f.ptr \"\"), { f with ptr := f.ptr + 1 }) else (none, f)
def bstep (nb : V → List V) (s : BSt) : BSt := Gaftools.Algo.bstep nb s
def rootIsAp (rc : Nat) : Bool := decide (rc > 1)
end Gaftools.Gen
""",
    "SortWrite": """/-! FALLBACK (source construct outside the translator's subset): the write loop of sort() as modelled by hand -/
namespace Gaftools.Gen
/-- what is appended to the right-stripped raw record, and the attributes printed -/
def sortSuffixFormat : String := "\\tbo:i:%d\\tsn:Z:%s\\tiv:i:%d\\n"
def sortSuffixArgs : List String := ["BO", "sn", "inv"]
/-- the raw record is right-stripped in the bytes (BGZF) and in the text branch -/
def sortStripsBytes : Bool := true
def sortStripsStr : Bool := true
/-- `.gsi` bookkeeping for the record's contig: (assign first, assign last), from whether `first` is still `None`
    (a fresh entry of the defaultdict is `[None, None]`) -/
def gsiAssign (firstIsNone : Bool) : Bool × Bool := if firstIsNone then (true, true) else (false, true)
/-- the offset is taken (`writer.tell()`) before the record is written -/
def gsiTellBeforeWrite : Bool := true
/-- the key removed before the index is pickled -/
def gsiPopped : String := "unknown"
end Gaftools.Gen
""",
    "GafRecord": """import Gaftools.Model.Gaf
/-! FALLBACK (source construct outside the translator's subset): the record text layer as modelled by hand -/
namespace Gaftools.Gen
open Gaftools.Gaf

/-- whether the text line / the decoded BGZF line is right-stripped before it is split on tabs -/
def rstripPlain : Bool := true
def rstripBgzf : Bool := true

/-- (attribute of the record, column, how it is read): `cut` = up to the first blank, `guard` = `isdigit()` or the record is
    dropped, `int` = `int()`, `str` = verbatim -/
def columns : List (String × Nat × String) := [("query_name", 0, "cut"), ("query_length", 1, "guard"), ("query_start", 2, "guard"), ("query_end", 3, "guard"), ("strand", 4, "str"), ("path", 5, "str"), ("path_length", 6, "guard"), ("path_start", 7, "guard"), ("path_end", 8, "guard"), ("residue_matches", 9, "int"), ("alignment_block_length", 10, "int"), ("mapping_quality", 11, "int")]

/-- group 1 of the tag regular expression, one predicate per character; group 2 is `(.*)` up to the end -/
def tagHead : List (Char → Bool) := [
  fun c => (c.val ≥ 65 && c.val ≤ 90) || (c.val ≥ 97 && c.val ≤ 122),
  fun c => (c.val ≥ 65 && c.val ≤ 90) || (c.val ≥ 97 && c.val ≤ 122) || (c.val ≥ 48 && c.val ≤ 57),
  fun c => c == ':',
  fun c => c == 'A' || c == 'i' || c == 'f' || c == 'Z' || c == 'H' || c == 'B',
  fun c => c == ':']

/-- the body of `for k in fields[12:]` once the regular expression has matched -/
def tagBody (st : TagSt) (pattern val : Str) : TagSt :=
  if (pattern == "ds:Z:".toList) then
    st
  else
    if (pattern == "cg:Z:".toList) then
      let st : TagSt := { st with cigar := val }
      let st : TagSt := { st with tags := dictSet st.tags pattern val }
      st
    else
      if (!dictHas st.tags pattern) then
        let st : TagSt := { st with tags := dictSet st.tags pattern val }
        if ((pattern == "tp:A:".toList) && (!(val == "P".toList || val == "p".toList))) then
          let st : TagSt := { st with isPrimary := false }
          st
        else
          st
      else
        if ((pattern == "tp:A:".toList) && (!(val == "P".toList || val == "p".toList))) then
          let st : TagSt := { st with isPrimary := false }
          st
        else
          st

/-- Alignment.__str__: the format of the mandatory columns, the attributes printed, when `cg:Z:` is (re)written, the format of a tag -/
def strFormat : String := "%s\\t%s\\t%s\\t%s\\t%s\\t%s\\t%d\\t%d\\t%d\\t%d\\t%d\\t%d"
def strArgs : List String := ["query_name", "query_length", "query_start", "query_end", "strand", "path", "path_length", "path_start", "path_end", "residue_matches", "alignment_block_length", "mapping_quality"]
def strSetsCg (cigarNonEmpty hasCg : Bool) : Bool := (cigarNonEmpty || hasCg)
def strTagFormat : String := "\\t%s%s"

/-- phase.add_phase_info, per record: mandatory columns, the two phase fields (phased / not), the record's own fields -/
def phaseFormat : String := "%s\\t%s\\t%s\\t%s\\t%s\\t%s\\t%d\\t%d\\t%d\\t%d\\t%d\\t%d"
def phaseArgs : List String := ["query_name", "query_length", "query_start", "query_end", "strand", "path", "path_length", "path_start", "path_end", "residue_matches", "alignment_block_length", "mapping_quality"]
def phaseIsPhased (inTsv hapIsNone : Bool) : Bool := (inTsv && (!hapIsNone))
def phasedFormat : String := "\\tps:Z:%s-%s\\tht:Z:%s"
def phasedArgs : List String := ["chr", "pset", "hap"]
def unphasedText : String := "\\tps:Z:none\\tht:Z:none"
def phaseTagFormat : String := "\\t%s%s"
end Gaftools.Gen
""",
    "SortLoop": """/-! FALLBACK (source construct outside the translator's subset): the path loop of process_alignment as modelled by hand -/
namespace Gaftools.Gen
inductive SnUpd where
  | set | check | keep
deriving DecidableEq, Repr

def snDecision (snIsNone : Bool) (sr : Int) : SnUpd := if snIsNone && sr == 0 then .set else if sr == 0 then .check else .keep
def keepsOrient (bo no : Int) : Bool := if bo == -1 || no == -1 then false else if no != 0 then false else true
end Gaftools.Gen
""",
    "Edges": """/-! FALLBACK (source construct outside the translator's subset): add_edge / remove_edge as modelled by hand -/
namespace Gaftools.Gen
structure Entry where
  owner2 : Bool
  side : Bool
  nbr2 : Bool
  nbrSide : Bool
deriving DecidableEq, Repr

def addEdgeEntries (d1 d2 : Bool) : List Entry := [⟨false, d1, true, d2⟩, ⟨true, d2, false, d1⟩]
def addEdgeTagKey (d1 d2 : Bool) : Bool × Bool × Bool × Bool := (false, d1, true, d2)
def removeEdgeEntries (d1 d2 : Bool) : List Entry := [⟨false, d1, true, d2⟩, ⟨true, d2, false, d1⟩]
end Gaftools.Gen
""",
    "Coords": """/-! FALLBACK (source construct outside the translator's subset): the coordinate arithmetic as modelled by hand -/
namespace Gaftools.Gen
def unstableCoords (minus split : Bool) (plen ps pe newTotal newStart : Int) : Int × Int × Int :=
  if minus then (if split then (plen, plen - pe, plen - ps) else (newTotal, (newTotal - newStart) - (pe - ps), newTotal - newStart))
  else (if split then (plen, ps, pe) else (newTotal, newStart, newStart + (pe - ps)))
def stableCoords (collapse rev strandPlus : Bool) (nodeStart total plen ps pe : Int) : Bool × Bool × Int × Int × Int :=
  if collapse then
    (if rev then (false, true, total, nodeStart + plen - pe, nodeStart + plen - pe + pe - ps)
     else (strandPlus, false, total, nodeStart + ps, nodeStart + ps + pe - ps))
  else (strandPlus, false, plen, ps, ps + pe - ps)
end Gaftools.Gen
""",
    "Collector": """import Gaftools.Model.Realign
/-! FALLBACK (source construct outside the translator's subset): the collector protocol as modelled by hand -/
namespace Gaftools.Gen
open Gaftools.Realign
abbrev Proc := Bool × Option Int
inductive Recv where
  | count | keep | both | drop
deriving DecidableEq, Repr

def allAreAlive (ps : List Proc) : Bool := ps.foldr (fun p acc => (if (!p.1) then false else acc)) true
def oneIsAlive (ps : List Proc) : Bool := ps.foldr (fun p acc => (if p.1 then true else acc)) false
def allExited (ps : List Proc) : Bool := ps.foldr (fun p acc => (if (p.2 != some (0 : Int)) then false else acc)) true
def oneFailed (ps : List Proc) : Bool := ps.foldr (fun p acc => (if (p.2.isSome && (p.2 != some (0 : Int))) then true else acc)) false

def handlerMain : Prog := refHandler
def onObjectMain (isNone : Bool) : Recv := if isNone then .count else .keep
def loopOnMain (n len : Nat) : Bool := n != len
def handlerLeft : Prog := refHandler
def onObjectLeft (isNone : Bool) : Recv := if isNone then .count else .keep
def loopOnLeft (n len : Nat) : Bool := n != len
end Gaftools.Gen
""",
    "Decisions": """/-! FALLBACK (source construct outside the translator's subset): the decisions as modelled by hand -/
namespace Gaftools.Gen
def sortInv (nf nr : Nat) : Bool := nf != 0 && nr != 0
def sortRev (nf nr : Nat) : Bool := decide (nf < nr)
def sortStartRev (plen ps pe : Int) : Int := plen - pe
def sortStartFwd (plen ps pe : Int) : Int := ps
def sortNodeRev : Int := -1
def sortNodeFwd : Int := 1
def isDegOne (d : Nat) : Bool := d == 1
def isDegTwo (d : Nat) : Bool := d == 2
def censusOne (n1 : Nat) : Bool := n1 == 2
def censusTwo (n2 total : Nat) : Bool := decide ((n2 : Int) = (total : Int) - 2)
def mixedSN (k : Nat) : Bool := k != 1
def needsReverse (a b : Int) : Bool := decide (a > b)
def notIncreasing (x y : Int) : Bool := !decide (x < y)
def scaffoldNo : Nat := 0
def bubbleNo (i : Nat) : Nat := i + 1
def tooLong (qs qe refLen queryLen : Int) : Bool := decide (qe - qs > 60000)
def regionHit (so en a b : Int) : Bool := decide (so ≤ b ∧ a < en)
def largeDel (n : Int) : Bool := decide (n ≥ 50)
def largeIns (n : Int) : Bool := decide (n ≥ 50)
def largeSub (n : Int) : Bool := decide (n ≥ 50)
def largeMatch (n : Int) : Bool := decide (n ≥ 50)
def perfectTokens (k : Nat) : Bool := k == 2
end Gaftools.Gen
""",
    "SearchIv": """import Gaftools.Model.Conv
/-! FALLBACK (source construct outside the translator's subset): hand-written twin re-exported -/
namespace Gaftools.Gen
open Gaftools.Conv
def searchIv (intervals : List Seg) (qs qe : Int) (fuel : Nat) (start end_ : Int) : Option (Int × Int) := Gaftools.Conv.searchIv intervals qs qe fuel start end_
end Gaftools.Gen
""",
    "OverlapCases": """import Gaftools.Model.Conv
/-! FALLBACK (source construct outside the translator's subset): hand-written twin re-exported -/
namespace Gaftools.Gen
open Gaftools.Conv
def overlapCaseConv (sg : Seg) (qs qe : Int) : Nat := Gaftools.Conv.overlapCase sg qs qe
def overlapCaseIndex (sg : Seg) (qs qe : Int) : Nat := Gaftools.Conv.overlapCase sg qs qe
end Gaftools.Gen
""",
    "IsSecondary": """/-! FALLBACK (source construct outside the translator's subset) -/
namespace Gaftools.Gen
def isSecondary (isPrimary : Bool) (mapq : Nat) : Bool := !isPrimary || mapq ≤ 0
end Gaftools.Gen
""",
    "Tables": """/-! FALLBACK (source construct outside the translator's subset): the tables as modelled by hand -/
namespace Gaftools.Gen
def eDir (a b : Bool) : Bool × Bool := (a, !b)
def pathCase (a b : Bool) : Bool × Bool := (a, !b)
end Gaftools.Gen
""",
    "IsStable": """/-! FALLBACK (source construct outside the translator's subset) -/
namespace Gaftools.Gen
def isStable (path : List Char) : Bool :=
  if path.contains ':' then true else if path.contains '>' || path.contains '<' then false else true
end Gaftools.Gen
""",
    "MergeNodes": """import Gaftools.Model.Conv
/-! FALLBACK (source construct outside the translator's subset): hand-written twin re-exported -/
namespace Gaftools.Gen
open Gaftools.Conv
def mergeNodes (node1 node2 : SNode) (orient1 orient2 : Bool) : Option (SNode × Bool) := Gaftools.Conv.mergeNodes node1 node2 orient1 orient2
end Gaftools.Gen
""",
    "ConvLoopU": r"""import Gaftools.Model.ConvText
import Gaftools.Gen.SearchIv
/-! FALLBACK (source construct outside the translator's subset): the loop of to_unstable as translated from the source when this
    file was written (hand-checked twin of Conv.itemStep / Conv.scanWindow at the token level) -/
set_option linter.unusedVariables false
namespace Gaftools.Gen
open Gaftools.Gaf Gaftools.Conv Gaftools.ConvText

/-- the Python slice `l[a:b]` (negative indices count from the end, everything is clipped to the list) -/
def pySlice {α : Type} (l : List α) (a b : Int) : List α :=
  let n : Int := l.length
  let a' := if a < 0 then max (a + n) 0 else min a n
  let b' := if b < 0 then max (b + n) 0 else min b n
  (l.drop a'.toNat).take (b' - a').toNat

/-- the variables of `to_unstable` that live from one path token to the next; `split_contig` is unbound (`none`) until the first
    contig token has been handled -/
structure ULoop where
  unstable_coord : List (Bool × String)
  orient : Option Bool
  new_start : Int
  new_total : Int
  split_contig : Option Bool
deriving DecidableEq, Repr

/-- the assignments before the loop -/
def convInit : ULoop := { unstable_coord := [], orient := none, new_start := (-1 : Int), new_total := (0 : Int), split_contig := none }

/-- the body of `for i in reference[...][start : end + 1]`; the state is the tuple of the variables it changes -/
def convScanStep (query_start : Int) (split_contig : Bool) (query_end : Int) (acc : Int × List String × Int) (i : Seg) : Int × List String × Int :=
  let new_start := acc.1
  let nodes_tmp := acc.2.1
  let new_total := acc.2.2
  let s := i.so
  let e := (i.so + (i.en - i.so))
  let cases := (-1 : Int)
  if ((s ≤ query_start) ∧ (query_start < e)) then
    let cases := (1 : Int)
    let new_start := (if (new_start = (-1 : Int)) then (if (split_contig = true) then query_start else (query_start - s)) else new_start)
    if (cases ≠ (-1 : Int)) then
      let nodes_tmp := (nodes_tmp ++ [i.id])
      let new_total := (new_total + (e - s))
      (new_start, nodes_tmp, new_total)
    else
      (new_start, nodes_tmp, new_total)
  else
    let cases := (if ((s < query_end) ∧ (query_end ≤ e)) then (2 : Int) else (if ((query_start < s) ∧ (s < e) ∧ (e < query_end)) then (3 : Int) else cases))
    if (cases ≠ (-1 : Int)) then
      let nodes_tmp := (nodes_tmp ++ [i.id])
      let new_total := (new_total + (e - s))
      (new_start, nodes_tmp, new_total)
    else
      (new_start, nodes_tmp, new_total)

/-- the body of `for nd in gaf_contigs`; `none` = an exception -/
def convTokStep (reference : String → List Seg) (strandPlus : Bool) (path_start path_end : Int) (st : ULoop) (nd : Str) : Option ULoop :=
  let unstable_coord := st.unstable_coord
  let orient := st.orient
  let new_start := st.new_start
  let new_total := st.new_total
  if ((nd = ['>']) ∨ (nd = ['<'])) then
    let orient := some (nd == ['>'])
    some { unstable_coord := unstable_coord, orient := orient, new_start := new_start, new_total := new_total, split_contig := st.split_contig }
  else
    if ((nd.contains ':' = true) ∧ (nd.contains '-' = true)) then
      let tmp := (splitOnChar ':' (rstrip nd))
      match tmp[0]? with
      | none => none
      | some tmp_0 =>
        let query_contig_name := tmp_0
        match tmp[1]? with
        | none => none
        | some tmp_1 =>
          match (splitOnChar '-' (rstrip tmp_1)) with
          | [query_start, query_end] =>
            let split_contig := true
            let orient := (if (orient = none) then (if (strandPlus = true) then some true else some false) else orient)
            match toInt query_start with
            | none => none
            | some query_start_int =>
              match toInt query_end with
              | none => none
              | some query_end_int =>
                match Gaftools.Gen.searchIv (reference (String.ofList query_contig_name)) query_start_int query_end_int (((reference (String.ofList query_contig_name))).length + 2) (0 : Int) (((reference (String.ofList query_contig_name))).length : Int) with
                | none => none
                | some (start, end_) =>
                  let nodes_tmp := ([] : List String)
                  let acc := ((pySlice (reference (String.ofList query_contig_name)) start (end_ + (1 : Int)))).foldl (convScanStep query_start_int split_contig query_end_int) (new_start, nodes_tmp, new_total)
                  let new_start := acc.1
                  let nodes_tmp := acc.2.1
                  let new_total := acc.2.2
                  if (orient = some false) then
                    match ((nodes_tmp).reverse).foldlM (fun (unstable_coord : List (Bool × String)) (i : String) =>
                          match orient with
                          | none => none
                          | some o =>
                            let unstable_coord := (unstable_coord ++ [(o, i)])
                            some unstable_coord)
                        unstable_coord with
                    | none => none
                    | some unstable_coord =>
                      some { unstable_coord := unstable_coord, orient := orient, new_start := new_start, new_total := new_total, split_contig := some split_contig }
                  else
                    match (nodes_tmp).foldlM (fun (unstable_coord : List (Bool × String)) (i : String) =>
                          match orient with
                          | none => none
                          | some o =>
                            let unstable_coord := (unstable_coord ++ [(o, i)])
                            some unstable_coord)
                        unstable_coord with
                    | none => none
                    | some unstable_coord =>
                      some { unstable_coord := unstable_coord, orient := orient, new_start := new_start, new_total := new_total, split_contig := some split_contig }
          | _ => none
    else
      let query_start := path_start
      let query_end := path_end
      let query_contig_name := nd
      let split_contig := false
      let orient := (if (orient = none) then (if (strandPlus = true) then some true else some false) else orient)
      match Gaftools.Gen.searchIv (reference (String.ofList query_contig_name)) query_start query_end (((reference (String.ofList query_contig_name))).length + 2) (0 : Int) (((reference (String.ofList query_contig_name))).length : Int) with
      | none => none
      | some (start, end_) =>
        let nodes_tmp := ([] : List String)
        let acc := ((pySlice (reference (String.ofList query_contig_name)) start (end_ + (1 : Int)))).foldl (convScanStep query_start split_contig query_end) (new_start, nodes_tmp, new_total)
        let new_start := acc.1
        let nodes_tmp := acc.2.1
        let new_total := acc.2.2
        if (orient = some false) then
          match ((nodes_tmp).reverse).foldlM (fun (unstable_coord : List (Bool × String)) (i : String) =>
                match orient with
                | none => none
                | some o =>
                  let unstable_coord := (unstable_coord ++ [(o, i)])
                  some unstable_coord)
              unstable_coord with
          | none => none
          | some unstable_coord =>
            some { unstable_coord := unstable_coord, orient := orient, new_start := new_start, new_total := new_total, split_contig := some split_contig }
        else
          match (nodes_tmp).foldlM (fun (unstable_coord : List (Bool × String)) (i : String) =>
                match orient with
                | none => none
                | some o =>
                  let unstable_coord := (unstable_coord ++ [(o, i)])
                  some unstable_coord)
              unstable_coord with
          | none => none
          | some unstable_coord =>
            some { unstable_coord := unstable_coord, orient := orient, new_start := new_start, new_total := new_total, split_contig := some split_contig }
end Gaftools.Gen
""",
    "CmpGaf": """import Gaftools.Model.Sort
/-! FALLBACK (source construct outside the translator's subset): hand-written twin re-exported -/
namespace Gaftools.Gen
open Gaftools.Sort
def cmpGaf (al1 al2 : Aln) : Option Int := Gaftools.Sort.cmpGaf al1 al2
end Gaftools.Gen
""",
}

FALLBACK["GfaMutate"] = GFAMUTATE_HEAD % ("FALLBACK (source construct outside the translator's subset): a frozen copy of the translation of\n"
                                           "    Node.__init__, GFA.__init__, add_node, remove_node, read_graph as the source stood when `Props/TieA20.lean` was written") + GFAMUTATE_PRELUDE + r'''
/-- `Node(identifier)`: the slots the model stores -/
def newNode (identifier : String) : Node := { id := identifier, seq := "", startAdj := [], endAdj := [], tags := [] }
/-- … and the two it derives: `seq_len`, `visited` -/
def newNodeSeqLen : Nat := 0
def newNodeVisited : Bool := false

/-- `GFA()` before anything is read -/
def initSt : St := { g := { nodes := [], edgeTags := [] }, contigs := [], c2n := [] }

/-- the body of `for tag in tags:` of `add_node`; the state is the object and the variables the body assigns -/
def addNodeLoop1 (node_id : String) (st : St) (tag : Tag) : Except Exc (St) :=
  let σ : St := st
  if (!(tagOk tag)) then
    .error .valueError
  else
    let tag : Tag := tag
    match σ.g.find node_id with
    | none => .error .attributeError
    | some v1 =>
    let σ : St := { σ with g := nodeMod σ.g node_id (fun nd => { nd with tags := tagSet nd.tags ⟨tag.name, tag.ty, tag.val⟩ }) }
    .ok σ

/-- `add_node(node_id, seq, tags)` (`tags=None` is the empty list) -/
def addNode (σ : St) (node_id seq : String) (tags : List Tag) : Except Exc St :=
  let tags : List Tag := if tags.isEmpty then [] else tags
  let node_id : String := node_id
  if (!(σ.g.has node_id)) then
    let node : Node := newNode node_id
    let node : Node := { node with seq := seq }
    let σ : St := { σ with g := nodesSet σ.g node_id node }
    match forE tags σ (addNodeLoop1 node_id) with
    | .error err => .error err
    | .ok σ =>
    match σ.g.find node_id with
    | none => .error .attributeError
    | some v3 =>
    if ((tagsHas v3.tags "SN") && (tagsHas v3.tags "SR")) then
      match σ.g.find node_id with
      | none => .error .attributeError
      | some v4 =>
      match tagsGet v4.tags "SN" with
      | none => .error .keyError
      | some v5 =>
      let contig_name : String := v5.val
      match σ.g.find node_id with
      | none => .error .attributeError
      | some v6 =>
      match tagsGet v6.tags "SR" with
      | none => .error .keyError
      | some v7 =>
      match Gaftools.TextLayer.pyInt v7.val.toList with
      | none => .error .valueError
      | some v8 =>
      let contig_rank : Int := v8
      if (ctgGet σ.contigs contig_name).isNone then
        let σ : St := { σ with contigs := ctgSet σ.contigs contig_name contig_rank }
        .ok σ
      else
        if ((ctgGet σ.contigs contig_name) == (some contig_rank)) then
          .ok σ
        else
          .error .assertionError
    else
      .ok σ
  else
    .ok σ

/-- the derived slots of the node `add_node` stores -/
def addNodeSeqLen (node_id seq : String) (tags : List Tag) : Nat := seq.length
def addNodeVisited (node_id seq : String) (tags : List Tag) : Bool := false

/-- the body of `for n_start in starts:` of `remove_node`; the state is the object and the variables the body assigns -/
def removeNodeLoop1 (n_id : String) (st : St) (n_start : Adj) : Except Exc (St) :=
  let σ : St := st
  let overlap : Nat := n_start.2.2
  let σ : St := { σ with g := removeEdge σ.g n_id false n_start.1 n_start.2.1 overlap }
  .ok σ

/-- the body of `for n_end in ends:` of `remove_node`; the state is the object and the variables the body assigns -/
def removeNodeLoop2 (n_id : String) (st : St) (n_end : Adj) : Except Exc (St) :=
  let σ : St := st
  let overlap : Nat := n_end.2.2
  let σ : St := { σ with g := removeEdge σ.g n_id true n_end.1 n_end.2.1 overlap }
  .ok σ

/-- `remove_node(n_id)` -/
def removeNode (σ : St) (n_id : String) : Except Exc St :=
  match σ.g.find n_id with
  | none => .error .keyError
  | some v1 =>
  let starts : List Adj := v1.startAdj
  match forE starts σ (removeNodeLoop1 n_id) with
  | .error err => .error err
  | .ok σ =>
  match σ.g.find n_id with
  | none => .error .keyError
  | some v2 =>
  let ends : List Adj := v2.endAdj
  match forE ends σ (removeNodeLoop2 n_id) with
  | .error err => .error err
  | .ok σ =>
  if (σ.g.has n_id) then
    let σ : St := { σ with g := nodesDel σ.g n_id }
    .ok σ
  else
    .error .keyError

/-- the body of `for line in opened_file:` of `read_graph`; the state is the object and the variables the body assigns -/
def readGraphLoop1 (low_memory : Bool) (st : St × (List TLine)) (line : TLine) : Except Exc (St × (List TLine)) :=
  let σ : St := st.1
  let edges : List TLine := st.2
  if (line.first == some 'S') then
    let line : SegLine := line.seg
    if decide ((3 + line.tags.length) ≥ 3) then
      if low_memory then
        match addNode σ line.id "" line.tags with
        | .error err => .error err
        | .ok σ =>
        match σ.g.find line.id with
        | none => .error .attributeError
        | some v1 =>
        if (tagsHas v1.tags "SN") then
          match σ.g.find line.id with
          | none => .error .attributeError
          | some v2 =>
          match tagsGet v2.tags "SN" with
          | none => .error .keyError
          | some v3 =>
          let σ : St := { σ with c2n := c2nAppend σ.c2n v3.val line.id }
          .ok (σ, edges)
        else
          .ok (σ, edges)
      else
        match addNode σ line.id line.seq line.tags with
        | .error err => .error err
        | .ok σ =>
        match σ.g.find line.id with
        | none => .error .attributeError
        | some v4 =>
        if (tagsHas v4.tags "SN") then
          match σ.g.find line.id with
          | none => .error .attributeError
          | some v5 =>
          match tagsGet v5.tags "SN" with
          | none => .error .keyError
          | some v6 =>
          let σ : St := { σ with c2n := c2nAppend σ.c2n v6.val line.id }
          .ok (σ, edges)
        else
          .ok (σ, edges)
    else
      .error .assertionError
  else
    if (line.first == some 'L') then
      let edges : List TLine := edges ++ [line]
      .ok (σ, edges)
    else
      .ok (σ, edges)

/-- the body of `for e in edges:` of `read_graph`; the state is the object and the variables the body assigns -/
def readGraphLoop2 (st : St) (e : TLine) : Except Exc (St) :=
  let σ : St := st
  let e : LinkLine := e.link
  if decide ((6 + e.tags.length) ≥ 6) then
    let e_tags : ETags := (ETags.fields e.tags)
    let e : LinkLine := e
    if ((!(σ.g.has e.a)) || (!(σ.g.has e.b))) then
      .ok σ
    else
      let e_tags : ETags := if (!e_tags.truthy) then ETags.zero else e_tags
      let σ : St := { σ with g := callAddEdge σ.g e.a e.da e.b e.db e.ov e_tags }
      .ok σ
  else
    .error .assertionError

/-- `read_graph(path, low_memory)`; `lines` = what iterating over the opened file yields -/
def readGraph (σ : St) (lines : List TLine) (low_memory : Bool) : Except Exc St :=
  let edges : List TLine := []
  match forE lines (σ, edges) (readGraphLoop1 low_memory) with
  | .error err => .error err
  | .ok (σ, edges) =>
  match forE edges σ (readGraphLoop2) with
  | .error err => .error err
  | .ok σ =>
  .ok σ

/-- `GFA(graph_file, low_memory)` -/
def load (lines : List TLine) (low_memory : Bool) : Except Exc St := readGraph initSt lines low_memory
end Gaftools.Gen.GfaMutate
'''

FALLBACK["RealignWorker"] = _RW_PRELUDE % ("FALLBACK (source construct outside the translator's subset): a frozen copy of the translation of wfa_alignment and of\n"
                                           "    the batch entry of realign_gaf as the source stood when `Props/TieA19.lean` was written") + r"""/-- the body of `for k in gaf_line.tags.keys()` -/
def workerFor_k (v_out_string : Str) (x : Str × Str) : Str :=
  let v_k : Str := x.1
  let v_out_string : Str := (v_out_string ++ ((['\t'] : Str) ++ v_k ++ x.2))
  v_out_string

/-- the variables carried by `for (op_type, op_len) in res.cigartuples` -/
structure WorkerSt_op_type where
  v_match : Int
  v_mismatch : Int
  v_cigar_len : Int
  v_ins : Int
  v_deletion : Int
  v_soft_clip : Int
  v_cigar : Str

/-- the body of `for (op_type, op_len) in res.cigartuples` -/
def workerFor_op_type (s : WorkerSt_op_type) (x : Nat × Nat) : Option (WorkerSt_op_type) :=
  let v_match : Int := s.v_match
  let v_mismatch : Int := s.v_mismatch
  let v_cigar_len : Int := s.v_cigar_len
  let v_ins : Int := s.v_ins
  let v_deletion : Int := s.v_deletion
  let v_soft_clip : Int := s.v_soft_clip
  let v_cigar : Str := s.v_cigar
  let v_op_type : Nat := x.1
  let v_op_len : Nat := x.2
  if ((v_op_type : Int) == (0 : Int)) then
    let v_match : Int := (v_match + (v_op_len : Int))
    let v_cigar : Str := (v_cigar ++ ((dec v_op_len) ++ (['='] : Str)))
    let v_cigar_len : Int := (v_cigar_len + (v_op_len : Int))
    some (⟨v_match, v_mismatch, v_cigar_len, v_ins, v_deletion, v_soft_clip, v_cigar⟩ : WorkerSt_op_type)
  else
    if ((v_op_type : Int) == (1 : Int)) then
      let v_ins : Int := (v_ins + (v_op_len : Int))
      let v_cigar : Str := (v_cigar ++ ((dec v_op_len) ++ (['I'] : Str)))
      let v_cigar_len : Int := (v_cigar_len + (v_op_len : Int))
      some (⟨v_match, v_mismatch, v_cigar_len, v_ins, v_deletion, v_soft_clip, v_cigar⟩ : WorkerSt_op_type)
    else
      if ((v_op_type : Int) == (2 : Int)) then
        let v_deletion : Int := (v_deletion + (v_op_len : Int))
        let v_cigar : Str := (v_cigar ++ ((dec v_op_len) ++ (['D'] : Str)))
        let v_cigar_len : Int := (v_cigar_len + (v_op_len : Int))
        some (⟨v_match, v_mismatch, v_cigar_len, v_ins, v_deletion, v_soft_clip, v_cigar⟩ : WorkerSt_op_type)
      else
        if ((v_op_type : Int) == (4 : Int)) then
          let v_soft_clip : Int := (v_soft_clip + (v_op_len : Int))
          let v_cigar_len : Int := (v_cigar_len + (v_op_len : Int))
          some (⟨v_match, v_mismatch, v_cigar_len, v_ins, v_deletion, v_soft_clip, v_cigar⟩ : WorkerSt_op_type)
        else
          if ((v_op_type : Int) == (8 : Int)) then
            let v_mismatch : Int := (v_mismatch + (v_op_len : Int))
            let v_cigar : Str := (v_cigar ++ ((dec v_op_len) ++ (['X'] : Str)))
            let v_cigar_len : Int := (v_cigar_len + (v_op_len : Int))
            some (⟨v_match, v_mismatch, v_cigar_len, v_ins, v_deletion, v_soft_clip, v_cigar⟩ : WorkerSt_op_type)
          else
            none

/-- the body of `for (gaf_line, ref, query, prior_counter) in seq_batch` -/
def workerFor_gaf_line (wfa : Str → Str → Bool → Wfa) (v_qu : List Put) (x : Rec × Str × Str × Nat) : Option (List Put) :=
  let v_gaf_line : Rec := x.1
  let v_ref : Str := x.2.1
  let v_query : Str := x.2.2.1
  let v_prior_counter : Nat := x.2.2.2
  if decide (((v_gaf_line.qe : Int) - (v_gaf_line.qs : Int)) > (60000 : Int)) then
    let v_out_string : Str := (v_gaf_line.qname ++ (['\t'] : Str) ++ (dec v_gaf_line.qlen) ++ (['\t'] : Str) ++ (dec v_gaf_line.qs) ++ (['\t'] : Str) ++ (dec v_gaf_line.qe) ++ (['\t'] : Str) ++ v_gaf_line.strand ++ (['\t'] : Str) ++ v_gaf_line.path ++ (['\t'] : Str) ++ (dec v_gaf_line.plen) ++ (['\t'] : Str) ++ (dec v_gaf_line.ps) ++ (['\t'] : Str) ++ (dec v_gaf_line.pe) ++ (['\t'] : Str) ++ (dec v_gaf_line.nmatch) ++ (['\t'] : Str) ++ (dec v_gaf_line.blen) ++ (['\t'] : Str) ++ (dec v_gaf_line.mapq))
    let s : Str := v_gaf_line.tags.foldl workerFor_k v_out_string
    let v_out_string : Str := s
    let v_qu : List Put := v_qu ++ [(some (v_prior_counter, (v_out_string ++ (['\n'] : Str))) : Put)]
    some v_qu
  else
    let w_aligner : Wfa := wfa v_ref v_query false
    let v_res : Wfa := w_aligner
    let v_match : Int := (0 : Int)
    let v_mismatch : Int := (0 : Int)
    let v_cigar_len : Int := (0 : Int)
    let v_ins : Int := (0 : Int)
    let v_deletion : Int := (0 : Int)
    let v_soft_clip : Int := (0 : Int)
    let v_cigar : Str := ([] : Str)
    match v_res.cigartuples.foldlM workerFor_op_type (⟨v_match, v_mismatch, v_cigar_len, v_ins, v_deletion, v_soft_clip, v_cigar⟩ : WorkerSt_op_type) with
    | none => none
    | some s =>
    let v_match : Int := s.v_match
    let v_mismatch : Int := s.v_mismatch
    let v_cigar_len : Int := s.v_cigar_len
    let v_ins : Int := s.v_ins
    let v_deletion : Int := s.v_deletion
    let v_soft_clip : Int := s.v_soft_clip
    let v_cigar : Str := s.v_cigar
    let v_out_string : Str := (v_gaf_line.qname ++ (['\t'] : Str) ++ (dec v_gaf_line.qlen) ++ (['\t'] : Str) ++ (dec v_gaf_line.qs) ++ (['\t'] : Str) ++ (dec v_gaf_line.qe) ++ (['\t'] : Str) ++ v_gaf_line.strand ++ (['\t'] : Str) ++ v_gaf_line.path ++ (['\t'] : Str) ++ (dec v_gaf_line.plen) ++ (['\t'] : Str) ++ (dec v_gaf_line.ps) ++ (['\t'] : Str) ++ (dec v_gaf_line.pe) ++ (['\t'] : Str) ++ (decI v_match) ++ (['\t'] : Str) ++ (decI v_cigar_len) ++ (['\t'] : Str) ++ (dec v_gaf_line.mapq))
    let v_cigar : Str := (replaceChar 'M' '=' w_aligner.cigarstring)
    let v_gaf_line : Rec := { v_gaf_line with tags := dictSet v_gaf_line.tags (['c', 'g', ':', 'Z', ':'] : Str) v_cigar }
    let s : Str := v_gaf_line.tags.foldl workerFor_k v_out_string
    let v_out_string : Str := s
    let v_qu : List Put := v_qu ++ [(some (v_prior_counter, (v_out_string ++ (['\n'] : Str))) : Put)]
    some v_qu

/-- `wfa_alignment(seq_batch, qu)`: the queue after the call (`none`: an assertion failed) -/
def worker (wfa : Str → Str → Bool → Wfa) (v_seq_batch : List (Rec × Str × Str × Nat)) (v_qu : List Put) : Option (List Put) :=
  match v_seq_batch.foldlM (workerFor_gaf_line wfa) v_qu with
  | none => none
  | some s =>
  let v_qu : List Put := s
  let v_qu : List Put := v_qu ++ [(none : Put)]
  some v_qu

/-- realign_gaf, for one record `line` of `gaf_file.read_file()` at count `priority_counter`: the entry appended to the batch (the count is then increased by one);
    `extractPath` = `GFA(graph).extract_path`, `fetch` = `pysam.FastaFile(fasta).fetch` -/
def batchEntry (extractPath : Str → Str) (fetch : Str → Nat → Nat → Str) (v_line : Rec) (v_priority_counter : Nat) : Rec × Str × Str × Nat :=
  let v_path_sequence : Str := (extractPath v_line.path)
  let v_ref : Str := (rwSlice v_path_sequence v_line.ps v_line.pe)
  let v_query : Str := (fetch v_line.qname v_line.qs v_line.qe)
  (v_line, v_ref, v_query, v_priority_counter)
end Gaftools.Gen.Realign
"""

# the translation of the source as it was when the model was written (the definitions TieA13 was proved against)
FALLBACK["IndexLoop"] = (
    "import Gaftools.Model.View\nimport Gaftools.Model.ConvText\nimport Gaftools.Gen.SearchIv\n"
    "/-! FALLBACK (source construct outside the translator's subset): convert_coord and the record loop of run as modelled by hand -/\n"
    "set_option linter.unusedVariables false\n"
    "namespace Gaftools.Gen\nopen Gaftools.Gaf Gaftools.Conv Gaftools.ConvText Gaftools.View\n\n" + _IX_PRELUDE + r'''
/-! ## convert_coord -/

/-- body of `for node in ref[query_contig_name][start:end + 1]` -/
def convertCoord_for2 (query_start_int : Int) (query_end_int : Int) (unstable_coord : List String) (node : Seg) : List String :=
  let cases : Int := (-1 : Int)
  if ((node.so ≤ query_start_int) ∧ (query_start_int < (node.so + (node.en - node.so)))) then
    let cases : Int := (1 : Int)
    if (cases ≠ (-1 : Int)) then
      let unstable_coord : List String := unstable_coord ++ [node.id]
      unstable_coord
    else
      unstable_coord
  else
    if ((node.so < query_end_int) ∧ (query_end_int ≤ (node.so + (node.en - node.so)))) then
      let cases : Int := (2 : Int)
      if (cases ≠ (-1 : Int)) then
        let unstable_coord : List String := unstable_coord ++ [node.id]
        unstable_coord
      else
        unstable_coord
    else
      if ((query_start_int < node.so) ∧ (node.so < (node.so + (node.en - node.so))) ∧ ((node.so + (node.en - node.so)) < query_end_int)) then
        let cases : Int := (3 : Int)
        if (cases ≠ (-1 : Int)) then
          let unstable_coord : List String := unstable_coord ++ [node.id]
          unstable_coord
        else
          unstable_coord
      else
        if (cases ≠ (-1 : Int)) then
          let unstable_coord : List String := unstable_coord ++ [node.id]
          unstable_coord
        else
          unstable_coord

/-- body of `for nd in gaf_contigs` -/
def convertCoord_for1 (line : List Str) (ref : String → List Seg) (unstable_coord : List String) (nd : Str) : Option (List String) :=
  if ((nd == ['>']) || (nd == ['<'])) then
    some unstable_coord
  else
    if ((nd.contains ':') && (nd.contains '-')) then
      let tmp : List Str := (splitOnChar ':' (rstrip nd))
      (tmp[0]?).bind fun v2 =>
      let query_contig_name : Str := v2
      (tmp[1]?).bind fun v3 =>
      (unpack2 (splitOnChar '-' (rstrip v3))).bind fun v4 =>
      let query_start : Str := v4.1
      let query_end : Str := v4.2
      (toInt query_start).bind fun query_start_int =>
      (toInt query_end).bind fun query_end_int =>
      (Gaftools.Gen.searchIv (ref (String.ofList query_contig_name)) query_start_int query_end_int ((ref (String.ofList query_contig_name)).length + 2) (0 : Int) ((ref (String.ofList query_contig_name)).length : Int)).bind fun v5 =>
      let start : Int := v5.1
      let end_ : Int := v5.2
      let unstable_coord : List String := (pySlice (ref (String.ofList query_contig_name)) start (end_ + (1 : Int))).foldl (convertCoord_for2 query_start_int query_end_int) unstable_coord
      some unstable_coord
    else
      (line[7]?).bind fun v6 =>
      let query_start : Str := v6
      (line[8]?).bind fun v7 =>
      let query_end : Str := v7
      let query_contig_name : Str := nd
      (toInt query_start).bind fun query_start_int =>
      (toInt query_end).bind fun query_end_int =>
      (Gaftools.Gen.searchIv (ref (String.ofList query_contig_name)) query_start_int query_end_int ((ref (String.ofList query_contig_name)).length + 2) (0 : Int) ((ref (String.ofList query_contig_name)).length : Int)).bind fun v8 =>
      let start : Int := v8.1
      let end_ : Int := v8.2
      let unstable_coord : List String := (pySlice (ref (String.ofList query_contig_name)) start (end_ + (1 : Int))).foldl (convertCoord_for2 query_start_int query_end_int) unstable_coord
      some unstable_coord

/-- `convert_coord(line, ref)`: the node ids a stable record traverses (`none` = an exception) -/
def convertCoord (line : List Str) (ref : String → List Seg) : Option (List String) :=
  let unstable_coord : List String := []
  (line[5]?).bind fun v1 =>
  let gaf_contigs : List Str := (filterNone (reSplit (fun c => c == '>' || c == '<') (fun c => c == '>' || c == '<') v1))
  (gaf_contigs.foldlM (convertCoord_for1 line ref) unstable_coord).bind fun unstable_coord =>
  some unstable_coord

/-! ## run -/

/-- body of `for a in alignment` -/
def run_for1 (nodes : String → Option NodeInfo) (offset : Nat) (out_dict : Idx) (a : String) : Option Idx :=
  let onKeyError : Unit → Option Idx := fun _ =>
      (nodes a).bind fun v2 =>
      let out_dict : Idx := dSet out_dict (v2.id, v2.sn, v2.so, (v2.so + (v2.en - v2.so))) [offset]
      some out_dict
  match ((nodes a).bind fun v3 => some (v3.id, v3.sn, v3.so, (v3.so + (v3.en - v3.so)))) with
  | none => onKeyError ()
  | some k =>
    if dHas out_dict k then
      let out_dict : Idx := dAppend out_dict k offset
      some out_dict
    else onKeyError ()

/-- the variables the `while True:` loop carries from one iteration to the next -/
structure RunSt where
  out_dict : Idx
  offset : Nat
  gaf_file : GafFile

/-- body of `while True:` (`false` = `break`) -/
def run_while (stable : Bool) (nodes : String → Option NodeInfo) (reference : String → List Seg) (s : RunSt) : Option (Bool × RunSt) :=
  let out_dict : Idx := s.out_dict
  let offset : Nat := s.offset
  let gaf_file : GafFile := s.gaf_file
  let offset : Nat := gaf_file.pos
  let mapping : Option Str := gaf_file.rest.head?
  let gaf_file : GafFile := ⟨gaf_file.pos + 1, gaf_file.rest.tail⟩
  if mapping.isNone then
    some (false, ⟨out_dict, offset, gaf_file⟩)
  else
    let mapping : Str := mapping.getD []
    let val : List Str := (splitOnChar '\t' (rstrip mapping))
    if stable then
      (Gaftools.Gen.convertCoord val reference).bind fun v1 =>
      let alignment : List String := v1
      (alignment.foldlM (run_for1 nodes offset) out_dict).bind fun out_dict =>
      some (true, ⟨out_dict, offset, gaf_file⟩)
    else
      (val[5]?).bind fun v4 =>
      let alignment : List String := (((v4.splitOnP (fun c => c == '>' || c == '<')).drop 1).map String.ofList)
      (alignment.foldlM (run_for1 nodes offset) out_dict).bind fun out_dict =>
      some (true, ⟨out_dict, offset, gaf_file⟩)

/-- `ref_contig = [contig for contig in gfa_file.contigs if gfa_file.contigs[contig] == 0]`; `contigs` = the dictionary `gfa_file.contigs` (name ↦ rank, insertion order) -/
def run_ref_contig (contigs : List (String × Int)) : List String :=
  (contigs.filter (fun kv => decide (kv.2 = (0 : Int)))).map (fun kv => kv.1)

/-- `run`, from the initialisation of the loop state to `pickle.dump(out_dict, …)`: the index and the entries stored under text keys -/
def run (stable : Bool) (nodes : String → Option NodeInfo) (reference : String → List Seg) (ref_contig : List String) (gaf_file : GafFile) (fuel : Nat) : Option (Idx × List (String × List String)) :=
  let out_dict : Idx := []
  let offset : Nat := 0
  (whileTrue (run_while stable nodes reference) fuel ⟨out_dict, offset, gaf_file⟩).bind fun s =>
  let out_dict : Idx := s.out_dict
  let offset : Nat := s.offset
  let gaf_file : GafFile := s.gaf_file
  some (out_dict, [("ref_contig", ref_contig)])
end Gaftools.Gen
''')


FALLBACK["OrderRun"] = r"""import Gaftools.Model.Order
/-! FALLBACK (source construct outside the translator's subset): count_sn, name_comps and the loop over the requested chromosomes of
    run_order_gfa as translated from the source the model was written against -/
set_option linter.unusedVariables false
namespace Gaftools.Gen.OrderRun
open Gaftools.Gfa Gaftools.Algo Gaftools.View Gaftools.Order

/-! ### fixed vocabulary: what the Python objects are in Lean -/

/-- `d[k] += x` on a `defaultdict(int)` (the dict in insertion order) -/
def dictAdd (d : List (String × Nat)) (k : String) (x : Nat) : List (String × Nat) :=
  if d.any (·.1 == k) then d.map (fun e => if e.1 == k then (e.1, e.2 + x) else e) else d ++ [(k, 0 + x)]

/-- `d[k] = v` on the dict of named components, kept as a duplicate-free association list whose newest assignment is last
    (`run_order_gfa` uses this dict only through lookups and its key set; the translator checks that) -/
def dictPut (d : List (String × List V)) (k : String) (v : List V) : List (String × List V) :=
  d.filter (·.1 != k) ++ [(k, v)]

/-- `d[k]`, `none` = KeyError -/
def dictGet (d : List (String × List V)) (k : String) : Option (List V) := (d.find? (·.1 == k)).map (·.2)

/-- `graph.nodes[id].tags[t.name] = (t.ty, t.val)` -/
def setTag (g : Graph) (id : V) (t : Tag) : Graph :=
  { g with nodes := g.nodes.map (fun n => if n.id == id then { n with tags := tagSet n.tags t } else n) }

/-- the five values `decompose_and_order` returns when they are not all `None` -/
structure Dao where
  scaffold_nodes : List V
  inside_nodes : List V
  node_order : List (V × Int × Int)
  next_bo : Int
  bubble_count : Int
deriving Repr

/-- what the loop does to the outside world, in program order -/
inductive Event where
  | openW (path : String)
  | write (path : String) (fields : List String)
  | writeGfa (path : String) (graph : Graph) (set_of_nodes : List V) (append order_bo : Bool)
  | close (path : String)
deriving Repr, DecidableEq

/-- what the loop reads and does not change: the named components, `decompose_and_order` as a function of its four arguments
    (`.error` = it raises, `.ok none` = the all-`None` tuple), and the pieces of the file names -/
structure Env where
  components : List (String × List V)
  dao : Graph → List V → String → Int → Except String (Option Dao)
  outdir : String
  sep : String
  stemDot : String
  stemCut : String

/-- the variables the loop over the chromosomes carries from one iteration to the next, and the event log -/
structure RunSt where
  graph : Graph
  bo : Int
  out_gfa : List String
  out_csv : List String
  log : List Event
deriving Repr, DecidableEq

/-- the body of `for n in comp` -/
def countSnBody (sn : V → Option String) (counts : List (String × Nat)) (n : V) :
    List (String × Nat) :=
  if (!(sn n).isSome) then
    counts
  else
    let counts := dictAdd counts ((sn n).getD "") (1 : Nat)
    counts

def countSn (sn : V → Option String) (comp : List V) : List (String × Nat) :=
  let counts : List (String × Nat) := []
  let counts := comp.foldl (countSnBody sn) counts
  counts

/-- the body of `for (tag, count) in counts.items()` -/
def voteBody (st : String × Nat) (item : String × Nat) :
    String × Nat :=
  let current_tag := st.1
  let most_freq := st.2
  let tag := item.1
  let count := item.2
  if decide (most_freq ≤ count) then
    let (current_tag, most_freq) := (tag, count)
    (current_tag, most_freq)
  else
    (current_tag, most_freq)

/-- the body of `for comp in components` -/
def nameBody (sn : V → Option String) (st : List (String × List V) × String) (comp : List V) :
    Except String (List (String × List V) × String) :=
  let named_comps := st.1
  let current_tag := st.2
  let counts := countSn sn comp
  let most_freq := (0 : Nat)
  let (current_tag, most_freq) := counts.foldl voteBody (current_tag, most_freq)
  if (current_tag == "") then
    .error "ValueError"
  else
    let named_comps := dictPut named_comps current_tag comp
    .ok (named_comps, current_tag)

def nameComps (sn : V → Option String) (components : List (List V)) : Except String (List (String × List V)) :=
  let named_comps : List (String × List V) := []
  let current_tag := ""
  match components.foldlM (nameBody sn) (named_comps, current_tag) with
  | .error e => .error e
  | .ok (named_comps, current_tag) =>
  .ok named_comps

/-- the body of `for node_name in sorted(component_nodes)` -/
def nodeBody (node_order : List (V × Int × Int)) (scaffold_nodes : List V) (inside_nodes : List V) (csv_file : String) (st : Graph × List Event) (node_name : V) :
    Except String (Graph × List Event) :=
  let graph := st.1
  let log := st.2
  match graph.find node_name with
  | none => .error "KeyError"
  | some node =>
  match lookup node_name node_order with
  | none => .error "KeyError"
  | some (bo_tag, no_tag) =>
  let graph := setTag graph node_name ⟨"BO", "i", toString bo_tag⟩
  let node : Node := { node with tags := tagSet node.tags ⟨"BO", "i", toString bo_tag⟩ }
  let graph := setTag graph node_name ⟨"NO", "i", toString no_tag⟩
  let node : Node := { node with tags := tagSet node.tags ⟨"NO", "i", toString no_tag⟩ }
  let color := if (scaffold_nodes.contains node_name) then "orange" else if (inside_nodes.contains node_name) then "blue" else "gray"
  let sn_tag := if (tagVal node.tags "SN").isSome then ((tagVal node.tags "SN").getD "") else "NA"
  let so_tag := if (tagVal node.tags "SO").isSome then ((tagVal node.tags "SO").getD "") else "NA"
  let log := log ++ [Event.write csv_file [node_name, color, sn_tag, so_tag, toString bo_tag, toString no_tag]]
  .ok (graph, log)

/-- separator and terminator of every line written to the CSV -/
def csvSep : String := ","
def csvEnd : String := "\n"

/-- the body of `for chromosome in chromosome_order` -/
def chromBody (env : Env) (st : RunSt) (chromosome : String) : Except String RunSt :=
  let graph := st.graph
  let bo := st.bo
  let out_gfa := st.out_gfa
  let out_csv := st.out_csv
  let log := st.log
  match dictGet env.components chromosome with
  | none => .error "KeyError"
  | some component_nodes =>
  match env.dao graph component_nodes chromosome bo with
  | .error e => .error e
  | .ok none =>
    .ok { graph := graph, bo := bo, out_gfa := out_gfa, out_csv := out_csv, log := log }
  | .ok (some r) =>
    let scaffold_nodes := r.scaffold_nodes
    let inside_nodes := r.inside_nodes
    let node_order := r.node_order
    let next_bo := r.next_bo
    let bubble_count := r.bubble_count
    if (!scaffold_nodes.isEmpty) then
      let bo := next_bo
      let f_gfa := env.outdir ++ env.sep ++ env.stemDot ++ "-" ++ chromosome ++ ".gfa"
      let out_gfa := out_gfa ++ [f_gfa]
      let csv_file := env.outdir ++ env.sep ++ env.stemCut ++ "-" ++ chromosome ++ ".csv"
      let out_csv := out_csv ++ [csv_file]
      let log := log ++ [Event.openW csv_file]
      let log := log ++ [Event.write csv_file ["Name", "Color", "SN", "SO", "BO", "NO"]]
      match (sortStrings component_nodes).foldlM (nodeBody node_order scaffold_nodes inside_nodes csv_file) (graph, log) with
      | .error e => .error e
      | .ok (graph, log) =>
      let log := log ++ [Event.writeGfa f_gfa graph component_nodes false true]
      let log := log ++ [Event.close csv_file]
      .ok { graph := graph, bo := bo, out_gfa := out_gfa, out_csv := out_csv, log := log }
    else
      .ok { graph := graph, bo := bo, out_gfa := out_gfa, out_csv := out_csv, log := log }

/-- the values of the carried variables before the loop -/
def initSt (graph : Graph) : RunSt :=
  { graph := graph, bo := (0 : Int), out_gfa := [], out_csv := [], log := [] }

def runLoop (env : Env) (st : RunSt) (chromosome_order : List String) : Except String RunSt :=
  chromosome_order.foldlM (chromBody env) st

end Gaftools.Gen.OrderRun
"""

FALLBACK["PathWalk"] = PW_PREAMBLE % "FALLBACK (source construct outside the translator's subset): path_exists, extract_path, rev_comp and find_path.run\n"\
    "    as translated from the source the model was written for" + '''
/-- utils.complement = str.maketrans("ACGT", "TGCA") -/
def complement : List (Char × Char) := [('A', 'T'), ('C', 'G'), ('G', 'C'), ('T', 'A')]

/-- utils.rev_comp -/
def revComp (seq : String) : String :=
  String.ofList (seq.toList.reverse.map (fun c => (dictGet complement c).getD c))

/-- GFA.path_exists on the tokens of `re.findall` -/
def pathExists (g : Graph) (ordered_path : List Tok) : Except PyErr Bool :=
  let cases : List ((Char × Char) × (Bool × Bool)) := [(('>', '>'), (true, false)), (('<', '<'), (false, true)), (('>', '<'), (true, true)), (('<', '>'), (false, false))]
  match forEach (pyRange (1 : Int) (ordered_path.length : Int)) () (fun _ i =>
    match pyGet ordered_path (i - (1 : Int)) with
    | none => .exc .indexError
    | some x1 =>
    let n1 := x1
    match pyGet ordered_path i with
    | none => .exc .indexError
    | some x2 =>
    let n2 := x2
    match dictGet cases (n1.1, n2.1) with
    | none =>
      .ret false
    | some x3 =>
    let case := x3
    let ok := false
    match g.find n1.2 with
    | none => .exc .keyError
    | some x4 =>
    match forEach (sideSet x4 case.1) ok (fun ok edge =>
      if ((n2.2, case.2) == (edge.1, edge.2.1)) then
        let ok := true
        .cont ok
      else
        .cont ok) with
    | .ret v => .ret v
    | .exc e => .exc e
    | .cont ok =>
    if (!ok) then
      .ret false
    else
      .cont ()) with
  | .ret v => .ok v
  | .exc e => .error e
  | .cont _ =>
  .ok true

/-- GFA.extract_path -/
def extractPath (g : Graph) (path : String) : Except PyErr String :=
  let seq : List _ := []
  match pyGet path.toList (0 : Int) with
  | none => .error .indexError
  | some x1 =>
  if (!(['<', '>'].contains x1)) then
    .ok ""
  else
    let path := (findall (fun c => c == '>' || c == '<') (fun c => !(c == '>' || c == '<')) 1 none path.toList)
    match pathExists g path with
    | .error e => .error e
    | .ok x2 =>
    if (!x2) then
      .ok ""
    else
      match forEach path seq (fun seq n =>
        if (!(g.has n.2)) then
          .ret ""
        else
          if (n.1 == '>') then
            match g.find n.2 with
            | none => .exc .keyError
            | some x3 =>
            let seq := seq ++ [x3.seq]
            .cont seq
          else
            if (n.1 == '<') then
              match g.find n.2 with
              | none => .exc .keyError
              | some x4 =>
              let seq := seq ++ [(revComp x4.seq)]
              .cont seq
            else
              .ret "") with
      | .ret v => .ok v
      | .exc e => .error e
      | .cont seq =>
      .ok (String.join seq)

/-- find_path.run after the graph is loaded: the printed lines; `reader?` = the lines of the file named by the second argument
    (`none`: it cannot be opened) -/
def run (g : Graph) (input_path : String) (reader? : Option (List String)) (fasta : Bool) : Except PyErr (List String) :=
  let out : List String := []
  match pyGet input_path.toList (0 : Int) with
  | none => .error .indexError
  | some x1 =>
  if (['>', '<'].contains x1) then
    let nodes := [input_path]
    match extractPath g input_path with
    | .error e => .error e
    | .ok x2 =>
    let path_seqs := [x2]
    if fasta then
      match forEach (List.zip nodes path_seqs) out (fun out x3 =>
        let node := x3.1
        let path_seq := x3.2
        let out := out ++ [(">seq_" ++ node)]
        let out := out ++ [path_seq]
        .cont out) with
      | .ret v => .ok v
      | .exc e => .error e
      | .cont out =>
      .ok out
    else
      match forEach (List.zip nodes path_seqs) out (fun out x4 =>
        let node := x4.1
        let path_seq := x4.2
        let out := out ++ [path_seq]
        .cont out) with
      | .ret v => .ok v
      | .exc e => .error e
      | .cont out =>
      .ok out
  else
    match reader? with
    | none => .error .osError
    | some reader =>
    let nodes : List _ := []
    let path_seqs : List _ := []
    match forEach reader (nodes, path_seqs) (fun st line =>
      let nodes := st.1
      let path_seqs := st.2
      let nodes := nodes ++ [(pyStrip line)]
      match pyGet nodes (-1 : Int) with
      | none => .exc .indexError
      | some x5 =>
      match extractPath g x5 with
      | .error e => .exc e
      | .ok x6 =>
      let path_seqs := path_seqs ++ [x6]
      .cont (nodes, path_seqs)) with
    | .ret v => .ok v
    | .exc e => .error e
    | .cont st =>
    let nodes := st.1
    let path_seqs := st.2
    if fasta then
      match forEach (List.zip nodes path_seqs) out (fun out x7 =>
        let node := x7.1
        let path_seq := x7.2
        let out := out ++ [(">seq_" ++ node)]
        let out := out ++ [path_seq]
        .cont out) with
      | .ret v => .ok v
      | .exc e => .error e
      | .cont out =>
      .ok out
    else
      match forEach (List.zip nodes path_seqs) out (fun out x8 =>
        let node := x8.1
        let path_seq := x8.2
        let out := out ++ [path_seq]
        .cont out) with
      | .ret v => .ok v
      | .exc e => .error e
      | .cont out =>
      .ok out

end Gaftools.Gen.PathWalk
'''

FALLBACK["StatLoop"] = _STAT_PRELUDE % "FALLBACK (source construct outside the translator's subset): run_stat as modelled by hand" + """def statFor_cnt (v_all_cigars : List Str) (s : St) (v_cnt : Nat) : St :=
  { s with cig := bump s.cig (v_all_cigars.getD v_cnt [], v_all_cigars.getD (v_cnt + 1) []) }
def statStep (cigarStat : Bool) (s : St) (r : Rec) : St := Gaftools.Stat.step cigarStat s r
def statInit : St := {}
def statRun (cigarStat : Bool) (recs : List Rec) : St := Gaftools.Stat.run cigarStat recs
def statReport (cigarStat : Bool) (s : St) : List (String × RVal) :=
  [("Total alignments:", .nat s.total),
   ("\\tPrimary:", .nat s.primary),
   ("\\tSecondary:", .nat s.secondary),
   ("Reads with at least one alignment:", .nat s.reads.length),
   ("Total aligned bases:", .nat s.bases),
   ("Average mapping quality:", .round (avgMapq s) 1),
   ("Average highest sequence identity:", .round (avgBestId s) 3),
   ("Average highest map ratio:", .round (avgBestRatio s) 3)] ++
  (if cigarStat then [("", .fmt "Cigar string statistics:\\n\\tTotal deletion regions: %d (%d >50bps)\\n\\tTotal insertion regions: %d (%d >50bps)\\n\\tTotal substitution regions: %d (%d >50bps)\\n\\tTotal match regions: %d (%d >50bps)" [s.cig.del, s.cig.delL, s.cig.ins, s.cig.insL, s.cig.x, s.cig.xL, s.cig.m, s.cig.mL]),
   ("Total perfect alignments (exact match):", .nat s.cig.perfect)] else []) ++
  [("* Numbers are based on primary alignments and the ones with >0 mapping quality", .text)]
end Gaftools.Gen
"""

FALLBACK["ConvLoopS"] = r"""import Gaftools.Model.ConvText
import Gaftools.Gen.MergeNodes
/-! FALLBACK (source construct outside the translator's subset): to_stable up to the format statement as translated from the
    source the model was written against (hand-checked twin of Gaftools.Conv.toStable / ConvText.parseUnstableSteps / renderSPath) -/
set_option linter.unusedVariables false
namespace Gaftools.Gen
open Gaftools.Gaf Gaftools.Conv Gaftools.ConvText

/-- `list(filter(None, re.split("(c)|(d)…", s)))` for single-character alternatives: every separator as a string of its own,
    the maximal runs between them, no empty strings -/
def splitKeepAux (seps : List Char) : Str → Str → List Str
  | [], cur => if cur.isEmpty then [] else [cur.reverse]
  | c :: cs, cur =>
    if seps.contains c then (if cur.isEmpty then [] else [cur.reverse]) ++ [c] :: splitKeepAux seps cs []
    else splitKeepAux seps cs (c :: cur)
def splitKeep (seps : List Char) (s : Str) : List Str := splitKeepAux seps s []
/-- truth value of `None` / a string -/
def truthy (o : Option Str) : Bool := match o with | none => false | some s => !s.isEmpty
/-- `l[-1] = v` (IndexError on the empty list) -/
def setLast {α : Type} (l : List α) (v : α) : Option (List α) := if l.isEmpty then none else some (l.dropLast ++ [v])
/-- the Bool encoding of an orientation string ('>' = true), as in Gen.mergeNodes -/
def encOrient (o : Option Str) : Bool := o == some ['>']

/-- the characters `re.split` cuts the path at (each kept as a token) -/
def pathSeps : List Char := ['>', '<']

/-- `StableNode.to_string(orient)` -/
def toStr (self : SNode) (orient : Bool) : Str :=
  (if orient then ['>'] else ['<']) ++ self.contig.toList ++ [':'] ++ decI self.s ++ ['-'] ++ decI self.e

/-- the body of the loop over the path tokens; the state is the tuple of the variables it assigns -/
def tokStep (nodes : String → Option SNode) (st : (Option Str) × (List (SNode × (Option Str)))) (nd : Str) : Option ((Option Str) × (List (SNode × (Option Str)))) :=
  let orient : Option Str := st.1
  let node_list : List (SNode × (Option Str)) := st.2
  if ((nd == ['>']) || (nd == ['<'])) then
    let orient : Option Str := (some nd)
    some (orient, node_list)
  else
    if (!truthy orient) then
      let orient : Option Str := (some ['>'])
      match nodes (String.ofList nd) with
      | none => none
      | some v1 =>
      let node_list : List (SNode × (Option Str)) := (node_list ++ [(v1, orient)])
      some (orient, node_list)
    else
      match nodes (String.ofList nd) with
      | none => none
      | some v2 =>
      let node_list : List (SNode × (Option Str)) := (node_list ++ [(v2, orient)])
      some (orient, node_list)

/-- the body of the loop that merges consecutive nodes; the state is the tuple of the variables it assigns -/
def mergeStep (node_list : List (SNode × Bool)) (st : Str × (List (SNode × Bool))) (i : Nat) : Option (Str × (List (SNode × Bool))) :=
  let stable_coord : Str := st.1
  let out_node : List (SNode × Bool) := st.2
  match out_node.getLast? with
  | none => none
  | some v4 =>
  let n1 : SNode := v4.1
  match out_node.getLast? with
  | none => none
  | some v5 =>
  let o1 : Bool := v5.2
  match node_list[(i + 1)]? with
  | none => none
  | some v6 =>
  let n2 : SNode := v6.1
  match node_list[(i + 1)]? with
  | none => none
  | some v7 =>
  let o2 : Bool := v7.2
  let node_merge : Option (SNode × Bool) := (Gaftools.Gen.mergeNodes n1 n2 o1 o2)
  match node_merge with
  | none => (
      let stable_coord : Str := (stable_coord ++ (toStr n1 o1))
      let out_node : List (SNode × Bool) := (out_node ++ [(n2, o2)])
      some (stable_coord, out_node))
  | some node_merge =>
      match setLast out_node node_merge with
      | none => none
      | some out_node =>
      some (stable_coord, out_node)

/-- `to_stable` up to the format statement: the path column, and (strand column, columns 7-9, whether the CIGAR is reversed) -/
def toStableS (nodes : String → Option SNode) (ref_contig : List String) (contig_len : String → Option Int)
    (strand : Bool) (path : Str) (path_length path_start path_end : Int) : Option (Str × ConvOut) :=
  let reverse_flag : Bool := false
  let new_total : Option Int := none
  let new_start : Option Int := none
  let gaf_nodes : List Str := (splitKeep pathSeps path)
  let node_list : List (SNode × (Option Str)) := []
  let stable_coord : Str := []
  let orient : Option Str := none
  let new_line : Str := []
  match gaf_nodes.foldlM (tokStep nodes) (orient, node_list) with
  | none => none
  | some (orient, node_list) =>
  let node_list : List (SNode × Bool) := node_list.map (fun x => (x.1, encOrient x.2))
  match node_list[0]? with
  | none => none
  | some v3 =>
  let out_node : List (SNode × Bool) := [v3]
  match (List.range (node_list.length - 1)).foldlM (mergeStep node_list) (stable_coord, out_node) with
  | none => none
  | some (stable_coord, out_node) =>
  if (out_node.length == 1) then
    match out_node[0]? with
    | none => none
    | some v9 =>
    if (ref_contig.contains v9.1.contig) then
      match out_node[0]? with
      | none => none
      | some v10 =>
      if (v10.2 == false) then
        let reverse_flag : Bool := true
        let strand : Bool := false
        match out_node[0]? with
        | none => none
        | some v11 =>
        let new_start : Option Int := (some ((v11.1.s + path_length) - path_end))
        match out_node[0]? with
        | none => none
        | some v12 =>
        let stable_coord : Str := v12.1.contig.toList
        match contig_len (String.ofList stable_coord) with
        | none => none
        | some v13 =>
        let new_total : Option Int := (some v13)
        match new_total with
        | none => none
        | some v14 =>
        match new_start with
        | none => none
        | some v15 =>
        some (stable_coord, (⟨strand, v14, v15, ((v15 + path_end) - path_start), reverse_flag⟩ : ConvOut))
      else
        match out_node[0]? with
        | none => none
        | some v16 =>
        let new_start : Option Int := (some (v16.1.s + path_start))
        match out_node[0]? with
        | none => none
        | some v17 =>
        let stable_coord : Str := v17.1.contig.toList
        match contig_len (String.ofList stable_coord) with
        | none => none
        | some v18 =>
        let new_total : Option Int := (some v18)
        match new_total with
        | none => none
        | some v19 =>
        match new_start with
        | none => none
        | some v20 =>
        some (stable_coord, (⟨strand, v19, v20, ((v20 + path_end) - path_start), reverse_flag⟩ : ConvOut))
    else
      match out_node.getLast? with
      | none => none
      | some v21 =>
      let stable_coord : Str := (stable_coord ++ (toStr v21.1 v21.2))
      let new_start : Option Int := (some path_start)
      let new_total : Option Int := (some path_length)
      match new_total with
      | none => none
      | some v22 =>
      match new_start with
      | none => none
      | some v23 =>
      some (stable_coord, (⟨strand, v22, v23, ((v23 + path_end) - path_start), reverse_flag⟩ : ConvOut))
  else
    match out_node.getLast? with
    | none => none
    | some v24 =>
    let stable_coord : Str := (stable_coord ++ (toStr v24.1 v24.2))
    let new_start : Option Int := (some path_start)
    let new_total : Option Int := (some path_length)
    match new_total with
    | none => none
    | some v25 =>
    match new_start with
    | none => none
    | some v26 =>
    some (stable_coord, (⟨strand, v25, v26, ((v26 + path_end) - path_start), reverse_flag⟩ : ConvOut))
end Gaftools.Gen
"""

FALLBACK["RealignBatch"] = _RB_HEADER % ("FALLBACK (source construct outside the translator's subset): a frozen copy of the translation of\n"
                                          "    realign_gaf / wfa_alignment as the source stood when `Props/TieA18.lean` was written") + r'''/-- `batch_size` at the loop over the records; `verif`: the verification hook is on, `env`: the integer in its variable -/
def batchSize (verif : Bool) (env : Option Int) : Int :=
  let batch_size : Int := 1000
  if verif then
    let batch_size : Int := env.getD batch_size
    batch_size
  else
    batch_size

/-- the variables before the first record -/
def initSt : St :=
  let σ : St := { processes := [], seq_batch := [], priority_counter := 0, p_queue := [], runs := [], out := [] }
  let σ : St := { σ with processes := [] }
  let σ : St := { σ with seq_batch := [] }
  let σ : St := { σ with priority_counter := 0 }
  σ

/-- `n_sentinels` on entry of the in-loop collector loop -/
def collectorInitMain : Nat := 0

/-- `n_sentinels` on entry of the leftover collector loop -/
def collectorInitLeft : Nat := 0

/-- the body of `for line in gaf_file.read_file()`; `coll k ps`: what the `k`-th execution of a collector loop, run on the
    processes `ps`, puts into `p_queue` (in arrival order) -/
def recStep (batch_size cores : Int) (coll : Nat → List Proc → List Nat) (σ : St) (line : Nat) : St :=
  let σ : St := { σ with seq_batch := σ.seq_batch ++ [(line, σ.priority_counter)] }
  let σ : St := { σ with priority_counter := σ.priority_counter + 1 }
  if ((σ.seq_batch.length : Int) != batch_size) then
    σ
  else
    let σ : St := { σ with processes := σ.processes ++ [(⟨σ.seq_batch, false⟩ : Proc)] }
    let σ : St := { σ with seq_batch := [] }
    let σ : St :=
      if ((σ.processes.length : Int) == cores) then
        let σ : St := { σ with p_queue := [] }
        let σ : St := { σ with processes := σ.processes.map (fun p => { p with started := true }) }
        let σ : St := { σ with p_queue := σ.p_queue ++ coll σ.runs.length σ.processes, runs := σ.runs ++ [σ.processes] }
        let queue_len : Int := (σ.p_queue.length : Int)
        let σ : St := (List.range (queue_len).toNat).foldl (fun (σ : St) _ =>
            match pqGet σ.p_queue with
            | none => σ
            | some r =>
              let σ : St := { σ with p_queue := r.2 }
              let σ : St := { σ with out := σ.out ++ [r.1] }
              σ) σ
        let σ : St := { σ with processes := [] }
        let σ : St := { σ with p_queue := [] }
        σ
      else
        σ
    σ

/-- the statements after the loop: the leftover batch, the leftover round -/
def leftover (batch_size cores : Int) (coll : Nat → List Proc → List Nat) (σ : St) : St :=
  let σ : St :=
    if decide ((σ.seq_batch.length : Int) > (0 : Int)) then
      let σ : St := { σ with processes := σ.processes ++ [(⟨σ.seq_batch, false⟩ : Proc)] }
      σ
    else
      σ
  let σ : St :=
    if ((σ.processes.length : Int) != (0 : Int)) then
      let σ : St := { σ with p_queue := [] }
      let σ : St := { σ with processes := σ.processes.map (fun p => { p with started := true }) }
      let σ : St := { σ with p_queue := σ.p_queue ++ coll σ.runs.length σ.processes, runs := σ.runs ++ [σ.processes] }
      let queue_len : Int := (σ.p_queue.length : Int)
      let σ : St := (List.range (queue_len).toNat).foldl (fun (σ : St) _ =>
          match pqGet σ.p_queue with
          | none => σ
          | some r =>
            let σ : St := { σ with p_queue := r.2 }
            let σ : St := { σ with out := σ.out ++ [r.1] }
            σ) σ
      σ
    else
      σ
  σ

/-- `realign_gaf` on the records `lines` -/
def realignGaf (batch_size cores : Int) (coll : Nat → List Proc → List Nat) (lines : List Nat) : St :=
  leftover batch_size cores coll (lines.foldl (recStep batch_size cores coll) initSt)

/-- the component of a batch element that `wfa_alignment` gives to `PriorityAlignment` as `priority` -/
def workerPrio (t : Item) : Nat := t.2

/-- what `wfa_alignment` puts on the queue for one element of its batch (`conds i`: the outcome of the `i`-th test on the way) -/
def workerPuts (conds : Nat → Bool) (t : Item) : List Msg :=
  (if conds 0 then [Msg.item (workerPrio t)] else [Msg.item (workerPrio t)])

/-- … and after the last element -/
def workerTail : List Msg := [Msg.sentinel]

/-- everything a worker puts, in order -/
def workerTodo (conds : Item → Nat → Bool) (batch : List Item) : List Msg :=
  batch.flatMap (fun t => workerPuts (conds t) t) ++ workerTail
end Gaftools.Gen.RealignBatch
'''

FALLBACK["PhaseTsv"] = PHASE_TSV_HEADER % (
    "FALLBACK (source construct outside the translator's subset): a frozen copy of the translation of class Node, the TSV loop of\n"
    "    add_phase_info, reverse_cigar and is_file_gzipped as the source stood when `Props/TieA22.lean` was written") + _PHASE_TSV_DOCS % (
    """def nodeInit (chr_name haplotype phase_set : Str) : Node :=
  { chr_name := chr_name, phase_set := phase_set, haplotype := haplotype }""",
    """def tsvBody (st : Dict) (line : Str) : Option (Dict) :=
  let phase : Dict := st
  let line_elements : List Str := ((Gaftools.Gaf.rstrip line).splitOn '\\t')
  match line_elements[0]? with
  | none => none
  | some v1 =>
  if (!(dHas phase v1)) then
    match line_elements[3]? with
    | none => none
    | some v2 =>
    match line_elements[1]? with
    | none => none
    | some v3 =>
    match line_elements[2]? with
    | none => none
    | some v4 =>
    let tmp : Node := (nodeInit v2 v3 v4)
    match line_elements[0]? with
    | none => none
    | some v5 =>
    let phase : Dict := (dSet phase v5 tmp)
    some phase
  else
    some phase""",
    """def tsvLoop (tsv_file : List Str) : Option Dict :=
  let phase : Dict := []
  match tsv_file.foldlM (tsvBody) phase with
  | none => none
  | some phase =>
  some phase""",
    """def revCigarBody (all_cigars : List Str) (st : Str) (i : Int) : Option (Str) :=
  let new_cigar : Str := st
  match pyIdx all_cigars (i - (2 : Int)) with
  | none => none
  | some v1 =>
  match pyIdx all_cigars (i - (1 : Int)) with
  | none => none
  | some v2 =>
  let new_cigar : Str := (new_cigar ++ (v1 ++ v2))
  some new_cigar""",
    """def reverseCigar (cg : Str) : Option Str :=
  let all_cigars : List Str := (groupDigits cg)
  let new_cigar : Str := []
  match (pyRange (all_cigars.length : Int) (0 : Int) (-2 : Int)).foldlM (revCigarBody all_cigars) new_cigar with
  | none => none
  | some new_cigar =>
  some new_cigar""",
    "def isFileGzipped (bytes : List UInt8) : Bool := (bytes.take 2 == [0x1f, 0x8b])")

FALLBACK["CliArgs"] = CLIARGS_PRELUDE % (
    "FALLBACK (source construct outside the translator's subset): a frozen copy of the translation of __main__.main,\n"
    "    HelpfulArgumentParser.error and the add_arguments / validate / main of the modules of gaftools/cli as the source stood when\n"
    "    `Props/TieA26.lean` was written") + "\n" + r'''/-- `gaftools/cli/find_path.py add_arguments` -/
def arguments_find_path : List ArgDecl := [
  { flags := ["gfa_path"] },
  { flags := ["input_path"] },
  { flags := ["-o", "--output"], default := some (.none) },
  { flags := ["-f", "--fasta"], action := some "store_true" }]

/-- `gaftools/cli/find_path.py validate` -/
def validate_find_path (ns : Ns) : VRes :=
  (.ok none)

/-- `gaftools/cli/find_path.py main` and the parameters of the function it calls -/
def module_find_path : Module :=
  { name := "find_path", arguments := arguments_find_path, validate := some validate_find_path,
    entry := "run",
    entryParams := [("gfa_path", false), ("input_path", false), ("output", true), ("fasta", true)] }

/-- `gaftools/cli/index.py add_arguments` -/
def arguments_index : List ArgDecl := [
  { flags := ["gaf_path"] },
  { flags := ["gfa_path"] },
  { flags := ["-o", "--output"], default := some (.none) }]

/-- `gaftools/cli/index.py validate` -/
def validate_index (ns : Ns) : VRes :=
  (.ok none)

/-- `gaftools/cli/index.py main` and the parameters of the function it calls -/
def module_index : Module :=
  { name := "index", arguments := arguments_index, validate := some validate_index,
    entry := "run",
    entryParams := [("gaf_path", false), ("gfa_path", false), ("output", true)] }

/-- `gaftools/cli/order_gfa.py add_arguments` -/
def arguments_order_gfa : List ArgDecl := [
  { flags := ["--chromosome_order"], default := some (.str "") },
  { flags := ["--with-sequence"], default := some (.bool false), action := some "store_true" },
  { flags := ["gfa_filename"] },
  { flags := ["--outdir"], default := some (.str "./out") },
  { flags := ["--by-chrom"], default := some (.bool false), action := some "store_true" }]

/-- `gaftools/cli/order_gfa.py main` and the parameters of the function it calls -/
def module_order_gfa : Module :=
  { name := "order_gfa", arguments := arguments_order_gfa, validate := none,
    entry := "run_order_gfa",
    entryParams := [("gfa_filename", false), ("outdir", false), ("by_chrom", false), ("chromosome_order", true), ("with_sequence", true)] }

/-- `gaftools/cli/phase.py add_arguments` -/
def arguments_phase : List ArgDecl := [
  { flags := ["gaf_file"] },
  { flags := ["tsv_file"] },
  { flags := ["-o", "--output"], default := some (.stdoutObject) }]

/-- `gaftools/cli/phase.py validate` -/
def validate_phase (ns : Ns) : VRes :=
  (.ok none)

/-- `gaftools/cli/phase.py main` and the parameters of the function it calls -/
def module_phase : Module :=
  { name := "phase", arguments := arguments_phase, validate := some validate_phase,
    entry := "run",
    entryParams := [("gaf_file", false), ("tsv_file", false), ("output", true)] }

/-- `gaftools/cli/realign.py add_arguments` -/
def arguments_realign : List ArgDecl := [
  { flags := ["gaf"] },
  { flags := ["graph"] },
  { flags := ["fasta"] },
  { flags := ["-o", "--output"], default := some (.none) },
  { flags := ["-c", "--cores"], default := some (.int (1)), type := some "int" }]

/-- `gaftools/cli/realign.py main` and the parameters of the function it calls -/
def module_realign : Module :=
  { name := "realign", arguments := arguments_realign, validate := none,
    entry := "run_realign",
    entryParams := [("gaf", false), ("graph", false), ("fasta", false), ("output", true), ("cores", true)] }

/-- `gaftools/cli/sort.py add_arguments` -/
def arguments_sort : List ArgDecl := [
  { flags := ["gaf"] },
  { flags := ["gfa"] },
  { flags := ["--outgaf"], default := some (.none) },
  { flags := ["--outind"], default := some (.none) },
  { flags := ["--bgzip"], action := some "store_true" }]

/-- `gaftools/cli/sort.py validate` -/
def validate_sort (ns : Ns) : VRes :=
  (ifM (andM (truthyM (attr ns "bgzip")) (notM (truthyM (attr ns "outgaf"))))
    (.ok (some "--bgzip flag has been specified but not output path has been defined. Please define the output path."))
    (ifM (andM (truthyM (attr ns "outind")) (notM (truthyM (attr ns "outgaf"))))
      (.ok (some "index path specified but no output gaf path. Please provide an output path."))
      (.ok none)))

/-- `gaftools/cli/sort.py main` and the parameters of the function it calls -/
def module_sort : Module :=
  { name := "sort", arguments := arguments_sort, validate := some validate_sort,
    entry := "run_sort",
    entryParams := [("gfa", false), ("gaf", false), ("outgaf", true), ("outind", true), ("bgzip", true)] }

/-- `gaftools/cli/stat.py add_arguments` -/
def arguments_stat : List ArgDecl := [
  { flags := ["gaf_path"] },
  { flags := ["-o", "--output"], default := some (.none) },
  { flags := ["--cigar"], dest := some "cigar_stat", default := some (.bool false), action := some "store_true" }]

/-- `gaftools/cli/stat.py validate` -/
def validate_stat (ns : Ns) : VRes :=
  (.ok none)

/-- `gaftools/cli/stat.py main` and the parameters of the function it calls -/
def module_stat : Module :=
  { name := "stat", arguments := arguments_stat, validate := some validate_stat,
    entry := "run_stat",
    entryParams := [("gaf_path", false), ("cigar_stat", true), ("output", true)] }

/-- `gaftools/cli/view.py add_arguments` -/
def arguments_view : List ArgDecl := [
  { flags := ["gaf_path"] },
  { flags := ["-g", "--gfa"], dest := some "gfa", default := some (.none) },
  { flags := ["-o", "--output"], dest := some "output", default := some (.none) },
  { flags := ["-i", "--index"], default := some (.none) },
  { flags := ["-n", "--node"], dest := some "nodes", default := some (.list []), action := some "append" },
  { flags := ["-r", "--region"], dest := some "regions", default := some (.list []), action := some "append" },
  { flags := ["-f", "--format"], dest := some "format" }]

/-- `gaftools/cli/view.py validate` -/
def validate_view (ns : Ns) : VRes :=
  (ifM (andM (truthyM (attr ns "format")) (notM (inM (attr ns "format") [.str "unstable", .str "stable"])))
    (.ok (some "--format only accepts unstable or stable as input."))
    (ifM (andM (truthyM (attr ns "nodes")) (truthyM (attr ns "regions")))
      (.ok (some "provide either of the --regions and --nodes options and not both."))
      (ifM (andM (truthyM (attr ns "format")) (notM (truthyM (attr ns "gfa"))))
        (.ok (some "GFA file has to be provided along with --format."))
        (.ok none))))

/-- `gaftools/cli/view.py main` and the parameters of the function it calls -/
def module_view : Module :=
  { name := "view", arguments := arguments_view, validate := some validate_view,
    entry := "run",
    entryParams := [("gaf_path", false), ("gfa", true), ("output", true), ("index", true), ("nodes", true), ("regions", true), ("format", true)] }

/-- the modules of `gaftools/cli`, in the order of `pkgutil.iter_modules` (sorted file names) -/
def modules : List Module := [module_find_path, module_index, module_order_gfa, module_phase, module_realign, module_sort, module_stat, module_view]

/-- `import gaftools.cli as …`: the package the modules are imported from -/
def cliPackage : String := "gaftools.cli"

/-- the `add_argument` calls of `__main__.main` on the top-level parser -/
def topArguments : List ArgDecl := [
  { flags := ["--version"], action := some "version" },
  { flags := ["--debug"], action := some "store_true", default := some (.bool false) }]

/-- `add_help` of the top-level parser and of the sub-parsers (argparse adds `-h`, `--help` first) -/
def topAddHelp : Bool := true
def subAddHelp : Bool := true

/-- `subparser.set_defaults(…)` in the module loop -/
def setDefaults (module_name : String) : Ns := [("module", .moduleObj module_name), ("subparser", .parserObj module_name)]

/-- `HelpfulArgumentParser.error`: the exit status -/
def parserErrorStatus : Nat := 2

/-- `__main__.main` after `args = parser.parse_args(argv)` -/
def mainTail : List Step := [
  .readAttr "debug",
  .requireAttr "module" "Please provide the name of a subcommand to run",
  .bind "module" "module",
  .ifHas (.attr "module") "validate" [
      .bind "subparser" "subparser",
      .callMethod (.attr "module") "validate" (.loc "subparser")],
  .del "subparser",
  .del "module",
  .del "debug",
  .callMain (.loc "module") "CommandLineError" 1]

/-- `__main__.main` from the namespace `parse_args` returned -/
def runMain (args : Ns) : Outcome :=
  match runSteps cliPackage modules mainTail { args := args, locals := [] } with
  | .ok _ => .returned
  | .error o => o

end Gaftools.Gen.CliArgs
'''

FALLBACK["SortPass"] = r'''import Gaftools.Model.Sort
import Gaftools.Model.ConvText
import Gaftools.Gen.CmpGaf
/-! FALLBACK (source construct outside the translator's subset): a frozen copy of the translation of process_alignment and of the
    first pass of sort up to list.sort (gaftools/cli/sort.py) as it stood when the tie was made — the check relies on tie B alone -/
set_option linter.unusedVariables false
namespace Gaftools.Gen.SortPass
open Gaftools.Gaf Gaftools.Sort Gaftools.ConvText

/-! ## the Python primitives the translation refers to -/

/-- how an evaluation ends when it does not produce a value -/
inductive PyExc where
  | keyError | indexError | valueError | assertionError
  | outOfFuel      -- not a Python exception: the fuel handed to a `while True:` loop ran out
deriving DecidableEq, Repr

/-- `d[k]` (absent: KeyError), `l[i]` (out of range: IndexError), `int(s)` (not a number: ValueError) -/
def orKey {α : Type} : Option α → Except PyExc α
  | some a => .ok a
  | none => .error .keyError
def orIndex {α : Type} : Option α → Except PyExc α
  | some a => .ok a
  | none => .error .indexError
def orValue {α : Type} : Option α → Except PyExc α
  | some a => .ok a
  | none => .error .valueError

/-- `l[i]` for an integer that may be negative (counted from the end) -/
def pyIdx {α : Type} (l : List α) (i : Int) : Option α :=
  if i < 0 then (if i.natAbs ≤ l.length then l[l.length - i.natAbs]? else none) else l[i.toNat]?

/-- `re.split(p, s)` for a pattern that is an alternation of single characters, every one of them in a capturing group: `sep c` =
    the character is one of them; the separator itself becomes an element of the result (the `None`s of the groups that did not
    take part are not represented: the translator insists on `filter(None, …)` around a pattern with groups). -/
def reSplitAux (sep keep : Char → Bool) : Str → Str → List Str
  | [], cur => [cur.reverse]
  | c :: cs, cur =>
    if sep c then cur.reverse :: ((if keep c then [[c]] else []) ++ reSplitAux sep keep cs [])
    else reSplitAux sep keep cs (c :: cur)
def reSplit (sep keep : Char → Bool) (s : Str) : List Str := reSplitAux sep keep s []

/-- `filter(None, l)` on strings: the empty ones go -/
def filterNone (l : List Str) : List Str := l.filter (fun t => !t.isEmpty)

/-- the GAF being read: `tell()` = `pos` (a record is identified by its ordinal); `readline()` gives the head of `rest` — the empty
    string when nothing is left — and advances `pos` -/
structure GafFile where
  pos : Nat
  rest : List Str

/-- `while True:` with a body that says whether to go on (`false` = `break`) -/
def whileTrue {σ : Type} (body : σ → Except PyExc (Bool × σ)) : Nat → σ → Except PyExc σ
  | 0, _ => .error .outOfFuel
  | fuel + 1, s =>
    match body s with
    | .error e => .error e
    | .ok (false, s') => .ok s'
    | .ok (true, s') => whileTrue body fuel s'

/-- `l.sort(key=functools.cmp_to_key(cmp))`: a stable sort that only ever asks whether `K(y) < K(x)`, which `cmp_to_key` answers by
    `cmp(y, x) < 0`: `x` stays in front of `y` unless that holds.  (A comparator that returns `None` makes `<` raise `TypeError`;
    that outcome is not represented: `none` counts as "not less".) -/
def pySortCmp {α : Type} (cmp : α → α → Option Int) (l : List α) : List α :=
  l.mergeSort (fun x y => match cmp y x with
    | some c => !(decide (c < 0))
    | none => true)

/-! ## process_alignment -/

/-- body of `for n in path`; the state is `orient`, `orient_list`, `sn` -/
def processAlignment_for1 (nodes : String → Option NodeTags) (s : (Option Str × List (Option Str) × Option String)) (n : Str) : Except PyExc (Option Str × List (Option Str) × Option String) :=
  let orient : Option Str := s.1
  let orient_list : List (Option Str) := s.2.1
  let sn : Option String := s.2.2
  if ([['>'], ['<']].contains n) then
    let orient : Str := n
    .ok ((some orient), orient_list, sn)
  else
    (orKey (nodes (String.ofList n))).bind fun v1 =>
    let sn_tag : String := v1.sn
    (orKey (nodes (String.ofList n))).bind fun v2 =>
    let bo_tag : Int := v2.bo
    (orKey (nodes (String.ofList n))).bind fun v3 =>
    let no_tag : Int := v3.no
    (orKey (nodes (String.ofList n))).bind fun v4 =>
    let sr_tag : Int := v4.sr
    if ((sn.isNone = true) ∧ (sr_tag = (0 : Int))) then
      let sn : String := sn_tag
      if ((bo_tag = (-1 : Int)) ∨ (no_tag = (-1 : Int))) then
        .ok (orient, orient_list, (some sn))
      else
        if (no_tag ≠ (0 : Int)) then
          .ok (orient, orient_list, (some sn))
        else
          let orient_list : List (Option Str) := orient_list ++ [orient]
          .ok (orient, orient_list, (some sn))
    else
      if (sr_tag = (0 : Int)) then
        if (sn == (some sn_tag)) then
          if ((bo_tag = (-1 : Int)) ∨ (no_tag = (-1 : Int))) then
            .ok (orient, orient_list, sn)
          else
            if (no_tag ≠ (0 : Int)) then
              .ok (orient, orient_list, sn)
            else
              let orient_list : List (Option Str) := orient_list ++ [orient]
              .ok (orient, orient_list, sn)
        else
          .error .assertionError
      else
        if ((bo_tag = (-1 : Int)) ∨ (no_tag = (-1 : Int))) then
          .ok (orient, orient_list, sn)
        else
          if (no_tag ≠ (0 : Int)) then
            .ok (orient, orient_list, sn)
          else
            let orient_list : List (Option Str) := orient_list ++ [orient]
            .ok (orient, orient_list, sn)

/-- `process_alignment(line, nodes, offset)`: `(bo, no, start, inv, sn)` or the exception -/
def processAlignment (line : List Str) (nodes : String → Option NodeTags) (offset : Nat) : Except PyExc (Int × Int × Int × Int × String) :=
  (orIndex (line[5]?)).bind fun v1 =>
  let path : List Str := (filterNone (reSplit (fun c => c == '>' || c == '<') (fun c => c == '>' || c == '<') v1))
  let orient : Option Str := none
  let bo : Option Int := none
  let no : Option Int := none
  let start : Option Int := none
  let orient_list : List (Option Str) := []
  let inv : Int := (0 : Int)
  let sn : Option String := none
  (path.foldlM (processAlignment_for1 nodes) (orient, orient_list, sn)).bind fun s =>
  let orient : Option Str := s.1
  let orient_list : List (Option Str) := s.2.1
  let sn : Option String := s.2.2
  if ((((orient_list.count (some ['>']) : Nat) : Int) ≠ (0 : Int)) ∧ (((orient_list.count (some ['<']) : Nat) : Int) ≠ (0 : Int))) then
    let inv : Int := (1 : Int)
    if (((orient_list.count (some ['>']) : Nat) : Int) < ((orient_list.count (some ['<']) : Nat) : Int)) then
      (orIndex (line[6]?)).bind fun v2 =>
      (orValue (toInt v2)).bind fun v3 =>
      let l : Int := v3
      (orIndex (line[8]?)).bind fun v4 =>
      (orValue (toInt v4)).bind fun v5 =>
      let e : Int := v5
      let start : Int := (l - e)
      (orIndex (pyIdx path (-1 : Int))).bind fun v6 =>
      let n : Str := v6
      (orKey (nodes (String.ofList n))).bind fun v7 =>
      let bo : Int := v7.bo
      (orKey (nodes (String.ofList n))).bind fun v8 =>
      let no : Int := v8.no
      match sn with
      | none =>
        let sn : String := "unknown"
        .ok (bo, no, start, inv, sn)
      | some sn =>
        .ok (bo, no, start, inv, sn)
    else
      (orIndex (line[7]?)).bind fun v9 =>
      (orValue (toInt v9)).bind fun v10 =>
      let start : Int := v10
      (orIndex (path[1]?)).bind fun v11 =>
      let n : Str := v11
      (orKey (nodes (String.ofList n))).bind fun v12 =>
      let bo : Int := v12.bo
      (orKey (nodes (String.ofList n))).bind fun v13 =>
      let no : Int := v13.no
      match sn with
      | none =>
        let sn : String := "unknown"
        .ok (bo, no, start, inv, sn)
      | some sn =>
        .ok (bo, no, start, inv, sn)
  else
    if (((orient_list.count (some ['>']) : Nat) : Int) < ((orient_list.count (some ['<']) : Nat) : Int)) then
      (orIndex (line[6]?)).bind fun v14 =>
      (orValue (toInt v14)).bind fun v15 =>
      let l : Int := v15
      (orIndex (line[8]?)).bind fun v16 =>
      (orValue (toInt v16)).bind fun v17 =>
      let e : Int := v17
      let start : Int := (l - e)
      (orIndex (pyIdx path (-1 : Int))).bind fun v18 =>
      let n : Str := v18
      (orKey (nodes (String.ofList n))).bind fun v19 =>
      let bo : Int := v19.bo
      (orKey (nodes (String.ofList n))).bind fun v20 =>
      let no : Int := v20.no
      match sn with
      | none =>
        let sn : String := "unknown"
        .ok (bo, no, start, inv, sn)
      | some sn =>
        .ok (bo, no, start, inv, sn)
    else
      (orIndex (line[7]?)).bind fun v21 =>
      (orValue (toInt v21)).bind fun v22 =>
      let start : Int := v22
      (orIndex (path[1]?)).bind fun v23 =>
      let n : Str := v23
      (orKey (nodes (String.ofList n))).bind fun v24 =>
      let bo : Int := v24.bo
      (orKey (nodes (String.ofList n))).bind fun v25 =>
      let no : Int := v25.no
      match sn with
      | none =>
        let sn : String := "unknown"
        .ok (bo, no, start, inv, sn)
      | some sn =>
        .ok (bo, no, start, inv, sn)

/-! ## sort: the first pass and the call of list.sort -/

/-- body of `while True:` (`false` = `break`); the state is `reader`, `gaf_alignments`, `count_inverse` -/
def firstPass_while1 (nodes : String → Option NodeTags) (s : (GafFile × List Aln × Int)) : Except PyExc (Bool × (GafFile × List Aln × Int)) :=
  let reader : GafFile := s.1
  let gaf_alignments : List Aln := s.2.1
  let count_inverse : Int := s.2.2
  let offset : Nat := reader.pos
  let line : Str := reader.rest.head?.getD []
  let reader : GafFile := ⟨reader.pos + 1, reader.rest.tail⟩
  if line.isEmpty then
    .ok (false, (reader, gaf_alignments, count_inverse))
  else
    let line : List Str := (splitOnChar '\t' (rstrip line))
    (processAlignment line nodes offset).bind fun v1 =>
    let bo : Int := v1.1
    let no : Int := v1.2.1
    let start : Int := v1.2.2.1
    let inv : Int := v1.2.2.2.1
    let sn : String := v1.2.2.2.2
    if (inv = (1 : Int)) then
      let count_inverse : Int := (count_inverse + (1 : Int))
      let gaf_alignments : List Aln := gaf_alignments ++ [({ offset := (offset : Int), bo := bo, no := no, start := start, inv := inv, sn := sn } : Aln)]
      .ok (true, (reader, gaf_alignments, count_inverse))
    else
      let gaf_alignments : List Aln := gaf_alignments ++ [({ offset := (offset : Int), bo := bo, no := no, start := start, inv := inv, sn := sn } : Aln)]
      .ok (true, (reader, gaf_alignments, count_inverse))

/-- `sort`, from `Alignment = namedtuple('Alignment', ['offset', 'BO', 'NO', 'start', 'inv', 'sn'])` to `gaf_alignments.sort(key=functools.cmp_to_key(compare_gaf))`: (`gaf_alignments`, `count_inverse`) -/
def firstPass (nodes : String → Option NodeTags) (reader : GafFile) (fuel : Nat) : Except PyExc (List Aln × Int) :=
  let gaf_alignments : List Aln := []
  let count_inverse : Int := (0 : Int)
  (whileTrue (firstPass_while1 nodes) fuel (reader, gaf_alignments, count_inverse)).bind fun s =>
  let reader : GafFile := s.1
  let gaf_alignments : List Aln := s.2.1
  let count_inverse : Int := s.2.2
  let gaf_alignments : List Aln := pySortCmp Gaftools.Gen.cmpGaf gaf_alignments
  .ok (gaf_alignments, count_inverse)
end Gaftools.Gen.SortPass
'''

FALLBACK["GraphHelpers"] = GRAPH_HELPERS_PRELUDE % (
    "FALLBACK (source construct outside the translator's subset): a frozen copy of the translation of Node.neighbors, Node.in_direction,\n"
    "    Node.children, Node.is_equal_to, GFA.remove_lonely_nodes, GFA.graph_from_comp, GFA.list_is_path, GFA.get_path, GFA.get_contig_length,\n"
    "    GFA.return_gfa_path, GFA.is_equal_to (gaftools/gfa.py) as the source stood when `Props/TieA25.lean` was written") + r'''/-- `Node(identifier)`: the slots the model stores -/
def newNode (identifier : String) : Node := { id := identifier, seq := "", startAdj := [], endAdj := [], tags := [] }
/-- … and the two it derives: `seq_len`, `visited` -/
def newNodeSeqLen : Int := (0 : Int)
def newNodeVisited : Bool := false

/-- `GFA()` (no file) -/
def emptyGFA : GFA := { g := { nodes := [], edgeTags := [] }, contigToNodes := [] }

/-- `Node.neighbors()` -/
def nodeNeighbors (self : Node) : Except Exc (List String) :=
  let neighbors : List String := ((self.startAdj.map (fun (x : Adj) => x.1)) ++ (self.endAdj.map (fun (x : Adj) => x.1)))
  .ok (pySorted neighbors)

/-- `Node.in_direction(other, direction)` -/
def nodeInDirection (self : Node) (other : String) (direction : Int) : Except Exc Bool :=
  if (direction == (0 : Int)) then
    if ((self.startAdj.map (fun (x : Adj) => x.1)).contains other) then
      .ok true
    else
      .ok false
  else
    if (direction == (1 : Int)) then
      if ((self.endAdj.map (fun (x : Adj) => x.1)).contains other) then
        .ok true
      else
        .ok false
    else
      .error .valueError

/-- `Node.children(direction)` -/
def nodeChildren (self : Node) (direction : Int) : Except Exc (List String) :=
  if (direction == (0 : Int)) then
    .ok (self.startAdj.map (fun (x : Adj) => x.1))
  else
    if (direction == (1 : Int)) then
      .ok (self.endAdj.map (fun (x : Adj) => x.1))
    else
      .error .valueError

/-- `Node.is_equal_to(other, only_topo)` -/
def nodeIsEqualTo (self : Node) (other : Node) (only_topo : Bool) : Except Exc Bool :=
  let all_ats : List String := ["id", "seq", "seq_len", "start", "end", "tags"]
  let only_topo_atts : List String := ["id", "start", "end"]
  if only_topo then
    if (!(self.id == other.id)) then
      .ok false
    else
      if (!(setEq self.startAdj other.startAdj)) then
        .ok false
      else
        if (!(setEq self.endAdj other.endAdj)) then
          .ok false
        else
          .ok true
  else
    if (!(self.id == other.id)) then
      .ok false
    else
      if (!(self.seq == other.seq)) then
        .ok false
      else
        if (!((self.seq.length : Int) == (other.seq.length : Int))) then
          .ok false
        else
          if (!(setEq self.startAdj other.startAdj)) then
            .ok false
          else
            if (!(setEq self.endAdj other.endAdj)) then
              .ok false
            else
              if (!(dictEq self.tags other.tags)) then
                .ok false
              else
                .ok true

/-- the body of `for i in nodes_to_remove:` of `GFA.remove_lonely_nodes`; the state is what the body assigns -/
def gfaRemoveLonelyNodesLoop1 (st : GFA) (i : String) : Except Exc (Step GFA GFA) :=
  let self : GFA := st
  match callRemoveNode self i with
  | .error err => .error err
  | .ok self =>
  .ok (.next self)

/-- `GFA.remove_lonely_nodes()` -/
def gfaRemoveLonelyNodes (self : GFA) : Except Exc GFA :=
  match compE (fun (n : Node) =>
      match nodeNeighbors n with
      | .error err => .error err
      | .ok v1 =>
      if ((v1.length : Int) == (0 : Int)) then
        .ok (some n.id)
      else
        .ok none) self.g.nodes with
  | .error err => .error err
  | .ok v2 =>
  let nodes_to_remove : List String := v2
  match forR nodes_to_remove self (gfaRemoveLonelyNodesLoop1) with
  | .error err => .error err
  | .ok (.ret r) =>
    .ok r
  | .ok (.next st) =>
    let self : GFA := st
    .ok self

/-- the body of `for n in component_nodes:` of `GFA.graph_from_comp`; the state is what the body assigns -/
def gfaGraphFromCompLoop1 (self : GFA) (st : GFA) (n : String) : Except Exc (Step GFA GFA) :=
  let new_graph : GFA := st
  let new_node : Node := newNode n
  match (self.g.find n) with
  | none => .error .attributeError
  | some v1 =>
  let new_node : Node := { new_node with seq := v1.seq }
  match (self.g.find n) with
  | none => .error .attributeError
  | some v2 =>
  let new_node_seq_len : Int := (v2.seq.length : Int)
  match (self.g.find n) with
  | none => .error .attributeError
  | some v3 =>
  let new_node : Node := { new_node with startAdj := v3.startAdj }
  match (self.g.find n) with
  | none => .error .attributeError
  | some v4 =>
  let new_node : Node := { new_node with endAdj := v4.endAdj }
  match (self.g.find n) with
  | none => .error .attributeError
  | some v5 =>
  let new_node : Node := { new_node with tags := v5.tags }
  let new_graph : GFA := { new_graph with g := nodesSet new_graph.g n new_node }
  .ok (.next new_graph)

/-- `GFA.graph_from_comp(component_nodes)` -/
def gfaGraphFromComp (self : GFA) (component_nodes : List String) : Except Exc GFA :=
  let new_graph : GFA := emptyGFA
  match forR component_nodes new_graph (gfaGraphFromCompLoop1 self) with
  | .error err => .error err
  | .ok (.ret r) =>
    .ok r
  | .ok (.next st) =>
    let new_graph : GFA := st
    .ok new_graph

/-- the body of `for i in range(1, len(node_list)):` of `GFA.list_is_path`; the state is what the body assigns -/
def gfaListIsPathLoop1 (self : GFA) (node_list : List String) (st : Unit) (i : Int) : Except Exc (Step Unit Bool) :=
  match pyIdx node_list i with
  | none => .error .indexError
  | some v1 =>
  let current_node : String := v1
  match pyIdx node_list (i - (1 : Int)) with
  | none => .error .indexError
  | some v2 =>
  let previous_node : String := v2
  match self.g.find previous_node with
  | none => .error .keyError
  | some v3 =>
  match nodeNeighbors v3 with
  | .error err => .error err
  | .ok v4 =>
  if (v4.contains current_node) then
    .ok (.next ())
  else
    .ok (.ret false)

/-- `GFA.list_is_path(node_list)` -/
def gfaListIsPath (self : GFA) (node_list : List String) : Except Exc Bool :=
  match forR (pyRange (1 : Int) (node_list.length : Int)) () (gfaListIsPathLoop1 self node_list) with
  | .error err => .error err
  | .ok (.ret r) =>
    .ok r
  | .ok (.next st) =>
    .ok true

/-- `GFA.get_path(chrom, throw_warning)` -/
def gfaGetPath (self : GFA) (chrom : String) (throw_warning : Bool) : Except Exc (List String) :=
  let nodes_of_chrom : List String := (c2nGet self.contigToNodes chrom)
  if (nodes_of_chrom == []) then
    .ok []
  else
    match pySortedBy (fun (x : String) =>
      match self.g.find x with
      | none => .error .keyError
      | some v1 =>
      match tagsGet v1.tags "SO" with
      | none => .error .keyError
      | some v2 =>
      match pyInt v2.val with
      | none => .error .valueError
      | some v3 =>
      .ok v3) nodes_of_chrom with
    | .error err => .error err
    | .ok v4 =>
    let sorted_nodes : List String := v4
    match gfaListIsPath self sorted_nodes with
    | .error err => .error err
    | .ok v5 =>
    if v5 then
      .ok sorted_nodes
    else
      if throw_warning then
        .ok []
      else
        .ok sorted_nodes

/-- `GFA.get_contig_length(chrom, throw_warning)` -/
def gfaGetContigLength (self : GFA) (chrom : String) (throw_warning : Bool) : Except Exc Int :=
  match gfaGetPath self chrom throw_warning with
  | .error err => .error err
  | .ok v1 =>
  let sorted_nodes : List String := v1
  if sorted_nodes.isEmpty then
    .error .exit
  else
    match compE (fun (x : String) =>
      match self.g.find x with
      | none => .error .keyError
      | some v2 =>
      match tagsGet v2.tags "LN" with
      | none => .error .keyError
      | some v3 =>
      match pyInt v3.val with
      | none => .error .valueError
      | some v4 =>
      .ok (some v4)) sorted_nodes with
    | .error err => .error err
    | .ok v5 =>
    .ok (pySum v5)

/-- the body of `for i in range(len(list_of_nodes) - 1):` of `GFA.return_gfa_path`; the state is what the body assigns -/
def gfaReturnGfaPathLoop1 (self : GFA) (list_of_nodes : List String) (st : List String) (i : Int) : Except Exc (Step (List String) String) :=
  let path : List String := st
  match pyIdx list_of_nodes i with
  | none => .error .indexError
  | some v1 =>
  match self.g.find v1 with
  | none => .error .keyError
  | some v2 =>
  match pyIdx list_of_nodes (i + (1 : Int)) with
  | none => .error .indexError
  | some v3 =>
  match nodeInDirection v2 v3 (1 : Int) with
  | .error err => .error err
  | .ok v4 =>
  if v4 then
    match pyIdx list_of_nodes i with
    | none => .error .indexError
    | some v5 =>
    let path : List String := (path ++ [(v5 ++ "+")])
    .ok (.next path)
  else
    match pyIdx list_of_nodes i with
    | none => .error .indexError
    | some v6 =>
    match self.g.find v6 with
    | none => .error .keyError
    | some v7 =>
    match pyIdx list_of_nodes (i + (1 : Int)) with
    | none => .error .indexError
    | some v8 =>
    match nodeInDirection v7 v8 (0 : Int) with
    | .error err => .error err
    | .ok v9 =>
    if v9 then
      match pyIdx list_of_nodes i with
      | none => .error .indexError
      | some v10 =>
      let path : List String := (path ++ [(v10 ++ "-")])
      .ok (.next path)
    else
      .error .valueError

/-- `GFA.return_gfa_path(list_of_nodes)` -/
def gfaReturnGfaPath (self : GFA) (list_of_nodes : List String) : Except Exc String :=
  let path : List String := []
  match forR (pyRange (0 : Int) ((list_of_nodes.length : Int) - (1 : Int))) path (gfaReturnGfaPathLoop1 self list_of_nodes) with
  | .error err => .error err
  | .ok (.ret r) =>
    .ok r
  | .ok (.next st) =>
    let path : List String := st
    match pyIdx list_of_nodes (-1 : Int) with
    | none => .error .indexError
    | some v11 =>
    match self.g.find v11 with
    | none => .error .keyError
    | some v12 =>
    match pyIdx list_of_nodes (-2 : Int) with
    | none => .error .indexError
    | some v13 =>
    match nodeInDirection v12 v13 (0 : Int) with
    | .error err => .error err
    | .ok v14 =>
    if v14 then
      match pyIdx list_of_nodes (-1 : Int) with
      | none => .error .indexError
      | some v15 =>
      let path : List String := (path ++ [(v15 ++ "+")])
      .ok (",".intercalate path)
    else
      match pyIdx list_of_nodes (-1 : Int) with
      | none => .error .indexError
      | some v16 =>
      match self.g.find v16 with
      | none => .error .keyError
      | some v17 =>
      match pyIdx list_of_nodes (-2 : Int) with
      | none => .error .indexError
      | some v18 =>
      match nodeInDirection v17 v18 (1 : Int) with
      | .error err => .error err
      | .ok v19 =>
      if v19 then
        match pyIdx list_of_nodes (-1 : Int) with
        | none => .error .indexError
        | some v20 =>
        let path : List String := (path ++ [(v20 ++ "-")])
        .ok (",".intercalate path)
      else
        .error .valueError

/-- the body of `for (n_id, node1) in self.nodes.items():` of `GFA.is_equal_to`; the state is what the body assigns -/
def gfaIsEqualToLoop1 (other : GFA) (only_topo : Bool) (st : Unit) (it : Node) : Except Exc (Step Unit Bool) :=
  let n_id : String := it.id
  let node1 : Node := it
  let node2 : Option Node := (other.g.find n_id)
  match node2 with
  | none =>
    .ok (.ret false)
  | some node2 =>
  match nodeIsEqualTo node1 node2 only_topo with
  | .error err => .error err
  | .ok v1 =>
  if (!v1) then
    .ok (.ret false)
  else
    .ok (.next ())

/-- `GFA.is_equal_to(other, only_topo)` -/
def gfaIsEqualTo (self : GFA) (other : GFA) (only_topo : Bool) : Except Exc Bool :=
  if (!((self.g.nodes.length : Int) == (other.g.nodes.length : Int))) then
    .ok false
  else
    match forR self.g.nodes () (gfaIsEqualToLoop1 other only_topo) with
    | .error err => .error err
    | .ok (.ret r) =>
      .ok r
    | .ok (.next st) =>
      .ok true
end Gaftools.Gen.GraphHelpers
'''

if __name__ == "__main__":
    import json
    print(json.dumps(regenerate(sys.argv[1:] or None), indent=1))
