"""C08 / C09 / C10 — gaftools sort: comparator + whole-file runs through the real `run_sort`, against the Lean model/spec."""
import collections
import os
import pickle
import re
import shutil
import sys
import tempfile

from core import tool, Check, HarnessError, run_check, watchdog
import gen


def bo_graph(rng):
    """1-3 chromosomes, each a chain of scaffold nodes with bubbles between them; BO/NO as order_gfa would assign,
    a few nodes untagged (-1/-1), inner nodes partly on the reference, inversion links inside bubbles"""
    g = gen.Graph()
    nid = 0
    # BO numbering does not have to start at 0: the per-chromosome file that order_gfa writes for a later chromosome continues the
    # running count, so BO values can exceed the number of segments in the file
    bo = rng.choice([0, 0, 0, 7, 40, 1000])
    region_names = rng.random() < 0.15     # region-style stable sequence names such as chr1:0-5000 (the SN value holds ':')
    for c in range(rng.randint(1, 3)):
        name = ("chr1:%d-%d" % (c * 5000, (c + 1) * 5000)) if region_names else "chr%d" % (c + 1)
        so = 0
        prev = None
        for k in range(rng.randint(2, 5)):
            nid += 1
            s = "s%d" % nid
            L = rng.randint(1, 9)
            cur = dict(id=s, seq=gen.rseq(rng, L), SN=name, SO=so, SR=0, BO=None, NO=0)
            so += L
            if prev is not None:
                inner = []
                for j in range(rng.randint(0, 3)):
                    nid += 1
                    h = "s%d" % nid
                    Lh = rng.randint(1, 9)
                    ref = (j == 0 and rng.random() < 0.5)
                    inner.append(dict(id=h, seq=gen.rseq(rng, Lh), SN=name if ref else "hap%d" % nid,
                                      SO=(so + 1000 * j if ref else rng.randint(0, 99)), SR=0 if ref else rng.randint(1, 5), BO=bo, NO=j + 1))
                if inner:
                    bo += 1
                    for hnode in inner:
                        g.segs.append(hnode)
                        g.links.append((prev["id"], "+", hnode["id"], "+", 0, ()))
                        g.links.append((hnode["id"], "+", s, "+", 0, ()))
                        if rng.random() < 0.4:
                            g.links.append((prev["id"], "+", hnode["id"], "-", 0, ()))
                            g.links.append((hnode["id"], "-", s, "+", 0, ()))
                g.links.append((prev["id"], "+", s, "+", 0, ()))
            cur["BO"] = bo
            bo += 1
            g.segs.append(cur)
            prev = cur
    odd = rng.random() < 0.3      # a graph whose BO/NO tags use other valid spellings of the same integers (+0, 00, -0, 007)
    for s in g.segs:
        if rng.random() < 0.08:
            s["BO"], s["NO"] = -1, -1
        if odd and rng.random() < 0.6:
            s["BO_txt"], s["NO_txt"] = gen.noncanonical_int(rng, s["BO"]), gen.noncanonical_int(rng, s["NO"])
        if rng.random() < 0.25:
            # further user tags after the rGFA ones, including lower-case look-alikes of the tags sort reads
            s["extra"] = rng.sample(["bo:i:99", "no:i:7", "sn:Z:other", "sr:i:3", "XT:Z:a:b c", "x1:i:-5"], rng.randint(1, 3))
    return g


def steps_of(path):
    return [[o == ">", n] for o, n in re.findall(r"([<>])([^<>]+)", path)]


def node_table(g):
    return [dict(id=s["id"], sn=s["SN"], bo=s["BO"], no=s["NO"], sr=s["SR"]) for s in g.segs]


class SortRun:
    """one run of the real run_sort on generated files; returns canonicalised observation"""

    def __init__(self, tmp):
        self.tmp = tmp

    def run(self, gfa_text, lines, bg_in, bg_out, outind=None):
        from gaftools.cli import sort as gsort
        d = self.tmp
        gfa = os.path.join(d, "g.gfa")
        gen.write_text(gfa, gfa_text)
        text = "".join(l + "\n" for l in lines)
        if bg_in:
            inp = os.path.join(d, "in.gaf.gz")
            gen.write_bgzf(inp, text, block=bg_in if isinstance(bg_in, int) and bg_in > 1 else None)
        else:
            inp = os.path.join(d, "in.gaf")
            gen.write_text(inp, text)
        out = os.path.join(d, "out.gaf" + (".gz" if bg_out else ""))
        ind = outind and os.path.join(d, outind)
        for f in (out, out + ".gsi", ind):
            if f and os.path.exists(f):
                os.remove(f)
        try:
            with watchdog(60):
                tool("sort", gfa=gfa, gaf=inp, outgaf=out, outind=ind, bgzip=bool(bg_out))
        except BaseException as e:  # noqa
            return {"outcome": "crash", "exc": type(e).__name__ + ": " + str(e)[:200]}
        offs, olines = gen.record_offsets(out)
        idx_path = ind or out + ".gsi"
        if not os.path.exists(idx_path):
            return {"outcome": "noindex", "lines": olines}
        with open(idx_path, "rb") as f:
            gsi = pickle.load(f)
        return {"outcome": "ok", "lines": [l.rstrip("\n") for l in olines], "offs": offs, "gsi": gsi,
                "raw_newlines": all(l.endswith("\n") for l in olines)}


def observe(lines, obs):
    """map the implementation's output back to input ordinals; returns (impl list for the driver, problems)"""
    problems = []
    where = collections.defaultdict(list)
    for i, l in enumerate(lines):
        where[l.rstrip()].append(i)
    impl = []
    for ol in obs["lines"]:
        f = ol.split("\t")
        if len(f) < 3:
            problems.append("short output line %r" % ol)
            continue
        body = "\t".join(f[:-3])
        sfx = "\t" + "\t".join(f[-3:])
        cand = where.get(body)
        if not cand:
            problems.append("output line is not an input line + 3 fields: %r" % ol[:200])
            impl.append({"ord": -1, "suffix": sfx})
        else:
            impl.append({"ord": cand.pop(0) if len(cand) > 1 else cand[0], "suffix": sfx})
    return impl, problems


def gsi_ordinals(obs):
    """resolve the index's offsets to positions in the output file"""
    pos = {o: i for i, o in enumerate(obs["offs"])}
    out = []
    bad = []
    for c, v in obs["gsi"].items():
        a, b = v
        if a not in pos or b not in pos:
            bad.append("index offset of %s does not start a record: %r" % (c, v))
            continue
        out.append([c, pos[a], pos[b]])
    return out, bad


def main(prop):
    ck = Check(prop)
    rng = ck.rng
    ck.trusted = ["Lean 4.33.0 kernel", "axioms: propext, Classical.choice, Quot.sound (audited)",
                  "harness/translate.py (compare_gaf -> Gen.cmpGaf)", "correspondence harness + JSON driver",
                  "CPython list.sort returns a sorted permutation for a consistent total order (sort_unique makes the algorithm irrelevant)",
                  "pickle round-trip of the .gsi; pysam BGZF tell/seek/readline"]
    ck.assumptions = ["paths are unstable walks over nodes of the graph carrying SN/SR/BO/NO tags; a path touches at most one rank-0 contig",
                      "input lines carry no trailing blanks (the second pass right-strips the raw line)"]
    ck.canon = ["output records mapped to input ordinals by exact text of all but the last three fields",
                ".gsi offsets resolved to output record positions by tell()/readline() over the real output"]
    ck.lean_build(["Gaftools.Props.C09b" if prop == "C09" else "Gaftools.Props.%s" % prop] + (["Gaftools.Props.TieA2", "Gaftools.Props.TieA6", "Gaftools.Props.TieA24"] if prop in ("C08", "C09") else []) + (["Gaftools.Props.TieA8"] if prop in ("C09", "C10") else []))
    ck.audit("%s.lean" % prop)

    quick = ck.tier == "quick"
    tmp = tempfile.mkdtemp(prefix="gtv-sort-")
    try:
        if prop == "C08":
            pairs(ck, 5000 if quick else 200000)
        files(ck, prop, tmp, 120 if quick else 1200)
    finally:
        shutil.rmtree(tmp, ignore_errors=True)
    ck.rule = {
        "C08": "random comparator pairs (BO=-1 on either/both sides, equal BO/NO/start ties) + whole files through run_sort incl. a shuffled re-run; non-trivial = file with >=2 records sharing a BO, or an untagged anchor, or a reversed-majority path; pairs count when at least two key fields tie",
        "C09": "whole files through run_sort (plain/BGZF in, plain/bgzip out); non-trivial = file with a reversed-majority path, an inversion (iv=1) or an 'unknown' record",
        "C10": "whole files through run_sort with index; non-trivial = >=2 contigs in the index or a file without 'unknown' records or BGZF output",
    }[prop]
    return ck.finish()


def pairs(ck, n):
    from collections import namedtuple
    try:
        from gaftools.cli.sort import compare_gaf
    except ImportError:
        # the comparison function is an internal of the tool: when it is gone (e.g. replaced by a key function) the ordering
        # is judged on whole files only
        ck.count("compare_gaf-absent")
        return
    A = namedtuple("Alignment", ["offset", "BO", "NO", "start", "inv", "sn"])
    rng = ck.rng
    cases = []
    impl = []
    for i in range(n):
        def one():
            bo = rng.choice([-1, -1, 0, 1, 2, 3])
            return dict(offset=rng.randint(0, 6) * 50, bo=bo, no=-1 if bo == -1 and rng.random() < 0.8 else rng.randint(0, 3), start=rng.randint(0, 3))
        a, b = one(), one()
        if rng.random() < 0.25:
            b.update(bo=a["bo"], no=a["no"])
        if rng.random() < 0.15:
            b["start"] = a["start"]
        cases.append({"op": "sort.cmp", "a": a, "b": b})
        try:
            r = compare_gaf(A(a["offset"], a["bo"], a["no"], a["start"], 0, "c"), A(b["offset"], b["bo"], b["no"], b["start"], 0, "c"))
            impl.append(r)
        except BaseException as e:  # noqa
            impl.append("crash:" + type(e).__name__)
    rep = ck.driver(cases)
    for c, r, im in zip(cases, rep, impl):
        a, b = c["a"], c["b"]
        ties = sum(a[k] == b[k] for k in ("bo", "no", "start"))
        ck.case(c, ties >= 2 or a["bo"] == -1 or b["bo"] == -1, sample={"pair": [a, b], "impl": im, "model": r["model"]} if ties >= 2 else None)
        ck.count("cmp:" + ("none" if im is None else str(im)))
        distinct = a["offset"] != b["offset"]
        # spec on the implementation: total, +-1, decides keyLe
        if distinct:
            ok = im in (-1, 1) and ((im <= 0) == r["keyLe"])
            if not ok:
                ck.violation("compare_gaf(%r, %r) = %r but the (BO, NO, start, input order; untagged last) order says %s" % (a, b, im, "a<=b" if r["keyLe"] else "a>b"),
                             {"op": "compare_gaf", "a": a, "b": b, "impl": im, "model": r["model"]})
                continue
        if im != r["model"] and distinct:
            ck.disagreement("compare_gaf differs from the model", {"a": a, "b": b, "impl": im, "model": r["model"]})


def straddle_contig_end(ck, runner, gfa_text, lines, bg_in, outind):
    """pad one early record so that, in the sorted --bgzip output, the LAST record of the first contig starts in one BGZF block
    and ends in the next (or ends exactly at a block end): the one place where an offset computed by byte arithmetic from a
    neighbouring record's virtual offset is wrong.  The sorted order is learnt from a run with plain output (padding a comment
    field changes no sort key)."""
    probe = runner.run(gfa_text, lines, bg_in, 0, outind)
    if probe.get("outcome") != "ok" or len(probe["lines"]) != len(lines):
        return lines
    out = probe["lines"]
    sn = [l.split("\t")[-2] for l in out]
    contigs = [x for x in sn if x != "sn:Z:unknown"]
    if not contigs:
        return lines
    first = contigs[0]
    j = max(i for i, x in enumerate(sn) if x == first)
    if j == 0:
        return lines
    starts, pos = [], 0
    for l in out:
        starts.append(pos)
        pos += len(l.encode()) + 1
    B = (starts[j] // 65280 + 1) * 65280
    if ck.rng.random() < 0.5:
        delta = B - starts[j] - 1                     # starts on the last byte of a block: straddles
        kind = "straddles"
    else:
        delta = B - (starts[j] + len(out[j].encode()) + 1)          # ends exactly at the end of a block
        if delta < 0:
            delta += 65280
        kind = "ends-at-block-end"
    name0 = out[0].split("\t")[0]
    res = []
    done = False
    for l in lines:
        f = l.split("\t")
        if not done and f[0] == name0:
            for k, x in enumerate(f):
                if x.startswith("zz:Z:"):
                    f[k] = x + "q" * delta
                    done = True
                    break
            else:
                f.append("zq:Z:" + "q" * max(0, delta - 6))
                done = delta >= 6
            l = "\t".join(f)
        res.append(l)
    if done:
        ck.count("contig-end-%s-bgzf-block" % kind)
    return res if done else lines


def files(ck, prop, tmp, n):
    rng = ck.rng
    runner = SortRun(tmp)
    for it in range(n):
        g = bo_graph(rng)
        adj = g.adjacency()
        nrec = rng.choice([1, 2, 3, 5, 8, 13, 25]) if rng.random() < 0.9 else rng.randint(60, 150)
        lines = []
        utf8 = rng.random()     # one file in five carries multi-byte UTF-8 read names (characters != bytes)
        offref = [sg["id"] for sg in g.segs if sg["SR"] != 0]
        only_offref = bool(offref) and rng.random() < 0.08      # a GAF none of whose alignments touches a reference node
        for k in range(nrec):
            w = gen.walk(rng, g, adj, maxsteps=5) if not only_offref else [(rng.choice(offref), rng.choice("+-"))]
            refs = {g.seg(nm)["SN"] for nm, o in w if g.seg(nm)["SR"] == 0}
            if len(refs) > 1:
                continue  # two reference contigs on one path: outside the quantifier
            lines.append(gen.walk_record(rng, g, w, ("r%d" if utf8 < 0.8 or rng.random() < 0.7 else "M\u00fcller_\u8aad%d") % k, canonical=False))
        if not lines:
            continue
        if rng.random() < 0.35:
            # records that a parse-and-print cycle would NOT reproduce (sort must copy the raw line): a read name with a blank
            # (GraphAligner keeps the FASTA header), a ds:Z: field, a repeated tag
            for j in range(len(lines)):
                r = rng.random()
                f = lines[j].split("\t")
                if r < 0.2:
                    f[0] = f[0] + " len=%d sample 7" % rng.randint(1, 99)
                elif r < 0.4:
                    f.insert(rng.randint(12, len(f)), "ds:Z:+3*at-2")
                elif r < 0.55:
                    f += ["NM:i:1", "xx:Z:a", "NM:i:2"]
                lines[j] = "\t".join(f)
            ck.count("records-not-reproduced-by-parse-and-print")
        bg_in = rng.choice([0, 0, 1, 300])
        bg_out = rng.random() < 0.35
        # C10 ("plain or BGZF, any number of blocks"): now and then an output of several BGZF blocks (> 64 KiB of text),
        # where virtual offsets are not byte counts
        big = it in (1, n // 2) or (prop == "C10" and rng.random() < 0.03)
        if big:
            more = []
            for k in range(len(lines), 450 if prop == "C10" else 1100):
                w = gen.walk(rng, g, adj, maxsteps=5)
                if len({g.seg(nm)["SN"] for nm, o in w if g.seg(nm)["SR"] == 0}) > 1:
                    continue
                more.append(gen.walk_record(rng, g, w, "r%d" % k, canonical=False))
            lines = [l + "\tzz:Z:" + "pad" * rng.randint(30, 70) for l in lines + more] if prop == "C10" else lines + more
            bg_out = True if prop == "C10" else bg_out
            ck.count("big-file")
        outind = "custom.idx" if rng.random() < 0.2 else None
        gfa_text = g.text(with_seq=False)
        if rng.random() < 0.1:
            # a GAF that was sorted before (pipelines: sort per sample, merge, sort again): the records already end in bo / sn / iv
            # fields, some followed by a further field; sort appends its three fields after whatever is there
            lines = [l + "\tbo:i:%d\tsn:Z:%s\tiv:i:%d" % (rng.randint(0, 9), rng.choice(["chr1", "unknown"]), rng.randint(0, 1))
                     + ("\tRG:Z:sample%d" % rng.randint(1, 3) if rng.random() < 0.5 else "") for l in lines]
            ck.count("already-sorted-input")
        if big and bg_out and len(lines) > 50:
            lines = straddle_contig_end(ck, runner, gfa_text, lines, bg_in, outind)
        obs = runner.run(gfa_text, lines, bg_in, bg_out, outind)
        recs = []
        for l in lines:
            f = l.split("\t")
            recs.append({"steps": steps_of(f[5]), "plen": int(f[6]), "ps": int(f[7]), "pe": int(f[8])})
        case = {"op": "sort.file", "nodes": node_table(g), "recs": recs, "impl": [], "gsi_impl": None}
        replay = {"gfa": gfa_text, "gaf": lines, "bgzf_in": bg_in, "bgzip_out": bg_out, "outind": outind}
        problems = []
        if obs["outcome"] == "ok":
            impl, problems = observe(lines, obs)
            gsi, bad = gsi_ordinals(obs)
            problems += bad if prop == "C10" else []
            case["impl"] = impl
            case["gsi_impl"] = gsi
        r, rl = ck.driver([case, {"op": "sort.lines", "nodes": case["nodes"], "lines": lines}])
        model_order = [m["ord"] for m in r["model"]]
        sns = [m["suffix"].split("\t")[2][5:] for m in r["model"]]
        ivs = [m["suffix"].split("\t")[3][5:] for m in r["model"]]
        keys = r.get("spec_keys") or []
        nt = {
            "C08": len(lines) >= 2 and (len(set(m["suffix"].split("\t")[1] for m in r["model"])) < len(lines) or any("bo:i:-1" in m["suffix"] for m in r["model"])),
            "C09": "1" in ivs or "unknown" in sns or any(k and k[3] for k in keys),
            "C10": len(set(sns) - {"unknown"}) >= 2 or "unknown" not in sns or bg_out,
        }[prop]
        ck.case({"gfa": gfa_text, "gaf": lines}, nt, sample={"gfa": gfa_text.splitlines()[:4] + ["..."], "gaf": lines[:2], "impl_order": [x["ord"] for x in case["impl"]][:10], "gsi": case["gsi_impl"]})
        ck.count("records:%s" % ("1" if len(lines) == 1 else "2-9" if len(lines) < 10 else "10-59" if len(lines) < 60 else "60+"))
        ck.count("in:%s out:%s" % ("bgzf" if bg_in else "plain", "bgzf" if bg_out else "plain"))
        ck.count("unknown-present" if "unknown" in sns else "unknown-absent")
        if set(sns) == {"unknown"}:
            ck.count("only-unknown-records")
        if bg_out and obs["outcome"] == "ok":
            ck.count("bgzf-output-blocks:%s" % min(3, len({o >> 16 for o in obs["offs"]})))
        if not r["valid"]:
            ck.count("invalid-input")
            continue
        if obs["outcome"] != "ok":
            if prop == "C10" or obs["outcome"] == "crash":
                ck.violation("sort did not complete / wrote no index: %s" % obs.get("exc", obs["outcome"]), replay)
            continue
        if problems:
            ck.violation("; ".join(problems[:3]), dict(replay, output=obs["lines"]))
            continue
        if prop in ("C08", "C09") and not r["spec_on_impl"]:
            ck.violation("output of sort is not (a permutation of the input in (BO,NO,start) order with correct bo/sn/iv fields)", dict(replay, output=obs["lines"], model=r["model"]))
            continue
        if prop == "C10" and not r["spec_gsi_on_impl"]:
            ck.violation(".gsi does not hold first/last record offsets per contig", dict(replay, output=obs["lines"], gsi=case["gsi_impl"], gsi_model=r["gsi_model"]))
            continue
        if prop == "C10":
            # seeking the real file to the stored offsets yields records of that contig
            for c, a, b in case["gsi_impl"]:
                for p in (a, b):
                    if ("sn:Z:%s" % c) not in obs["lines"][p].split("\t")[-3:]:
                        ck.violation("index entry of %s points at a record of another contig" % c, dict(replay, output=obs["lines"], gsi=case["gsi_impl"]))
        impl_order = [x["ord"] for x in case["impl"]]
        if prop in ("C08", "C09") and (impl_order != model_order or [x["suffix"] for x in case["impl"]] != [m["suffix"] for m in r["model"]]):
            ck.disagreement("run_sort output differs from the model's", dict(replay, impl=case["impl"], model=r["model"]))
        if prop in ("C08", "C09") and rl["model"] != obs["lines"]:
            ck.disagreement("the written lines differ from the model's text layer (sortLines)", dict(replay, impl=obs["lines"][:20], model=(rl["model"] or [])[:20]))
        if prop == "C10" and sorted(map(tuple, case["gsi_impl"])) != sorted(map(tuple, r["gsi_model"])):
            ck.disagreement(".gsi differs from the model's", dict(replay, impl=case["gsi_impl"], model=r["gsi_model"]))
        # C08: the order does not depend on the input order (up to exact ties)
        if prop == "C08" and len(lines) >= 2 and it % 3 == 0:
            perm = list(range(len(lines)))
            rng.shuffle(perm)
            if keys and rng.random() < 0.4:
                # an input that is ALREADY in ascending order of the naive tuple (BO, NO, start) - untagged records (BO = -1) first:
                # an "already sorted, nothing to do" shortcut must not pass it through
                perm = sorted(range(len(lines)), key=lambda o: (tuple(keys[o][:3]), o))
                ck.count("rerun-on-naively-sorted-input")
            lines2 = [lines[i] for i in perm]
            obs2 = runner.run(gfa_text, lines2, bg_in, bg_out, outind)
            if obs2["outcome"] != "ok":
                ck.violation("sort failed on a permutation of an input it handles", dict(replay, gaf=lines2))
                continue
            impl2, pr2 = observe(lines2, obs2)
            def k3(o):
                return ("untagged",) if keys[o][0] == -1 else tuple(keys[o][:3])
            k1 = [k3(o) for o in impl_order]
            k2 = [k3(perm[x["ord"]]) for x in impl2] if not pr2 else None
            ck.count("shuffled-rerun")
            if k1 != k2:
                ck.violation("output order depends on the input order beyond exact ties", dict(replay, gaf_shuffled=lines2, keys1=k1, keys2=k2))


if __name__ == "__main__":
    prop = sys.argv[1]
    run_check(lambda: main(prop), prop)
