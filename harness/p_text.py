"""C16 (tags survive parse/print), C19 (stat), C20 (phase): per-record text properties against the Lean model/spec."""
import io
import os
import re
import shutil
import sys
import tempfile
from fractions import Fraction

from core import tool, Check, run_check, watchdog
import gen


def rand_line(rng, k, allow_repeat=False, malformed=False):
    n = rng.randint(1, 40)
    name = "read%d" % k + (" extra words" if rng.random() < 0.3 else "")
    strand = rng.choice("+-")
    path = rng.choice([">s1", ">s1<s2>s3", "<s12", "chr1", ">chr1:10-20<hap:3-9", "chr1_alt"])
    cig = gen.simple_cigar(rng, n) if rng.random() < 0.8 else None
    tags = gen.rand_tags(rng, allow_repeat=allow_repeat, cigar=cig, with_ds=True)
    if allow_repeat and tags and rng.random() < 0.8:
        t = rng.choice(tags)
        if not t.startswith("ds:Z:"):
            tags.insert(rng.randint(0, len(tags)), t[:5] + gen.tag_value(rng, t[3]))
    if allow_repeat and cig and rng.random() < 0.3:
        tags.append("cg:Z:7=")
    line = gen.gaf_record(name, n + 10, 3, 3 + n, strand, path, 500, 5, 5 + n, max(0, n - 2), n, rng.choice([0, 1, 60]), tags)
    if malformed:
        f = line.split("\t")
        kind = rng.choice(["short", "nondigit", "badtag", "trail"])
        if kind == "short":
            f = f[:rng.randint(3, 11)]
        elif kind == "nondigit":
            f[rng.choice([1, 2, 3, 6, 7, 8])] = rng.choice(["x", "", "1.5"])
        elif kind == "badtag":
            f.append(rng.choice(["N:i:3", "NM:q:3", "NMi3", "1M:i:3", "nm:i", "cg:Z"]))
        else:
            f[-1] = f[-1] + " "
        line = "\t".join(f)
    return line


def impl_print_parse(lines, tmp):
    """parse_gaf_line + str() of the real code, one line at a time (a crash is an outcome, not a harness error)"""
    from gaftools.gaf import GAF
    p = os.path.join(tmp, "dummy.gaf")
    gen.write_text(p, "")
    g = GAF(p)
    out = []
    for l in lines:
        try:
            a = g.parse_gaf_line(l + "\n")
            out.append(str(a) if a is not None else None)
        except BaseException:  # noqa
            out.append(None)
    g.close()
    return out


def c16(ck, tmp):
    rng = ck.rng
    quick = ck.tier == "quick"
    n = 2500 if quick else 100000
    import json
    from core import VERIF
    lines, kinds = [json.load(open(os.path.join(VERIF, "corpus", "C16", "K1.json")))["line"]], ["repeat"]
    for k in range(n):
        r = rng.random()
        kind = "malformed" if r < 0.08 else "repeat" if r < 0.2 else "plain"
        lines.append(rand_line(rng, k, allow_repeat=(kind == "repeat"), malformed=(kind == "malformed")))
        kinds.append(kind)
    impl = impl_print_parse(lines, tmp)
    rep = ck.driver([{"op": "gaf.print_parse", "line": l, "impl": o} for l, o in zip(lines, impl)])
    k1 = 0
    for l, o, r, kind in zip(lines, impl, rep, kinds):
        opt = l.split("\t")[12:]
        nontriv = any(not re.fullmatch(r"[A-Za-z0-9.]+", t[5:]) for t in opt if len(t) >= 5)
        ck.case(l, nontriv and r["valid"], sample={"line": l, "impl": o} if nontriv else None)
        ck.count("kind:" + kind)
        ck.count("valid" if r["valid"] else "invalid")
        if not any(t.startswith("cg:Z:") for t in opt):
            ck.count("no-cigar")
        replay = {"route": "parse_gaf_line+str", "line": l, "impl": o, "model": r["model"], "expected": r["expected"]}
        if not r["valid"]:
            if (o is None) != (r["model"] is None):
                # outside the quantifier only the rejection behaviour is compared; a difference is a modelling gap, not a violation
                ck.count("malformed-reject-differs")
            continue
        if r["norep"]:
            if not r["spec_on_impl"]:
                ck.violation("re-emitted record differs from the input (tags/columns not verbatim)", replay)
                continue
        else:
            ck.count("repeated-tag")
            if not r["spec_on_impl"]:
                if r["k1_on_impl"]:
                    k1 += 1
                else:
                    ck.violation("re-emitted record with repeated tags differs beyond the known finding K1", replay)
                    continue
        if not r["no_invented"]:
            ck.violation("an optional field was invented", replay)
            continue
        if o != r["model"]:
            ck.disagreement("parse+print differs from the model", replay)
    if k1:
        ck.known_finding("K1", "a repeated TAG:TYPE: optional field is emitted once (%d generated records this run)" % k1)
    view_route(ck, tmp, 40 if quick else 800)


def view_route(ck, tmp, n):
    """the same property through `view -n` (Alignment.__str__) and `view -f stable` (converter's own tag printing)"""
    from gaftools.cli import index, view
    rng = ck.rng
    for it in range(n):
        g = gen.rgfa(rng)
        adj = g.adjacency()
        lines = []
        for k in range(rng.randint(1, 6)):
            w = gen.walk(rng, g, adj)
            n_ = None
            lines.append(gen.walk_record(rng, g, w, "rd%d" % k + (" x y" if rng.random() < 0.3 else ""), tags=None))
        gfa = os.path.join(tmp, "v.gfa")
        gaf = os.path.join(tmp, "v.gaf")
        gen.write_text(gfa, g.text())
        gen.write_text(gaf, "".join(l + "\n" for l in lines))
        nodes = sorted({nm for l in lines for nm in re.findall(r"[<>]([^<>\t]+)", l.split("\t")[5])})
        try:
            tool("index", gaf_path=gaf, gfa_path=gfa)
            out = os.path.join(tmp, "v.out")
            tool("view", allow_stdout=True, gaf_path=gaf, gfa=gfa, output=out, nodes=nodes)
            got = open(out).read().splitlines()
            out2 = os.path.join(tmp, "v.out2")
            tool("view", allow_stdout=True, gaf_path=gaf, gfa=gfa, output=out2, format="stable")
            got2 = open(out2).read().splitlines()
        except BaseException as e:  # noqa
            ck.violation("view crashed on a well-formed file: %s" % type(e).__name__, {"gfa": g.text(), "gaf": lines})
            continue
        rep = ck.driver([{"op": "gaf.print_parse", "line": l, "impl": o} for l, o in zip(lines, got)]) if len(got) == len(lines) else None
        ck.case({"gaf": lines}, True)
        ck.count("route:view")
        if rep is None or not all(r["spec_on_impl"] for r in rep):
            ck.violation("view -n does not re-emit the selected records verbatim", {"gfa": g.text(), "gaf": lines, "nodes": nodes, "impl": got})
            continue
        # converter route: optional fields identical except cg:Z: (same position), untouched columns identical
        if len(got2) != len(lines):
            ck.violation("view -f stable changed the number of records", {"gfa": g.text(), "gaf": lines, "impl": got2})
            continue
        for l, o in zip(lines, got2):
            fi, fo = l.split("\t"), o.split("\t")
            strip = lambda fs: [("cg:Z:" if t.startswith("cg:Z:") else t) for t in fs]
            if strip(fi[12:]) != strip(fo[12:]) or [fi[0].split(" ")[0]] + fi[1:4] + fi[9:12] != fo[0:4] + fo[9:12]:
                ck.violation("view -f stable altered an optional field or an untouched column", {"gfa": g.text(), "line": l, "impl": o})
                break


# ---------------------------------------------------------------------------------------------------- C19
def parse_report(text):
    d = {}
    pats = {"total": r"Total alignments: (\d+)", "primary": r"Primary: (\d+)", "secondary": r"Secondary: (\d+)",
            "reads": r"Reads with at least one alignment: (\d+)", "bases": r"Total aligned bases: (\d+)",
            "avg_mapq": r"Average mapping quality: (\S+)", "avg_id": r"Average highest sequence identity: (\S+)",
            "avg_ratio": r"Average highest map ratio: (\S+)"}
    for k, p in pats.items():
        m = re.search(p, text)
        d[k] = m.group(1) if m else None
    m = re.search(r"deletion regions: (\d+) \((\d+) >50bps\)\s+Total insertion regions: (\d+) \((\d+) >50bps\)\s+Total substitution regions: (\d+) \((\d+) >50bps\)\s+Total match regions: (\d+) \((\d+) >50bps\)", text)
    p = re.search(r"Total perfect alignments \(exact match\): (\d+)", text)
    d["cigar"] = [int(x) for x in m.groups()] + [int(p.group(1))] if m and p else None
    return d


def rounds_to(printed, exact, digits):
    """printed = Python's round(float, digits) of a float computation of `exact` (a Fraction): accept the half-even rounding of
    the exact value, or its neighbour when the exact value is within 1e-9 of a rounding tie"""
    try:
        p = Fraction(printed)
    except (ValueError, ZeroDivisionError):
        return False
    q = Fraction(1, 10 ** digits)
    lo = (exact / q).__floor__() * q
    cands = {lo, lo + q}
    best = min(cands, key=lambda c: (abs(c - exact), c))
    if p == best:
        return True
    return p in cands and abs(abs(exact - lo) - q / 2) < Fraction(1, 10 ** 9)


def stat_file(rng, nrec):
    lines = []
    nreads = max(1, nrec // rng.choice([1, 2, 3]))
    for k in range(nrec):
        n = rng.randint(1, 200)
        tp = rng.choice(["tp:A:P", "tp:A:P", "tp:A:S", "tp:A:I", "tp:A:p", None])
        ops = []
        for _ in range(rng.randint(1, 5)):
            ops.append("%d%s" % (rng.choice([1, 3, 49, 50, 51, 120]), rng.choice("=XID=")))
        cig = "".join(ops) if rng.random() < 0.9 else None
        tags = ([tp] if tp else []) + ["NM:i:%d" % rng.randint(0, 9)] + (["cg:Z:" + cig] if cig else [])
        rng.shuffle(tags)
        # the aligned stretch starts anywhere in the read and on the path (the map ratio is (end - start) / length: found by the
        # mechanical mutation sweep - with every start at 0, `end + start` went unnoticed)
        qs = rng.choice([0, rng.randint(0, 60)])
        ps = rng.choice([0, rng.randint(0, 60)])
        qlen = rng.randint(qs + n, qs + n + 50)
        blen = rng.randint(1, n + 5)
        lines.append(gen.gaf_record("read%d" % rng.randrange(nreads), qlen, qs, qs + n, "+", ">s1", 1000, ps, ps + n, rng.randint(0, blen), blen,
                                    rng.choice([0, 0, 1, 30, 60]), tags))
    return lines


def c19(ck, tmp):
    from gaftools.cli.stat import run_stat
    rng = ck.rng
    n = 1200 if ck.tier == "quick" else 20000
    pending = []
    for it in range(n):
        lines = stat_file(rng, rng.choice([1, 2, 3, 5, 8, 20, 60]) if it not in (9, n // 2) else rng.randint(1001, 1100))
        cigar = rng.random() < 0.6
        variants = [lines]
        if len(lines) > 1:
            sh = lines[:]
            rng.shuffle(sh)
            variants.append(sh)
        reports = []
        for v in variants:
            p = os.path.join(tmp, "s.gaf")
            if rng.random() < 0.25:
                p += ".gz"
                gen.write_bgzf(p, "".join(l + "\n" for l in v))
            else:
                gen.write_text(p, "".join(l + "\n" for l in v))
            o = os.path.join(tmp, "s.out")
            try:
                with watchdog(60):
                    tool("stat", allow_stdout=True, gaf_path=p, cigar_stat=cigar, output=o)
                reports.append(parse_report(open(o).read()))
            except BaseException as e:  # noqa
                reports.append({"crash": type(e).__name__})
            finally:
                for f in (p, o):
                    if os.path.exists(f):
                        os.remove(f)
        pending.append((lines, cigar, reports))
    rep = ck.driver([{"op": "stat.run", "lines": l, "cigar": c} for l, c, _ in pending])
    for (lines, cigar, reports), r in zip(pending, rep):
        sp, md = r["spec"], r["model"]
        nontriv = sp["secondary"] >= 1 and sp["reads"] < sp["primary"]
        ck.case(lines, nontriv and r["valid"], sample={"gaf": lines[:3], "report": reports[0]})
        ck.count("valid" if r["valid"] else "no-primary-record (excluded: the tool divides by zero)")
        ck.count("cigar" if cigar else "no-cigar")
        if not r["valid"]:
            continue
        replay = {"gaf": lines, "cigar": cigar, "reports": reports, "spec": sp}
        for which, rp in zip(("as given", "shuffled"), reports):
            if "crash" in rp:
                ck.violation("stat crashed (%s) on a file with primary records (%s)" % (rp["crash"], which), replay)
                break
            bad = [k for k in ("total", "primary", "secondary", "reads", "bases") if rp[k] is None or int(rp[k]) != sp[k]]
            if cigar and rp["cigar"] != sp["cigar"]:
                bad.append("cigar")
            for k in ("avg_id", "avg_ratio"):
                if rp[k] is None or not rounds_to(rp[k], Fraction(sp[k][0], sp[k][1]), 3):
                    bad.append(k)
            if bad:
                ck.violation("stat report (%s) disagrees with the definitions on: %s" % (which, ", ".join(bad)), replay)
                break
        else:
            rp = reports[0]
            diff = [k for k in ("total", "primary", "secondary", "reads", "bases") if int(rp[k]) != md[k]]
            if cigar and rp["cigar"] != md["cigar"]:
                diff.append("cigar")
            if md["avg_id"] != sp["avg_id"] or md["avg_ratio"] != sp["avg_ratio"]:
                diff.append("model-vs-spec averages")
            if not rounds_to(rp["avg_mapq"], Fraction(md["avg_mapq"][0], md["avg_mapq"][1]), 1):
                diff.append("avg_mapq")
            if diff:
                ck.disagreement("stat report differs from the model on %s" % diff, replay)


# ---------------------------------------------------------------------------------------------------- C20
def c20(ck, tmp):
    from gaftools.cli.phase import add_phase_info
    rng = ck.rng
    n = 1200 if ck.tier == "quick" else 20000
    pending = []
    for it in range(n):
        nrec = rng.choice([1, 2, 3, 6, 12])
        if it in (7, n // 2):
            nrec = rng.randint(1001, 1100)      # more records than any plausible internal batch of a thousand
        lines = [rand_line(rng, rng.randrange(nrec + 2)) for _ in range(nrec)]
        if rng.random() < 0.25:
            # a GAF that was phased before: it already carries ps:Z / ht:Z fields (stale values)
            def stale(l):
                f = l.split("\t")
                extra = ["ps:Z:%s" % rng.choice(["none", "chr1-77", "chrX-5"]), "ht:Z:%s" % rng.choice(["none", "H1", "H2"])]
                pos = rng.randint(12, len(f))
                return "\t".join(f[:pos] + extra + f[pos:])
            lines = [stale(l) if rng.random() < 0.7 else l for l in lines]
        names = sorted({l.split("\t")[0].split(" ")[0] for l in lines})
        tsv = ["#readname\thaplotype\tphaseset\tchromosome"] if rng.random() < 0.8 else []
        shared_ps = rng.random() < 0.4      # phase-set ids are unique per chromosome only: the same id on several chromosomes
        for nm in names + names[:2]:
            r = rng.random()
            if r < 0.25:
                continue
            hap = rng.choice(["H1", "H2", "none"])
            tsv.append("%s\t%s\t%s\t%s" % (nm, hap, "none" if hap == "none" else str(rng.choice([10571, 10571, 42]) if shared_ps else rng.randint(1, 99999)), rng.choice(["chr1", "chrX", "contig_7"])))
        if rng.random() < 0.5:
            rng.shuffle(tsv)
        gaf = os.path.join(tmp, "p.gaf")
        if rng.random() < 0.2:
            gaf += ".gz"
            gen.write_bgzf(gaf, "".join(l + "\n" for l in lines))
        else:
            gen.write_text(gaf, "".join(l + "\n" for l in lines))
        tp = os.path.join(tmp, "p.tsv")
        gen.write_text(tp, "".join(l + "\n" for l in tsv))
        out = os.path.join(tmp, "p.out")
        try:
            with watchdog(60):
                tool("phase", allow_stdout=True, gaf_file=gaf, tsv_file=tp, output=out)
            impl = open(out).read().split("\n")
        except BaseException as e:  # noqa
            impl = None
        finally:
            if os.path.exists(gaf):
                os.remove(gaf)
        pending.append((tsv, lines, impl, names))
    rep = ck.driver([{"op": "phase.file", "tsv": t, "gaf": l, "impl": i} for t, l, i, _ in pending])
    for (tsv, lines, impl, names), r in zip(pending, rep):
        haps = {t.split("\t")[0]: t.split("\t")[1] for t in reversed(tsv)}
        kinds = {("missing" if nm not in haps else "unphased" if haps[nm] == "none" else "phased") for nm in names}
        ck.case({"tsv": tsv, "gaf": lines}, len(kinds) == 3 and r["valid"], sample={"tsv": tsv[:3], "gaf": lines[:2], "out": (impl or [])[:2]})
        ck.count("kinds:%d" % len(kinds))
        ck.count("strand-" + ("both" if len({l.split("\t")[4] for l in lines}) == 2 else "one"))
        if not r["valid"]:
            ck.count("invalid")
            continue
        replay = {"tsv": tsv, "gaf": lines, "impl": impl, "spec": r["spec"]}
        if not r["spec_on_impl"]:
            ck.violation("phase output is not (input record + ps:Z/ht:Z from the first TSV line of the read), well-formed", replay)
            continue
        if impl != r["model"]:
            ck.disagreement("phase output differs from the model", dict(replay, model=r["model"]))


def main(prop):
    ck = Check(prop)
    ck.trusted = ["Lean 4.33.0 kernel", "axioms: propext, Classical.choice, Quot.sound (audited)", "correspondence harness + JSON driver",
                  "CPython str.split/rstrip/re.match and dict ordering as modelled in Model/Gaf.lean"]
    ck.lean_build(["Gaftools.Props.%s" % prop] + (["Gaftools.Props.TieA", "Gaftools.Props.TieA2", "Gaftools.Props.TieA14"] if prop == "C19" else ["Gaftools.Props.TieA7"] + (["Gaftools.Props.TieA22"] if prop == "C20" else []) if prop in ("C16", "C20") else []))
    ck.audit("%s.lean" % prop)
    tmp = tempfile.mkdtemp(prefix="gtv-text-")
    try:
        if prop == "C16":
            ck.assumptions = ["ASCII input; fields contain no tab; the last field does not end in a blank (rstrip)",
                              "no TAG:TYPE repeats (otherwise known finding K1)"]
            ck.canon = ["a crash and a `None` parse are both the outcome 'rejected'"]
            ck.rule = "generated records over the SAM tag grammar (signed ints, floats with exponent/leading dot, Z with punctuation and spaces, A, H, B, empty Z, ds:Z, no-CIGAR records, read names with spaces) + a repeated-tag stream (K1) + a malformed stream; non-trivial = well-formed record with at least one value outside [A-Za-z0-9.]+ ; also through view -n and view -f stable"
            c16(ck, tmp)
        elif prop == "C19":
            ck.assumptions = ["at least one primary record (the tool divides by the number of reads)", "floats modelled by exact rationals: printed averages must be a correct 3-decimal rounding of the exact value"]
            ck.canon = ["averages compared as roundings of exact rationals", "log output ignored"]
            ck.rule = "generated files: tp in {P,p,S,I,absent}, MAPQ in {0,1,30,60}, 1-3 records per read, CIGAR runs around the 50 threshold; each file also shuffled; non-trivial = >=1 secondary record and >=1 read with several primary records"
            c19(ck, tmp)
        else:
            ck.assumptions = ["ASCII input, well-formed records without repeated tags, TSV lines with >= 4 printable columns"]
            ck.rule = "generated GAFs (both strands, stable/unstable paths, all tag shapes) x TSVs with H1/H2/none/missing/duplicated reads and optional header, shuffled; non-trivial = TSV has phased, unphased and missing reads for the file"
            c20(ck, tmp)
    finally:
        shutil.rmtree(tmp, ignore_errors=True)
    return ck.finish()


if __name__ == "__main__":
    prop = sys.argv[1]
    run_check(lambda: main(prop), prop)
