"""C06 (BO/NO encode the bubble chain), C07 (graph preserved by order_gfa / GFA I/O), C18 (unorderable components isolated)."""
import glob
import itertools
import os
import re
import shutil
import subprocess
import sys
import tempfile

from core import tool, Check, VERIF, run_check, watchdog
import gen
from p_graph import tokenize_gfa

FL = {"+": "-", "-": "+"}


def gen_chrom(rng, name, ids, broken=None):
    segs, links = [], []

    def new(sn, so, sr):
        i = next(ids)
        L = rng.randint(1, 6)
        extra = rng.choice([[], ["XT:Z:a:b c"], ["x1:i:-5", "zz:f:1e-3"]])
        seq = gen.rseq(rng, L)
        if rng.random() < 0.15:
            seq = "".join(c.lower() if rng.random() < 0.5 else c for c in seq)     # soft-masked bases are valid GFA
        segs.append([i, sn, so, sr, seq, extra])
        return i, L

    def link(a, da, b, db):
        tags = rng.choice([[], ["SR:i:0"], ["L1:i:3", "L2:Z:x y"]])
        if rng.random() < 0.06:
            # two links between the same two node ends that differ in their overlap only (both untagged: the tool keeps one
            # tag slot per pair of node ends, so tags on such a pair are outside what it can represent)
            links.append((a, da, b, db, 0, []))
            links.append((a, da, b, db, 3, []))
            return
        if rng.random() < 0.5:
            links.append((a, da, b, db, 0, tags))
        else:
            links.append((b, FL[db], a, FL[da], 0, tags))     # declared from the other end
    if broken == "pair":
        # two linked reference segments: one block, no articulation point, no element of degree one
        a, La = new(name, 0, 0)
        b, _ = new(name, La, 0)
        link(a, "+", b, "+")
        return segs, links, [a, b]
    so = 0
    nsc = rng.randint(3, 7) if broken != "rearranged" else rng.randint(5, 7)
    prev, L = new(name, so, 0)
    so += L
    scaff = [prev]
    hapc = 0
    for k in range(nsc - 1):
        kind = rng.choice(["snp", "ins", "del", "inv", "multi", "nested", "none"])
        inner_ref = []
        if kind in ("snp", "multi", "nested", "inv", "del"):
            r, L = new(name, so, 0)
            so += L
            inner_ref = [r]
        nxt, Ln = new(name, so, 0)
        so += Ln
        if kind == "none":
            link(prev, "+", nxt, "+")
        elif kind == "ins":
            h, _ = new("%s_h%d" % (name, hapc), rng.randint(0, 500), rng.randint(1, 9))
            hapc += 1
            link(prev, "+", nxt, "+")
            link(prev, "+", h, "+")
            link(h, "+", nxt, "+")
        elif kind == "del":
            r = inner_ref[0]
            link(prev, "+", r, "+")
            link(r, "+", nxt, "+")
            link(prev, "+", nxt, "+")
        elif kind == "snp":
            r = inner_ref[0]
            h, _ = new("%s_h%d" % (name, hapc), rng.randint(0, 500), rng.randint(1, 9))
            hapc += 1
            for x in (r, h):
                link(prev, "+", x, "+")
                link(x, "+", nxt, "+")
        elif kind == "inv":
            r = inner_ref[0]
            link(prev, "+", r, "+")
            link(r, "+", nxt, "+")
            link(prev, "+", r, "-")
            link(r, "-", nxt, "+")
        elif kind == "multi":
            r = inner_ref[0]
            h1, _ = new("%s_h%d" % (name, hapc), 10, 2)
            h2, _ = new("%s_h%d" % (name, hapc), 200, 2)
            hapc += 1
            link(prev, "+", r, "+")
            link(r, "+", nxt, "+")
            link(prev, "+", h1, "+")
            link(h1, "+", h2, "+")
            link(h2, "+", nxt, "+")
        elif kind == "nested":
            r = inner_ref[0]
            h1, _ = new("%s_h%d" % (name, hapc), 10, 2)
            h2, _ = new("%s_h%d" % (name, hapc + 1), 20, 3)
            h3, _ = new("%s_h%d" % (name, hapc + 1), 90, 3)
            hapc += 2
            for a, b in ((prev, r), (r, nxt), (prev, h1), (h1, nxt), (h1, h2), (h2, h3), (h3, nxt), (r, h3)):
                link(a, "+", b, "+")
        prev = nxt
        scaff.append(nxt)
    if rng.random() < 0.2:
        links.append((scaff[0], "+", scaff[0], "-", 0, []))   # self link
    if broken == "rearranged":
        # a transposition on the reference: two neighbouring articulation points exchange their reference intervals (offset and
        # sequence), so the offsets of the scaffold nodes do not increase along the chain although its ends are in order; half
        # of the time it is the LAST pair (found by the mechanical mutation sweep: a test loop one iteration short went unnoticed)
        j = len(scaff) - 3 if rng.random() < 0.5 else rng.randint(1, len(scaff) - 3)
        sa = next(x for x in segs if x[0] == scaff[j])
        sb = next(x for x in segs if x[0] == scaff[j + 1])
        sa[2], sb[2] = sb[2], sa[2]
        sa[4], sb[4] = sb[4], sa[4]
    if broken == "tips":
        m = scaff[len(scaff) // 2]
        for _ in range(2):
            t, _ = new("%s_t" % name, rng.randint(0, 50), 4)
            link(m, "+", t, "+")
    if broken == "cycle3":
        a = scaff[0]
        b, _ = new("%s_c" % name, 5, 5)
        c, _ = new("%s_c" % name, 50, 5)
        link(a, "-", b, "+")
        link(b, "+", c, "+")
        link(c, "+", a, "-")
        pb, _ = new("%s_p" % name, 5, 6)
        pc, _ = new("%s_q" % name, 5, 7)
        link(b, "+", pb, "+")
        link(c, "+", pc, "+")
    if broken == "hapmajor":
        # not broken at all: one assembly contig contributes more segments than the reference does (a long multi-segment
        # allele), so the component is NAMED after that contig; its scaffold nodes are still all on the reference
        prevh = scaff[0]
        for j in range(len([x for x in segs if x[1] == name]) + 2):
            h, _ = new("%s_big" % name, 10 * j, 2)
            link(prevh, "+", h, "+")
            prevh = h
        link(prevh, "+", scaff[1], "+")
    if broken == "ring":
        # a circular contig: the chain closed into a cycle is one biconnected block (no articulation point, no loose end)
        link(scaff[-1], "+", scaff[0], "+")
    if broken == "haptail":
        # a haplotype segment prolonging the chain end: the last reference node becomes a cut vertex followed by a non-reference bubble-less tail
        # offsets either small or continuing the increasing order (so that only the SN test can reject the chain)
        hi = rng.random() < 0.6
        t1, _ = new("%s_t" % name, so + 5 if hi else 7, 4)
        t2, _ = new("%s_u" % name, so + 20 if hi else 9, 5)
        link(scaff[-1], "+", t1, "+")
        link(t1, "+", t2, "+")
    return segs, links, scaff


def idgen(style):
    k = 0
    while True:
        k += 1
        yield {"s": "s%d" % k, "num": str(k), "mixed": (str(k) if k % 2 else "n%d" % k)}[style]


def text(rng, segs, links, stale, shuffle=True):
    L = []
    for i, sn, so, sr, seq, extra in segs:
        if extra == ["__UNTAGGED__"]:
            L.append("\t".join(["S", i, seq]))      # an S line without any tag (valid GFA; only for alleles inside bubbles)
            continue
        if extra and extra[0] == "__RAW__":
            L.append("\t".join(["S", i, seq] + extra[1:]))      # tags exactly as an earlier run wrote them
            continue
        t = ["LN:i:%d" % len(seq), "SN:Z:%s" % sn, "SO:i:%d" % so, "SR:i:%d" % sr] + extra
        if stale and rng.random() < 0.5:
            t.insert(rng.randint(0, len(t)), "BO:i:%d" % rng.randint(0, 50))
            t.insert(rng.randint(0, len(t)), "NO:i:%d" % rng.randint(0, 5))
        L.append("\t".join(["S", i, seq] + t))
    for a, da, b, db, ov, tags in links:
        L.append("\t".join(["L", a, da, b, db, "%dM" % ov] + tags))
    L.append("H\tVN:Z:1.0")
    if shuffle:
        rng.shuffle(L)
    return "\n".join(L) + "\n"


def run_order(gtext, order, with_seq, by_chrom, tmp, gz=False, default_order=False, keep_outdir=False):
    """in-process run of the real run_order_gfa; returns dict(outcome, files{chrom: text}, csv{chrom: text}, complete);
    keep_outdir: write into the output directory as the previous run left it (a re-used --outdir)"""
    from gaftools.cli import order_gfa
    src = os.path.join(tmp, "in.gfa" + (".gz" if gz else ""))
    (gen.write_gzip if gz else gen.write_text)(src, gtext)
    out = os.path.join(tmp, "out")
    if not keep_outdir:
        shutil.rmtree(out, ignore_errors=True)
    try:
        with watchdog(120):
            tool("order_gfa", gfa_filename=src, outdir=out, by_chrom=by_chrom, chromosome_order=("" if default_order else ",".join(order)), with_sequence=with_seq)
    except SystemExit as e:
        return {"outcome": "exit", "code": e.code}
    except BaseException as e:  # noqa
        return {"outcome": "crash", "exc": type(e).__name__ + ": " + str(e)[:200]}
    res = {"outcome": "ok", "files": {}, "csv": {}}
    for f in glob.glob(os.path.join(out, "*")):
        b = os.path.basename(f)
        txt = open(f).read()
        key = b.rsplit(".", 1)[0].split("-", 1)[1] if "-" in b else b
        (res["files"] if b.endswith(".gfa") else res["csv"])[key] = txt
    return res


def run_order_subprocess(gtext, order, with_seq, tmp, hashseed):
    """the same run in a fresh interpreter with another PYTHONHASHSEED; returns {chromosome: written GFA text}"""
    src = os.path.join(tmp, "hs.gfa")
    gen.write_text(src, gtext)
    out = os.path.join(tmp, "hs_out")
    shutil.rmtree(out, ignore_errors=True)
    code = ("import sys,logging; logging.disable(logging.CRITICAL)\n"
            "from gaftools.cli import order_gfa\n"
            "order_gfa.run_order_gfa(sys.argv[1], sys.argv[2], by_chrom=True, chromosome_order=sys.argv[3], with_sequence=(sys.argv[4]=='1'))\n")
    env = dict(os.environ, PYTHONHASHSEED=str(hashseed))
    subprocess.run(["/venv/bin/python", "-c", code, src, out, ",".join(order), "1" if with_seq else "0"], env=env,
                   stdout=subprocess.DEVNULL, stderr=subprocess.DEVNULL, timeout=300)
    res = {}
    for f in glob.glob(os.path.join(out, "*.gfa")):
        res[os.path.basename(f).rsplit(".", 1)[0].split("-", 1)[1]] = open(f).read()
    return res


def check_layout(txt):
    """all S lines precede all L lines"""
    kinds = [l[0] for l in txt.splitlines() if l]
    return "S" not in kinds[kinds.index("L"):] if "L" in kinds else True


DEFAULT_CHROMS = ["chr%d" % i for i in range(1, 23)] + ["chrX", "chrY", "chrM"]


def make_default_case(rng):
    """the 25 default chromosomes, small chains, no --chromosome_order: the documented default order must be used"""
    ids = idgen(rng.choice(["s", "num", "mixed"]))
    allsegs, alllinks = [], []
    names = DEFAULT_CHROMS[:]
    rng.shuffle(names)          # order of appearance in the file is unrelated to the default order
    for c in names:
        s, l, _ = gen_chrom(rng, c, ids, None)
        allsegs += s
        alllinks += l
    return allsegs, alllinks, DEFAULT_CHROMS[:], {c: None for c in DEFAULT_CHROMS}


def make_case(rng):
    style = rng.choice(["s", "num", "mixed"])
    ids = idgen(style)
    nchr = rng.randint(1, 3)
    chroms = ["chr%d" % (c + 1) for c in range(nchr)]
    if rng.random() < 0.12:
        chroms[rng.randrange(nchr)] = "complete"      # a valid name that collides with the name of the tool's own final files (D22)
    broken = {c: (rng.choice(["tips", "cycle3", "haptail", "ring", "pair", "rearranged"]) if rng.random() < 0.3 else None) for c in chroms}
    allsegs, alllinks = [], []
    scaffs = {}
    for c in list(chroms):
        hapmajor = broken[c] is None and rng.random() < 0.12
        s, l, sc = gen_chrom(rng, c, ids, "hapmajor" if hapmajor else broken[c])
        allsegs += s
        alllinks += l
        scaffs[c] = (sc, len(s))
        if hapmajor:      # the component is requested under the name of its majority contig
            chroms[chroms.index(c)] = c + "_big"
            broken[c + "_big"] = broken.pop(c)
    if rng.random() < 0.2:
        # a further chromosome joined end to end, through a haplotype node, to a small partner chromosome: one component
        # named after the bigger one, chain-shaped but with scaffold nodes of two stable sequences
        big, small = "chrJ", "chrK"
        s1, l1, sc1 = gen_chrom(rng, big, ids, None)
        s2, l2, sc2 = gen_chrom(rng, small, ids, None)
        s2, l2 = s2[:1], []          # the partner is a single reference node
        h = next(ids)
        if rng.random() < 0.6:       # offsets continuing the increasing order along the joined chain
            top = max(x[2] for x in s1) + 10
            s2[0][2] = top + 50
            hso = top + 20
        else:
            hso = 3
        allsegs += s1 + s2 + [[h, "hapJ", hso, 2, gen.rseq(rng, 3), []]]
        alllinks += l1 + l2 + [(sc1[-1], "+", h, "+", 0, []), (h, "+", s2[0][0], "+", 0, [])]
        chroms.append(big)
        broken[big] = "hapjoin"
    if rng.random() < 0.3:
        # a chromosome that is one segment without links (a single-segment chrM): a component of one node
        allsegs.append([next(ids), "chrM", 0, 0, gen.rseq(rng, rng.randint(1, 9)), []])
        chroms.append("chrM")
        broken["chrM"] = None
    if rng.random() < 0.25:
        # alternative alleles inside bubbles written as bare `S id seq` lines: no SN / SO / LN, nothing at all (they are never
        # scaffold nodes, so the tool needs none of these tags from them; their CSV rows say NA)
        for sg in allsegs:
            if re.search(r"_h\d+$", sg[1]) and rng.random() < 0.6:
                sg[5] = ["__UNTAGGED__"]
    order = chroms[:]
    rng.shuffle(order)
    return allsegs, alllinks, order, broken


def main(prop):
    ck = Check(prop)
    ck.trusted = ["Lean 4.33.0 kernel", "axioms: propext, Classical.choice, Quot.sound (audited)", "correspondence harness + JSON driver",
                  "tokenisation of GFA text by the harness's independent reader; file naming of the outputs"]
    ck.assumptions = ["every segment carries SN/SO/SR/LN; scaffold (cut) nodes of an orderable chromosome are reference segments of one stable sequence",
                      "each chromosome name has a strict plurality in its component (ties are broken by set order)",
                      "biccs exactness is C15's subject (definition-level checker on the implementation's output, not a general theorem)"]
    ck.canon = ["L lines compared as a multiset", "BO/NO read from the written S lines", "log output ignored"]
    ck.lean_build({"C06": ["Gaftools.Props.C06", "Gaftools.Props.C06b", "Gaftools.Props.C06c", "Gaftools.Props.C06d", "Gaftools.Props.C06e", "Gaftools.Props.C06f", "Gaftools.Props.C06g", "Gaftools.Props.TieA2", "Gaftools.Props.TieA9", "Gaftools.Props.TieA16", "Gaftools.Props.TieA23"], "C07": ["Gaftools.Props.C07", "Gaftools.Props.C07b", "Gaftools.Props.C07c", "Gaftools.Props.GfaText", "Gaftools.Props.TieA", "Gaftools.Props.TieA5", "Gaftools.Props.TieA16", "Gaftools.Props.TieA20", "Gaftools.Props.TieA21", "Gaftools.Props.TieA28"], "C18": ["Gaftools.Props.C18", "Gaftools.Props.C18b", "Gaftools.Props.TieA2", "Gaftools.Props.TieA9", "Gaftools.Props.TieA16", "Gaftools.Props.TieA23", "Gaftools.Props.TieA28"]}[prop])
    ck.audit("%s.lean" % prop)
    rng = ck.rng
    quick = ck.tier == "quick"
    tmp = tempfile.mkdtemp(prefix="gtv-order-")
    k2_seen = 0
    try:
        followups = []
        for it in range(60 if quick else 800):
            default_order = prop == "C06" and it % 15 == 7 and not followups
            if followups:
                # the previous case's own output, edited, as a new input (see edited_rerun_case)
                segs, links, order, broken = followups.pop(0)
                ck.count("edited-output-reordered")
            else:
                segs, links, order, broken = make_default_case(rng) if default_order else make_case(rng)
            with_seq = rng.random() < 0.5
            gtext = text(rng, segs, links, stale=rng.random() < 0.5 and not any(sg[5][:1] == ["__RAW__"] for sg in segs), shuffle=not default_order)
            tok = tokenize_gfa(gtext)
            res = run_order(gtext, order, with_seq, True, tmp, gz=rng.random() < 0.15, default_order=default_order)
            if default_order:
                ck.count("default-chromosome-order")
            replay = {"gfa": gtext, "order": order, "with_sequence": with_seq, "made_unorderable": broken}
            nontriv = (len(order) >= 2 and any(broken.values()) and not all(broken.values())) if prop == "C18" else not all(broken.values())
            ck.case({"gfa": gtext, "order": order}, nontriv, sample={"gfa": gtext.splitlines()[:8] + ["..."], "order": order, "broken": broken})
            ck.count("chromosomes:%d" % len(order))
            for b in broken.values():
                ck.count("kind:%s" % b)
            if res["outcome"] != "ok":
                ck.violation("order_gfa did not complete normally: %s" % (res.get("exc") or "exit %s" % res.get("code")), replay)
                continue
            impl = [{"name": c, "out": tokenize_gfa(res["files"][c]) if c in res["files"] else None} for c in order]
            if prop == "C06" and it % 5 == 3 and not default_order:      # consumed at it % 5 == 4: never on a default-order turn (it % 15 == 7)
                fu = edited_rerun_case(rng, res, order)
                if fu:
                    followups.append(fu)
            r = ck.driver([{"op": "order.run", "gfa": tok, "order": order, "with_seq": with_seq, "impl": impl}])[0]
            ok = True
            for sp in r["spec"]:
                c = sp["name"]
                ck.count("written" if sp["written"] else "skipped")
                if sp["written"]:
                    if not sp["linear"] or not sp["single_sn"]:
                        if prop == "C18":
                            ck.violation("chromosome %s is not a simple chain of one reference sequence (%s) but was ordered and written" % (
                                c, "collapsed graph branches / has a cycle" if not sp["linear"] else "scaffold nodes on several stable sequences: joined through a haplotype"), dict(replay, chromosome=c))
                            ok = False
                    elif prop == "C06" and not sp["chain_ok"]:
                        ck.violation("BO/NO of chromosome %s do not encode its bubble chain (first BO expected %s)" % (c, sp["lo"]), dict(replay, chromosome=c, output=res["files"][c]))
                        ok = False
                    elif prop == "C07" and not sp["file_ok"]:
                        ck.violation("written GFA of chromosome %s does not hold exactly the component's segments and links (+BO/NO), S lines in (BO,NO) order" % c, dict(replay, chromosome=c, output=res["files"][c]))
                        ok = False
                    if prop == "C07":
                        txt = res["files"][c]
                        if not check_layout(txt):
                            ck.violation("S lines do not all precede the L lines in %s" % c, dict(replay, output=txt))
                            ok = False
                        ok = csv_check(ck, c, sp, res, tokenize_gfa(txt), replay) and ok
                else:
                    if not sp["ok"]:
                        ck.violation("chromosome %s has a linear bubble chain with %d articulation points but was skipped" % (c, sp["aps"]), dict(replay, chromosome=c))
                        ok = False
                    if c in res["csv"]:
                        ck.violation("a CSV was written for the skipped chromosome %s" % c, dict(replay, chromosome=c))
                        ok = False
            if not ok:
                continue
            # model comparison: same chromosomes written with the same tags
            model = r["model"]
            impl_tags = {x["name"]: sorted([s["id"], int(dict((t[0], t[2]) for t in s["tags"])["BO"]), int(dict((t[0], t[2]) for t in s["tags"])["NO"])] for s in x["out"]["segs"]) for x in impl if x["out"]}
            if "crash" in model:
                ck.disagreement("model crashes (%s) where the tool completes" % model["crash"], replay)
            else:
                mt = {w["name"]: sorted(w["tags"]) for w in model["written"]}
                few = {sp["name"] for sp in r["spec"] if sp["aps"] < 2}
                if set(mt) != set(impl_tags) or any(mt[c] != impl_tags[c] for c in mt if c not in few):
                    ck.disagreement("written chromosomes / tags differ from the model's", dict(replay, model=mt, impl=impl_tags))
            if prop == "C07" and r.get("model_files") is not None:
                # the files themselves against the model's (`orderFiles`): S lines in the same order with the same sequence and
                # the same tags in the same order; L lines as a multiset (their order follows set iteration order)
                few = {sp["name"] for sp in r["spec"] if sp["aps"] < 2 and not sp.get("single_node")}
                mf = {x["name"]: x["file"] for x in r["model_files"]}
                for x in impl:
                    if not x["out"] or x["name"] in few or x["name"] not in mf:
                        continue
                    isegs = [[sg["id"], sg["seq"], [":".join(tg) for tg in sg["tags"]]] for sg in x["out"]["segs"]]
                    ilinks = sorted([l["a"], l["da"], l["b"], l["db"], l["ov"], list(l["tags"])] for l in x["out"]["links"])
                    msegs = mf[x["name"]]["segs"]
                    mlinks = sorted(list(l) for l in mf[x["name"]]["links"])
                    ck.count("model-file-compared")
                    if isegs != msegs or ilinks != mlinks:
                        ck.disagreement("the written file of %s differs from the model's (orderFiles)" % x["name"],
                                        dict(replay, chromosome=x["name"], impl_segs=isegs[:8], model_segs=msegs[:8],
                                             links_equal=ilinks == mlinks))
            if prop == "C06":
                # the assignment depends only on the graph: other line order, other stale tags
                g2 = text(rng, segs, links, stale=True)
                res2 = run_order(g2, order, with_seq, True, tmp, default_order=default_order)
                if res2["outcome"] != "ok":
                    ck.violation("order_gfa fails on a permutation of the lines of a file it handles", dict(replay, gfa2=g2))
                    continue
                for c in order:
                    a = impl_tags.get(c)
                    b = None
                    if c in res2["files"]:
                        t2 = tokenize_gfa(res2["files"][c])
                        b = sorted([s["id"], int(dict((t[0], t[2]) for t in s["tags"])["BO"]), int(dict((t[0], t[2]) for t in s["tags"])["NO"])] for s in t2["segs"])
                    if a != b:
                        naps = [sp["aps"] for sp in r["spec"] if sp["name"] == c][0]
                        if naps < 2 and a is not None and b is not None:
                            k2_seen += 1
                        else:
                            ck.violation("BO/NO of %s depend on the order of lines / on stale BO/NO tags" % c, dict(replay, gfa2=g2, tags1=a, tags2=b))
            if prop == "C06" and (it % (20 if quick else 5) == 3) and not default_order:
                # the assignment must not depend on set iteration order: same input under other PYTHONHASHSEEDs (sub-processes)
                few = {sp["name"] for sp in r["spec"] if sp["aps"] < 2}
                for hs in (1, 2, 3):
                    other = run_order_subprocess(gtext, order, with_seq, tmp, hs)
                    ck.count("hashseed-rerun")
                    for c in order:
                        if c in few:
                            continue
                        canon = lambda t: None if t is None else ([l for l in t.splitlines() if l.startswith("S")], sorted(l for l in t.splitlines() if l.startswith("L")))
                        if canon(other.get(c)) != canon(res["files"].get(c)):
                            ck.violation("output for %s differs under PYTHONHASHSEED=%d" % (c, hs), dict(replay, hashseed=hs, chromosome=c))
                            break
            if prop == "C07" or (prop == "C18" and it % 3 == 0):
                complete_check(ck, gtext, order, with_seq, res, tmp, replay)
                command_check(ck, prop, gtext, tok, order, with_seq, res, r, tmp, replay, default_order)
            if prop == "C18" and any(broken.values()):
                # a request that names only chromosomes that cannot be ordered: nothing is written, the command still completes,
                # with and without --by-chrom
                bad = [c for c in order if c not in res["files"]]
                if bad and it % 2 == 0:
                    for bc in (True, False):
                        resb = run_order(gtext, bad, with_seq, bc, tmp)
                        ck.count("only-unorderable-requested")
                        if resb["outcome"] != "ok":
                            ck.violation("order_gfa did not complete normally when every requested chromosome is skipped (by_chrom=%s): %s" % (
                                bc, resb.get("exc") or "exit %s" % resb.get("code")), dict(replay, order=bad, by_chrom=bc))
                        elif any(t.strip() for t in resb["files"].values()) or any(t.strip() for t in resb["csv"].values()):
                            ck.violation("something was written although every requested chromosome is skipped (by_chrom=%s)" % bc, dict(replay, order=bad, by_chrom=bc))
            if prop in ("C18", "C07") and it % 3 == 1 and not default_order:
                reused_outdir_check(ck, rng, segs, links, order, with_seq, res, tmp, replay)
            if prop == "C18" and any(broken.values()):
                good = [c for c in order if c in res["files"]]
                if good and len(good) < len(order):
                    res3 = run_order(gtext, good, with_seq, True, tmp)
                    if res3["outcome"] != "ok" or res3["files"] != res["files"] or res3["csv"] != res["csv"]:
                        ck.violation("the written chromosomes differ from a run in which the skipped ones are absent from the request", dict(replay, good=good))
        if prop == "C07":
            roundtrip_io(ck, tmp, 150 if quick else 2000)
            # the TEXT level of GFA reading and writing (line splitting, strip(), the tag regexes, overlaps, record kinds, the
            # order of errors): Model/GfaText.lean, theorems Props/GfaText.lean (Audit/C07_extra.lean); also checks the harness's
            # own tokeniser against the model
            import p_gfatext
            p_gfatext.gfatext_check(ck, tmp, 3000 if quick else 30000)
        if prop in ("C06", "C07"):
            for _ in range(1 if quick else 4):
                big_case(ck, prop, tmp)
    finally:
        shutil.rmtree(tmp, ignore_errors=True)
    if prop == "C06":
        k2 = k2_witness()
        if k2 or k2_seen:
            ck.known_finding("K2", "component with fewer than two articulation points: BO direction is not fixed by reference offsets and depends on set iteration order (corpus/C06/K2.json: %s; %d generated cases this run)" % (k2 or "not reproduced under the listed hash seeds", k2_seen))
    ck.rule = {
        "C06": "1-3 chromosomes of 3-7 scaffold nodes with SNP/insertion/deletion/inversion/multi-segment/nested bubbles, links declared from either end, ids s<n>/numerals/mixed, shuffled lines, stale BO/NO, some chromosomes made unorderable; every permutation position via shuffled --chromosome_order; each case re-run on a re-shuffled file with other stale tags; non-trivial = at least one orderable chromosome",
        "C07": "same generator; --with-sequence on/off, per-chromosome files and the -complete file/CSV; plus load/write/load round trips of random GFAs with all link shapes, tags of every SAM type, H lines; non-trivial = at least one written chromosome",
        "C18": "same generator with tips / three cut vertices on a cycle / haplotype tail at random chromosomes and positions; written files compared with a run from which the skipped chromosomes are removed; non-trivial = at least one skipped and one ordered chromosome",
    }[prop]
    return ck.finish()


def big_chain(rng, name, nb, ids):
    """a long chain of SNP bubbles: 3*nb+1 segments, 4*nb links"""
    segs, links = [], []

    def new(sn, so, sr):
        i = next(ids)
        segs.append([i, sn, so, sr, gen.rseq(rng, 2), []])
        return i
    so = 0
    prev = new(name, so, 0)
    for b in range(nb):
        r = new(name, so + 2, 0)
        h = new("%s_h%d" % (name, b), 5, 1)
        nxt = new(name, so + 4, 0)
        so += 4
        for x in (r, h):
            links.append((prev, "+", x, "+", 0, []))
            links.append((x, "+", nxt, "+", 0, []))
        prev = nxt
    return segs, links


def big_case(ck, prop, tmp):
    """a file of several thousand S and L lines (more than any plausible internal batch), lines in S-first, L-first and shuffled
    order: the tags must be those of the Lean model (orderRun; the definition-level specification is not evaluated at this
    size - that the model meets it is the theorem orderRun_chain) and must not depend on the order of lines"""
    rng = ck.rng
    ids = idgen("s")
    s1, l1 = big_chain(rng, "chrB", 3, ids)
    s2, l2 = big_chain(rng, "chrA", rng.randint(1050, 1200), ids)
    segs, links = s1 + s2, l1 + l2
    order = ["chrB", "chrA"]
    base = text(rng, segs, links, stale=False, shuffle=False).splitlines()
    S = [l for l in base if l.startswith("S")]
    L = [l for l in base if l.startswith("L")]
    sh = base[:]
    rng.shuffle(sh)
    variants = {"S-first": S + L, "L-first": L + S, "shuffled": sh}
    tags = {}
    for name, lines in variants.items():
        gtext = "\n".join(lines) + "\n"
        res = run_order(gtext, order, False, True, tmp)
        ck.case({"big": name, "segments": len(S), "links": len(L)}, True, sample={"layout": name, "segments": len(S), "links": len(L)})
        ck.count("big-file:%s" % name)
        replay = {"layout": name, "gfa": gtext, "order": order}
        if res["outcome"] != "ok":
            ck.violation("order_gfa did not complete normally on a large file (%s): %s" % (name, res.get("exc") or "exit %s" % res.get("code")), replay)
            return
        impl = [{"name": c, "out": tokenize_gfa(res["files"][c]) if c in res["files"] else None} for c in order]
        tags[name] = {x["name"]: sorted([sg["id"], int(dict((t[0], t[2]) for t in sg["tags"])["BO"]), int(dict((t[0], t[2]) for t in sg["tags"])["NO"])] for sg in x["out"]["segs"]) for x in impl if x["out"]}
        if name != "S-first" and tags[name] != tags["S-first"]:
            miss = {c: len(tags["S-first"].get(c, [])) - len(tags[name].get(c, [])) for c in order}
            ck.violation("BO/NO depend on the order of lines in a large file (%s vs S-first; nodes missing per chromosome: %s)" % (name, miss), replay)
            return
        if name == "shuffled":
            r = ck.driver([{"op": "order.run", "gfa": tokenize_gfa(gtext), "order": order, "with_seq": False, "impl": impl, "big": True}])[0]
            model = r["model"]
            mt = {w["name"]: sorted(w["tags"]) for w in model.get("written", [])}
            if "crash" in model or mt != tags[name]:
                ck.disagreement("large file: written chromosomes / tags differ from the model's", {"layout": name, "order": order, "model_keys": sorted(mt), "impl_keys": sorted(tags[name])})


def k2_witness():
    """the recorded witness of K2, under several PYTHONHASHSEEDs (sub-processes): returns a description if it still manifests"""
    import json
    w = json.load(open(os.path.join(VERIF, "corpus", "C06", "K2.json")))
    tmp = tempfile.mkdtemp(prefix="gtv-k2-")
    try:
        gen.write_text(os.path.join(tmp, "k.gfa"), w["gfa"])
        seen = {}
        code = ("import sys,logging; logging.disable(logging.CRITICAL)\n"
                "from gaftools.cli import order_gfa\n"
                "order_gfa.run_order_gfa(sys.argv[1], sys.argv[2], by_chrom=True, chromosome_order=sys.argv[3], with_sequence=False)\n")
        for hs in w["hashseeds"]:
            out = os.path.join(tmp, "o%d" % hs)
            env = dict(os.environ, PYTHONHASHSEED=str(hs))
            p = subprocess.run(["/venv/bin/python", "-c", code, os.path.join(tmp, "k.gfa"), out, ",".join(w["order"])], env=env,
                               stdout=subprocess.DEVNULL, stderr=subprocess.DEVNULL, timeout=120)
            fs = sorted(glob.glob(out + "/*.gfa"))
            key = open(fs[0]).read() if fs else "skipped"
            seen.setdefault(key, []).append(hs)
        if len(seen) > 1:
            return "x1-x2-x3 ordered differently under hash seeds %s" % sorted(seen.values())
        return None
    finally:
        shutil.rmtree(tmp, ignore_errors=True)


def csv_check(ck, c, sp, res, tok, replay):
    rows = [l.split(",") for l in res["csv"].get(c, "").splitlines()]
    if not rows or rows[0] != ["Name", "Color", "SN", "SO", "BO", "NO"]:
        ck.violation("CSV of %s missing or without header" % c, dict(replay, csv=res["csv"].get(c)))
        return False
    body = rows[1:]
    tags = {s["id"]: dict((t[0], t[2]) for t in s["tags"]) for s in tok["segs"]}
    roles = dict(sp["roles"])
    if sorted(r[0] for r in body) != sorted(tags) or any(
            [r[1], r[2], r[3], r[4], r[5]] != [roles.get(r[0]), tags[r[0]].get("SN", "NA"), tags[r[0]].get("SO", "NA"), tags[r[0]].get("BO"), tags[r[0]].get("NO")] for r in body):
        ck.violation("CSV of %s does not list every node once with its role and BO/NO" % c, dict(replay, csv=res["csv"].get(c)))
        return False
    return True


def complete_check(ck, gtext, order, with_seq, res, tmp, replay):
    """without --by-chrom: the -complete file is the concatenation (S lines, then L lines) of the per-chromosome files"""
    resc = run_order(gtext, order, with_seq, False, tmp)
    if resc["outcome"] != "ok":
        ck.violation("order_gfa without --by-chrom did not complete", replay)
        return
    written = [c for c in order if c in res["files"]]
    exp_s = [l for c in written for l in res["files"][c].splitlines() if l.startswith("S")]
    exp_l = [l for c in written for l in res["files"][c].splitlines() if l.startswith("L")]
    got = resc["files"].get("complete", "").splitlines()
    if got[:len(exp_s)] != exp_s or sorted(got[len(exp_s):]) != sorted(exp_l) or set(resc["files"]) != {"complete"}:
        ck.violation("the -complete GFA is not the per-chromosome files concatenated (all S lines, then all L lines)", dict(replay, complete=got[:50]))
    exp_csv = [l for c in written for l in res["csv"][c].splitlines()]
    if resc["csv"].get("complete", "").splitlines() != exp_csv:
        ck.violation("the -complete CSV is not the per-chromosome CSVs concatenated", replay)


def command_check(ck, prop, gtext, tok, order, with_seq, res, r, tmp, replay, default_order):
    """the model of the whole command (Order.orderCommand: request resolution, CSV rows, -complete files) against the tool, and the
    CSV / complete-file specifications (Spec.Order.specCsv, specComplete) evaluated on the tool's own files"""
    rng = ck.rng
    few = {sp["name"] for sp in r["spec"] if sp["aps"] < 2 and not sp.get("single_node")}
    written = [c for c in order if c in res["files"]]
    impl_csv = []
    for c in written:
        rows = [l.split(",") for l in res["csv"].get(c, "").splitlines()]
        impl_csv.append({"name": c, "rows": rows, "out": tokenize_gfa(res["files"][c])})
    resc = run_order(gtext, order, with_seq, False, tmp, default_order=default_order)
    comp_tok = tokenize_gfa(resc["files"]["complete"]) if resc["outcome"] == "ok" and "complete" in resc.get("files", {}) else None
    option = "" if default_order else ",".join(order)
    m = ck.driver([{"op": "order.command", "gfa": tok, "option": option, "with_seq": with_seq, "impl_csv": impl_csv, "impl_complete": comp_tok}])[0]
    ck.count("command-model-compared")
    if m.get("resolved") is None or "crash" in m:
        ck.disagreement("the model rejects / crashes on a request the tool accepts", dict(replay, model=m))
        return
    for name, ok in m["csv_spec"]:
        if not ok and prop == "C07":
            ck.violation("CSV of %s does not list every node of the component exactly once with its role, SN/SO and the BO/NO of the GFA file" % name,
                         dict(replay, chromosome=name, csv=res["csv"].get(name)))
            return
    if comp_tok is not None and m["complete_spec"] is False and not (few & set(written)) and prop == "C07":
        ck.violation("the -complete GFA is not: S lines of the ordered chromosomes in request order, in increasing (BO, NO) order over the whole file, then their L lines",
                     dict(replay, complete=resc["files"]["complete"][:3000]))
        return
    mcsv = {x["name"]: x["rows"] for x in m["csv"]}
    for x in impl_csv:
        if x["name"] in few:
            continue
        if mcsv.get(x["name"]) != x["rows"]:
            ck.disagreement("the CSV of %s differs from the model's (orderCsv)" % x["name"], dict(replay, chromosome=x["name"], impl=x["rows"][:8], model=(mcsv.get(x["name"]) or [])[:8]))
            return
    if comp_tok is not None and not (few & set(written)):
        isegs = [[sg["id"], sg["seq"], [":".join(tg) for tg in sg["tags"]]] for sg in comp_tok["segs"]]
        ilinks = sorted([l["a"], l["da"], l["b"], l["db"], l["ov"], list(l["tags"])] for l in comp_tok["links"])
        if isegs != m["complete"]["segs"] or ilinks != sorted(list(l) for l in m["complete"]["links"]):
            ck.disagreement("the -complete GFA differs from the model's (completeGfa)", dict(replay, impl_segs=isegs[:8], model_segs=m["complete"]["segs"][:8]))
            return
        ccsv = [l.split(",") for l in resc["csv"].get("complete", "").splitlines()]
        if ccsv != m["complete_csv"]:
            ck.disagreement("the -complete CSV differs from the model's (completeCsv)", dict(replay, impl=ccsv[:8], model=m["complete_csv"][:8]))
            return
    # requests the command must refuse before writing anything: an unknown chromosome name; no --chromosome_order although the
    # components are not the 25 default chromosomes
    if rng.random() < 0.5 and not default_order:
        names = m["names"]
        kind = rng.choice(["unknown-name", "default-mismatch", "empty-name"])
        if kind == "unknown-name":
            bad = order[:]
            bad.insert(rng.randint(0, len(bad)), rng.choice(["chrZZ", "chr", order[0] + "x", order[0].upper() if order[0].upper() != order[0] else "q"]))
            opt = ",".join(bad)
        elif kind == "empty-name":
            opt = ",".join(order) + ","
        else:
            opt = ""
        mm = ck.driver([{"op": "order.command", "gfa": tok, "option": opt, "with_seq": with_seq, "impl_csv": None, "impl_complete": None}])[0]
        from gaftools.cli import order_gfa
        src = os.path.join(tmp, "bad.gfa")
        gen.write_text(src, gtext)
        out = os.path.join(tmp, "bad_out")
        shutil.rmtree(out, ignore_errors=True)
        try:
            with watchdog(120):
                tool("order_gfa", gfa_filename=src, outdir=out, by_chrom=True, chromosome_order=opt, with_sequence=with_seq)
            outcome = "accepted"
        except SystemExit as e:
            outcome = "rejected" if e.code not in (0, None) else "exit0"
        except BaseException as e:  # noqa
            outcome = "crash:" + type(e).__name__
        wrote = [f for f in glob.glob(os.path.join(out, "*")) if os.path.getsize(f) > 0]
        ck.count("bad-request:%s" % kind)
        model_rejects = mm.get("resolved") is None
        if model_rejects != (outcome == "rejected") or (outcome == "rejected" and wrote):
            ck.disagreement("request %r: the tool %s%s, the model %s" % (opt, outcome, " after writing files" if wrote else "", "rejects" if model_rejects else "accepts"),
                            dict(replay, option=opt, names=names))


def reused_outdir_check(ck, rng, segs, links, order, with_seq, res, tmp, replay):
    """a re-used --outdir: first a --by-chrom run in which chromosome c is orderable, then - same file name, same directory - a
    run without --by-chrom on the graph in which c has gained branching tips and must be skipped. The -complete files must be
    those of a run into a fresh directory: nothing of the earlier run's files for c may enter them."""
    good = [c for c in order if c in res["files"]]
    if not good:
        return
    c = rng.choice(good)
    ref = sorted([sg for sg in segs if sg[1] == c and sg[3] == 0], key=lambda sg: sg[2])
    if len(ref) < 3:
        return
    mid = ref[len(ref) // 2]
    segs2 = [list(sg) for sg in segs] + [["tipA_%s" % c, c + "_t", 3, 4, "AC", []], ["tipB_%s" % c, c + "_t", 30, 4, "GT", []]]
    links2 = list(links) + [(mid[0], "+", "tipA_%s" % c, "+", 0, []), (mid[0], "+", "tipB_%s" % c, "+", 0, [])]
    g1 = text(rng, segs, links, stale=False)
    g2 = text(rng, segs2, links2, stale=False)
    fresh = run_order(g2, order, with_seq, False, tmp)
    if fresh["outcome"] != "ok":
        return
    first = run_order(g1, order, with_seq, True, tmp)
    if first["outcome"] != "ok" or c not in first["files"]:
        return
    again = run_order(g2, order, with_seq, False, tmp, keep_outdir=True)
    ck.count("reused-outdir")
    if again["outcome"] != "ok":
        ck.violation("order_gfa fails when --outdir holds the files of an earlier run", dict(replay, gfa=g1, gfa2=g2, chromosome=c))
        return
    canon = lambda t: ([l for l in t.splitlines() if l.startswith("S")], sorted(l for l in t.splitlines() if l.startswith("L")))
    if canon(again["files"].get("complete", "")) != canon(fresh["files"].get("complete", "")) or again["csv"].get("complete") != fresh["csv"].get("complete"):
        ck.violation("the -complete output depends on files an earlier run left in --outdir (chromosome %s was orderable then, is skipped now)" % c,
                     dict(replay, gfa=g1, gfa2=g2, chromosome=c, complete=again["files"].get("complete", "")[:3000]))


def edited_rerun_case(rng, res, order):
    """the documented pipeline "order, extend the graph, order again": the tool's own output (every node carrying complete,
    well-formed BO/NO tags) gets one more link - a deletion edge from a scaffold node to the next but one, which merges two
    bubbles and the scaffold node between them into one bubble - and is handed back as a new input. The stale tags describe the
    OLD chain; the assignment must depend on the graph only. Returns (segs, links, order, broken) or None."""
    written = [c for c in order if c in res["files"]]
    segs, links, scaff = [], [], {}
    for c in written:
        t = tokenize_gfa(res["files"][c])
        for sg in t["segs"]:
            tags = {tg[0]: tg for tg in sg["tags"]}
            rest = [":".join(tg) for tg in sg["tags"] if tg[0] not in ("LN", "SN", "SO", "SR")]
            if all(k in tags for k in ("SN", "SO", "SR")):
                segs.append([sg["id"], tags["SN"][2], int(tags["SO"][2]), int(tags["SR"][2]), sg["seq"], rest])
            else:
                segs.append([sg["id"], None, 0, 9, sg["seq"], ["__RAW__"] + [":".join(tg) for tg in sg["tags"]]])
            if tags.get("NO", (0, 0, "1"))[2] == "0" and "BO" in tags:
                scaff.setdefault(c, []).append((int(tags["BO"][2]), sg["id"]))
        for l in t["links"]:
            links.append((l["a"], "+" if l["da"] else "-", l["b"], "+" if l["db"] else "-", l["ov"], list(l["tags"])))
    cands = [c for c in written if len(scaff.get(c, [])) >= 3]
    if not cands:
        return None
    c = rng.choice(cands)
    sc = [x[1] for x in sorted(scaff[c])]
    i = rng.randrange(len(sc) - 2)
    links.append((sc[i], "+", sc[i + 2], "+", 0, []))
    return segs, links, written, {x: None for x in written}


def roundtrip_io(ck, tmp, n):
    """loading any GFA and writing it back yields a file that loads to an equal graph"""
    from gaftools.gfa import GFA
    from p_graph import small_gfa
    rng = ck.rng
    for it in range(n):
        txt, ids = small_gfa(rng, maxn=6)
        # tags of every SAM type on S and L lines
        lines = []
        seen = set()
        for l in txt.splitlines():
            if l.startswith("S") and rng.random() < 0.6:
                l += "\t" + "\t".join(t for t in gen.rand_tags(rng, with_tp=False) if t[:2] not in ("cg",))
            if l.startswith("L"):
                f = l.split("\t")
                k = tuple(sorted([(f[1], f[2]), (f[3], FL[f[4]])]))
                if k in seen:
                    continue     # parallel links between the same node sides share one edge_tags slot: outside the quantifier (stated)
                seen.add(k)
                if rng.random() < 0.5:
                    l += "\t" + "\t".join(gen.rand_tags(rng, n=2, with_tp=False))
            lines.append(l)
        txt = "\n".join(lines) + "\n"
        a = os.path.join(tmp, "io.gfa")
        b = os.path.join(tmp, "io2.gfa")
        gen.write_text(a, txt)
        try:
            g1 = GFA(a)
            g1.write_gfa(output_file=b)
            g2 = GFA(b)
            eq = g1.is_equal_to(g2) and g2.is_equal_to(g1) and g1.edge_tags == g2.edge_tags
        except BaseException as e:  # noqa
            ck.violation("GFA load/write/load raised %s: %s" % (type(e).__name__, e), {"gfa": txt})
            continue
        t1 = tokenize_gfa(txt)
        t2 = tokenize_gfa(open(b).read())
        ck.case({"gfa": txt}, any((not l["da"]) or (not l["db"]) or l["a"] == l["b"] or l["tags"] for l in t1["links"]))
        ck.count("io-roundtrip")
        canon_l = lambda t: sorted((l["a"], l["da"], l["b"], l["db"], l["ov"], tuple(l["tags"])) for l in t["links"] if l["a"] in ids and l["b"] in ids)
        segs1 = {}
        for s in t1["segs"]:
            segs1.setdefault(s["id"], s)
        canon_s = lambda segs: sorted((s["id"], s["seq"], tuple(dict((t[0], (t[1], t[2])) for t in s["tags"]).items())) for s in segs)
        if not eq or canon_l(t1) != canon_l(t2) or canon_s(segs1.values()) != canon_s(t2["segs"]) or not check_layout(open(b).read()):
            ck.violation("load -> write -> load does not give an equal graph / the written file lost, duplicated or invented a segment or link", {"gfa": txt, "written": open(b).read()})


if __name__ == "__main__":
    prop = sys.argv[1]
    run_check(lambda: main(prop), prop)
