"""C15 (extra): the helper functions of gaftools/gfa.py that Model/GraphExtra.lean models — Node.in_direction / children,
GFA.remove_lonely_nodes, graph_from_comp, list_is_path, get_path, get_contig_length, return_gfa_path, Node.is_equal_to and
GFA.is_equal_to — run on the REAL code in-process and compared, request by request, with the Lean model (driver op `graph.extra`).

    c15_extra(ck, tmp, n)          n generated graphs, every request compared; differences -> ck.disagreement(...)
    python p_graph_extra.py [n] [--seed s] [--mutant name|all]      standalone (needs the compiled driver)

A mutant (`--mutant`) replaces one method of the loaded gaftools.gfa classes by a deliberately wrong copy for the run and restores
it afterwards: the run must then report disagreements (the comparison is not vacuous)."""
import os
import random
import sys
import tempfile
import shutil

sys.path.insert(0, os.path.dirname(os.path.abspath(__file__)))
import core                                                              # noqa: E402
import gen                                                               # noqa: E402
from p_graph import tokenize_gfa, small_gfa, rand_graph, graph_text     # noqa: E402

KNOWN_ERRORS = ("ValueError", "IndexError", "KeyError", "AttributeError")


def outcome(f):
    """value / the exception class of the small enum / exit / crash:<class>"""
    try:
        return {"ok": f()}
    except SystemExit:
        return {"err": "exit"}
    except BaseException as e:  # noqa
        name = type(e).__name__
        return {"err": name if name in KNOWN_ERRORS else "crash:" + name}


def dump(g):
    """the whole object, canonical: adjacency sets sorted, dicts in insertion order; contig lists that a mere *read* of the
    defaultdict created (empty lists) are dropped"""
    return {"nodes": [{"id": n.id, "seq": n.seq,
                       "start": sorted([a, bool(b), c] for a, b, c in n.start),
                       "end": sorted([a, bool(b), c] for a, b, c in n.end),
                       "tags": [[k, v[0], v[1]] for k, v in n.tags.items()]} for n in g.nodes.values()],
            "contigs": [[k, list(v)] for k, v in g.contig_to_nodes.items() if v]}


def sorted_nodes(d):
    d = dict(d)
    d["nodes"] = sorted(d["nodes"], key=lambda n: n["id"])
    return d


# ------------------------------------------------------------------------------------------------ generators
def tagged_text(rng):
    """an rGFA (SN/SO/LN/SR; reference contigs are paths, haplotype contigs usually are not), then damaged here and there:
    missing / non-numeric / signed / zero-padded SO and LN, equal SO inside a contig, repeated S lines, lonely nodes"""
    g = gen.rgfa(rng, max_ref=2, max_ref_segs=5, max_hap=3, extra_links=rng.random() < 0.6)
    if rng.random() < 0.3 and len(g.segs) >= 2:      # a haplotype contig that IS a path, joined in both orientations
        hs = [s for s in g.segs if s["SN"].startswith("hap")]
        for a, b in zip(hs, hs[1:]):
            if a["SN"] == b["SN"]:
                g.links.append((a["id"], rng.choice("+-"), b["id"], rng.choice("+-"), 0, ()))
    lines = g.text(with_seq=rng.random() < 0.8, bo=False).splitlines()
    out = []
    for ln in lines:
        if ln.startswith("S") and rng.random() < 0.12:
            f = ln.split("\t")
            k = rng.randrange(9)
            so = [i for i, t in enumerate(f) if t.startswith("SO:")][0]
            lnx = [i for i, t in enumerate(f) if t.startswith("LN:")][0]
            v = int(f[so].split(":")[2])
            if k == 0:
                del f[so]
            elif k == 1:
                f[so] = "SO:Z:x%d" % v
            elif k == 2:
                f[so] = "SO:i:+%d" % v
            elif k == 3:
                f[so] = "SO:i:00%d" % v
            elif k == 4:
                f[so] = "SO:i:-%d" % rng.randint(0, 3)
            elif k == 5:
                del f[lnx]
            elif k == 6:
                f[lnx] = "LN:Z:n/a"
            elif k == 7:
                f = [t for t in f if not t.startswith("SR:")]
            else:
                f = [t for t in f if not t.startswith("SN:")]
            ln = "\t".join(f)
        out.append(ln)
        if ln.startswith("S") and rng.random() < 0.05:
            out.append(ln)                                   # the same S line twice (second is ignored, but its id is listed twice)
    if rng.random() < 0.25:                                  # two nodes of one contig with the same SO: the sort must be stable
        S = [i for i, ln in enumerate(out) if ln.startswith("S") and "\tSO:i:" in ln]
        if len(S) >= 2:
            a, b = rng.sample(S, 2)
            va = [t for t in out[a].split("\t") if t.startswith("SO:")][0]
            out[b] = "\t".join(va if t.startswith("SO:") else t for t in out[b].split("\t"))
    if rng.random() < 0.2:
        rng.shuffle(out)
    return "\n".join(out) + "\n"


def gen_text(rng):
    r = rng.random()
    if r < 0.5:
        return tagged_text(rng), "rgfa"
    if r < 0.8:
        return small_gfa(rng)[0], "small"
    n, edges = rand_graph(rng, maxn=7)
    return graph_text(n, edges, rng)[0], "rand"


def variant(rng, text):
    """another GFA for is_equal_to: the same graph written differently (equal), or changed in one place (different)"""
    lines = text.splitlines()
    S = [i for i, ln in enumerate(lines) if ln.startswith("S")]
    L = [i for i, ln in enumerate(lines) if ln.startswith("L")]
    k = rng.randrange(10)
    if k == 0:
        return text, "same"
    if k == 1:
        return "\n".join(reversed(lines)) + "\n", "reversed-lines"
    if k == 2:                                               # tags of every S line in another order (dict equality ignores order)
        out = []
        for ln in lines:
            f = ln.split("\t")
            if ln.startswith("S") and len(f) > 4:
                t = f[3:]
                rng.shuffle(t)
                ln = "\t".join(f[:3] + t)
            out.append(ln)
        return "\n".join(out) + "\n", "tags-permuted"
    if k == 3 and L:
        del lines[rng.choice(L)]
        return "\n".join(lines) + "\n", "link-dropped"
    if k == 4 and S:
        i = rng.choice(S)
        f = lines[i].split("\t")
        f[2] = f[2] + "A" if f[2] != "*" else "A"
        lines[i] = "\t".join(f)
        return "\n".join(lines) + "\n", "seq-changed"
    if k == 5 and S:
        i = rng.choice(S)
        f = lines[i].split("\t")
        if len(f) > 3:
            n, ty, v = f[-1].split(":", 2)
            f[-1] = "%s:%s:%s" % (n, ty, v + "1")
        else:
            f.append("xx:Z:new")
        lines[i] = "\t".join(f)
        return "\n".join(lines) + "\n", "tag-changed"
    if k == 6 and S:
        i = rng.choice(S)
        f = lines[i].split("\t")
        old = f[1]
        new = old + "x"
        out = []
        for ln in lines:
            g = ln.split("\t")
            if g[0] == "S" and g[1] == old:
                g[1] = new
            elif g[0] == "L":
                g[1] = new if g[1] == old else g[1]
                g[3] = new if g[3] == old else g[3]
            out.append("\t".join(g))
        return "\n".join(out) + "\n", "node-renamed"
    if k == 7:
        return text + "S\textra_node\tACGT\n", "node-added"
    if k == 8 and L:
        i = rng.choice(L)
        f = lines[i].split("\t")
        f[5] = "%dM" % (int(f[5][:-1]) + 1)
        lines[i] = "\t".join(f)
        return "\n".join(lines) + "\n", "overlap-changed"
    if k == 9 and L:
        i = rng.choice(L)
        f = lines[i].split("\t")
        f[2] = "-" if f[2] == "+" else "+"
        lines[i] = "\t".join(f)
        return "\n".join(lines) + "\n", "orientation-changed"
    return text, "same"


def rand_list(rng, g, ids):
    """a node list: a walk along neighbours (a path), possibly broken, with an unknown id, or arbitrary; lengths 0-6"""
    r = rng.random()
    if r < 0.08:
        return []
    if r < 0.55 and ids:
        cur = rng.choice(ids)
        w = [cur]
        for _ in range(rng.randint(0, 5)):
            nb = g.nodes[cur].neighbors() if cur in g.nodes else []
            if not nb:
                break
            cur = rng.choice(nb)
            w.append(cur)
    else:
        w = [rng.choice(ids) for _ in range(rng.randint(1, 6))]
    if rng.random() < 0.12:
        w[rng.choice([len(w) - 1, 0, rng.randrange(len(w))])] = "zz_not_a_node"
    return w


# ------------------------------------------------------------------------------------------------ the check
def one_graph(ck, tmp, it):
    from gaftools.gfa import GFA
    rng = ck.rng
    text, style = gen_text(rng)
    lm = rng.random() < 0.25
    path = os.path.join(tmp, "x.gfa")
    gen.write_text(path, text)
    try:
        g = GFA(path, low_memory=lm)
    except BaseException as e:  # noqa   (e.g. the SR assertion of add_node): not a case of these helpers
        ck.count("extra:load-failed:%s" % type(e).__name__)
        return None
    tok = tokenize_gfa(text)
    ids = list(g.nodes.keys())
    if not ids:
        return None
    contigs = sorted({t[2] for s in tok["segs"] for t in s["tags"] if t[0] == "SN"}) + ["no_such_contig"]
    reqs, impl = [], []

    def add(req, f):
        reqs.append(req)
        impl.append(outcome(f))

    # Node.children / in_direction
    for _ in range(4):
        i, o = rng.choice(ids), rng.choice(ids + ["ghost"])
        d = rng.choice([0, 1, 0, 1, 2, -1])
        add({"k": "children", "id": i, "d": d}, lambda: sorted(g.nodes[i].children(d)))
        add({"k": "in_direction", "id": i, "other": o, "d": d}, lambda: g.nodes[i].in_direction(o, d))
    # list_is_path / return_gfa_path on generated lists
    for _ in range(6):
        w = rand_list(rng, g, ids)
        add({"k": "list_is_path", "nodes": w}, lambda: g.list_is_path(list(w)))
        add({"k": "return_gfa_path", "nodes": w}, lambda: g.return_gfa_path(list(w)))
    # get_path / get_contig_length, and return_gfa_path on what get_path gives (its intended use)
    for c in contigs:
        for tw in (True, False):
            add({"k": "get_path", "chrom": c, "tw": tw}, lambda: g.get_path(c, tw))
            add({"k": "contig_length", "chrom": c, "tw": tw}, lambda: g.get_contig_length(c, tw))
        p = outcome(lambda: g.get_path(c, False))
        if "ok" in p:
            add({"k": "return_gfa_path", "nodes": p["ok"]}, lambda: g.return_gfa_path(list(p["ok"])))
    # graph_from_comp: a real component (a set: node order of the result is that of the set), a list with repeats / strangers
    comps = [c for c in g.all_components()]
    cc = rng.choice(comps)
    r = outcome(lambda: dump(g.graph_from_comp(cc)))
    reqs.append({"k": "graph_from_comp", "comp": sorted(cc), "_set": True})
    impl.append({"ok": sorted_nodes(r["ok"])} if "ok" in r else r)
    sub = [rng.choice(ids) for _ in range(rng.randint(0, 5))]
    if rng.random() < 0.15:
        sub.insert(rng.randrange(len(sub) + 1), "zz_not_a_node")
    add({"k": "graph_from_comp", "comp": sub}, lambda: dump(g.graph_from_comp(list(sub))))
    whole = ids[:] if rng.random() < 0.5 else sorted(cc)
    for topo in (False, True):
        def both():
            h = g.graph_from_comp(list(whole))
            return [h.is_equal_to(g, topo), g.is_equal_to(h, topo)]
        add({"k": "from_comp_eq", "comp": whole, "topo": topo}, both)
    # is_equal_to against a second file
    for _ in range(2):
        vt, vk = variant(rng, text)
        p2 = os.path.join(tmp, "y.gfa")
        gen.write_text(p2, vt)
        try:
            h = GFA(p2, low_memory=lm)
        except BaseException:  # noqa
            continue
        vtok = tokenize_gfa(vt)
        ck.count("extra:variant:%s" % vk)
        for topo in (False, True):
            add({"k": "graph_eq", "other": vtok, "topo": topo}, lambda: [g.is_equal_to(h, topo), h.is_equal_to(g, topo)])
        hid = list(h.nodes.keys())
        for _ in range(2):
            a = rng.choice(ids)
            b = a if (a in h.nodes and rng.random() < 0.8) else rng.choice(hid)
            topo = rng.random() < 0.5
            add({"k": "node_eq", "id": a, "oid": b, "other": vtok, "topo": topo}, lambda: g.nodes[a].is_equal_to(h.nodes[b], topo))
    # the object as loaded, then remove_lonely_nodes, then the contig helpers again (the contig table is not updated)
    add({"k": "dump"}, lambda: dump(g))

    def lonely():
        g.remove_lonely_nodes()
        return dump(g)
    add({"k": "remove_lonely"}, lonely)
    for c in contigs:
        tw = rng.random() < 0.5
        add({"k": "get_path", "chrom": c, "tw": tw}, lambda: g.get_path(c, tw))
        add({"k": "contig_length", "chrom": c, "tw": tw}, lambda: g.get_contig_length(c, tw))
    w = rand_list(rng, g, list(g.nodes.keys()) or ["zz_not_a_node"])
    if ids and rng.random() < 0.5:
        w.insert(rng.randrange(len(w) + 1), rng.choice(ids))       # possibly one of the removed nodes
    add({"k": "list_is_path", "nodes": w}, lambda: g.list_is_path(list(w)))
    case = {"op": "graph.extra", "gfa": tok, "low_memory": lm, "requests": [{k: v for k, v in r.items() if k != "_set"} for r in reqs]}
    return case, text, style, lm, reqs, impl


def judge(ck, rep, text, style, lm, reqs, impl):
    res = rep["results"]
    ck.count("extra:graph:%s" % style)
    after_lonely = False
    for q, im, mo in zip(reqs, impl, res):
        if q.get("_set") and "ok" in mo:
            mo = {"ok": sorted_nodes(mo["ok"])}
        kind = q["k"] + (":after-remove_lonely" if after_lonely and q["k"] != "remove_lonely" else "")
        if q["k"] == "remove_lonely":
            after_lonely = True
        if "err" in im:
            tag = im["err"]
        elif isinstance(im["ok"], bool):
            tag = str(im["ok"])
        elif isinstance(im["ok"], list) and im["ok"] and all(isinstance(b, bool) for b in im["ok"]):
            tag = "/".join(str(b) for b in im["ok"])
        elif isinstance(im["ok"], (list, str)):
            tag = "empty" if len(im["ok"]) == 0 else "value"
        else:
            tag = "value"
        ck.count("extra:%s:%s" % (kind, tag))
        nontrivial = "err" in im or im["ok"] not in ([], "", True)
        ck.case({"gfa": text, "req": q}, nontrivial,
                sample={"gfa": text.splitlines(), "request": q, "impl": im} if q["k"] == "return_gfa_path" and "ok" in im and len(q["nodes"]) >= 3 else None)
        if im != mo:
            ck.disagreement("gfa.py helper %s differs from the model" % q["k"],
                            {"gfa": text, "low_memory": lm, "request": q, "impl": im, "model": mo})


def c15_extra(ck, tmp, n):
    """n generated graphs; one batched driver call per 100 graphs"""
    pending = []

    def flush():
        if not pending:
            return
        reps = ck.driver([p[0] for p in pending])
        for (case, text, style, lm, reqs, impl), rep in zip(pending, reps):
            judge(ck, rep, text, style, lm, reqs, impl)
        del pending[:]
    for it in range(n):
        r = one_graph(ck, tmp, it)
        if r is not None:
            pending.append(r)
        if len(pending) >= 100:
            flush()
    flush()
    ck.canon = list(getattr(ck, "canon", [])) + [
        "children(): sorted (it comes out of a set)", "graph_from_comp(set): nodes of the result sorted by id",
        "contig_to_nodes: entries a read of the defaultdict created (empty lists) dropped"]


# ------------------------------------------------------------------------------------------------ mutants (self-test)
def _mutants():
    from gaftools.gfa import GFA, Node

    def list_is_path_ignores_last(self, node_list):
        for i in range(1, len(node_list) - 1):
            if node_list[i] not in self.nodes[node_list[i - 1]].neighbors():
                return False
        return True

    def in_direction_swapped(self, other, direction):
        if direction == 0:
            return other in [x[0] for x in self.end]
        elif direction == 1:
            return other in [x[0] for x in self.start]
        raise ValueError

    def children_no_error(self, direction):
        return [x[0] for x in (self.start if direction == 0 else self.end)]

    def remove_lonely_noop(self):
        return None

    def graph_from_comp_drops_start(self, component_nodes):
        new_graph = GFA()
        for n in component_nodes:
            new_node = Node(n)
            new_node.seq = self[n].seq
            new_node.seq_len = self[n].seq_len
            new_node.end = self[n].end
            new_node.tags = self[n].tags
            new_graph.nodes[n] = new_node
        return new_graph

    def get_path_unstable(self, chrom, throw_warning=True):
        nodes_of_chrom = self.contig_to_nodes[chrom]
        if nodes_of_chrom == []:
            return list()
        sorted_nodes = sorted(reversed(nodes_of_chrom), key=lambda x: int(self.nodes[x].tags["SO"][1]))
        if self.list_is_path(sorted_nodes):
            return sorted_nodes
        return list() if throw_warning else sorted_nodes

    def contig_length_returns_zero(self, chrom, throw_warning=True):
        sorted_nodes = self.get_path(chrom, throw_warning)
        if not sorted_nodes:
            return 0
        return sum([int(self.nodes[x].tags["LN"][1]) for x in sorted_nodes])

    def return_gfa_path_last_like_others(self, list_of_nodes):
        path = []
        for i in range(len(list_of_nodes) - 1):
            if self.nodes[list_of_nodes[i]].in_direction(list_of_nodes[i + 1], 1):
                path.append(list_of_nodes[i] + "+")
            elif self.nodes[list_of_nodes[i]].in_direction(list_of_nodes[i + 1], 0):
                path.append(list_of_nodes[i] + "-")
            else:
                raise ValueError("x")
        if self.nodes[list_of_nodes[-1]].in_direction(list_of_nodes[-2], 1):
            path.append(list_of_nodes[-1] + "+")
        elif self.nodes[list_of_nodes[-1]].in_direction(list_of_nodes[-2], 0):
            path.append(list_of_nodes[-1] + "-")
        else:
            raise ValueError("x")
        return ",".join(path)

    def node_eq_ignores_tags(self, other, only_topo=False):
        for a in (["id", "start", "end"] if only_topo else ["id", "seq", "seq_len", "start", "end"]):
            if not getattr(self, a) == getattr(other, a):
                return False
        return True

    def graph_eq_no_length_test(self, other, only_topo=False):
        for n_id, node1 in self.nodes.items():
            node2 = other[n_id]
            if node2 is None:
                return False
            if not node1.is_equal_to(node2, only_topo):
                return False
        return True

    return {"list_is_path": (GFA, "list_is_path", list_is_path_ignores_last),
            "in_direction": (Node, "in_direction", in_direction_swapped),
            "children": (Node, "children", children_no_error),
            "remove_lonely_nodes": (GFA, "remove_lonely_nodes", remove_lonely_noop),
            "graph_from_comp": (GFA, "graph_from_comp", graph_from_comp_drops_start),
            "get_path": (GFA, "get_path", get_path_unstable),
            "get_contig_length": (GFA, "get_contig_length", contig_length_returns_zero),
            "return_gfa_path": (GFA, "return_gfa_path", return_gfa_path_last_like_others),
            "Node.is_equal_to": (Node, "is_equal_to", node_eq_ignores_tags),
            "GFA.is_equal_to": (GFA, "is_equal_to", graph_eq_no_length_test)}


class _StandaloneCheck(core.Check):
    """the accounting of core.Check without the build / evidence machinery (for running this file on its own)"""

    def __init__(self, seed):  # noqa: super().__init__ deliberately not called
        self.prop, self.tier, self.seed = "C15", "quick", seed
        self.rng = random.Random("C15-extra-%d" % seed)
        self.hist, self.broken, self.violations, self.samples = {}, [], [], []
        self.evaluations, self.nontrivial, self.extra, self.canon = 0, set(), {}, []


def run_standalone(n, seed, mutant=None):
    ck = _StandaloneCheck(seed)
    tmp = tempfile.mkdtemp(prefix="gtv-gx-")
    saved = None
    try:
        if mutant:
            cls, name, fn = _mutants()[mutant]
            saved = (cls, name, getattr(cls, name))
            setattr(cls, name, fn)
        c15_extra(ck, tmp, n)
    finally:
        if saved:
            setattr(saved[0], saved[1], saved[2])
        shutil.rmtree(tmp, ignore_errors=True)
    return ck


if __name__ == "__main__":
    sys.path.insert(0, core.REPO)
    a = sys.argv[1:]
    n = int(a[0]) if a and a[0].isdigit() else 300
    seed = int(a[a.index("--seed") + 1]) if "--seed" in a else 1
    mut = a[a.index("--mutant") + 1] if "--mutant" in a else None
    if mut == "all":
        bad = 0
        for m in _mutants():
            ck = run_standalone(n, seed, m)
            print("mutant %-22s %5d requests, %4d disagreements  %s" % (m, ck.evaluations, len(ck.broken), "caught" if ck.broken else "NOT CAUGHT"))
            bad += not ck.broken
        sys.exit(1 if bad else 0)
    ck = run_standalone(n, seed, mut)
    for k in sorted(ck.hist):
        print("%6d  %s" % (ck.hist[k], k))
    print("%d graphs asked for, %d requests compared (%d distinct non-trivial), %d disagreements%s" % (
        n, ck.evaluations, len(ck.nontrivial), len(ck.broken), " [mutant %s]" % mut if mut else ""))
    for b in ck.broken[:5]:
        import json
        print(json.dumps(b, indent=1, default=str)[:3000])
    sys.exit(1 if ck.broken else 0)
